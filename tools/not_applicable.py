_pending = "check under construction in this round; see DESIGN.md section 2 for the planned structural clauses"
for _p in ["C20"]:
    NOT_APPLICABLE[_p] = _pending
