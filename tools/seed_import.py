#!/usr/bin/env python3
"""usage: tools/seed_import.py <agent seed dir> <id> [extra properties to run...]
Confirms the seed (tools/seed_eval.sh), runs the checks against it and stores it under /verif/seeded/<id>/."""
import json, os, re, shutil, subprocess, sys, datetime
sd, sid = sys.argv[1], sys.argv[2]
extra = sys.argv[3:]
meta = json.load(open(os.path.join(sd, "meta.json")))
props = [meta["property"]] + [p for p in extra if p != meta["property"]]
out = subprocess.run(["/verif/tools/seed_eval.sh", sd] + props, capture_output=True, text=True).stdout
print(out)
m = re.search(r"SUMMARY \S+ clean=(\d+) build=(\d+) patched=(\d+) suitefails=(\d+)", out)
if not m:
    print("NO SUMMARY - not imported"); sys.exit(1)
clean, build, patched, fails = map(int, m.groups())
confirmed = clean == 0 and build == 0 and patched != 0 and fails == 0
viol = re.findall(r"^VIOLATED: (\S+?)\.(\S+) site=(.*?) at ", out, re.M)
dst = os.path.join("/verif/seeded", sid)
os.makedirs(dst, exist_ok=True)
shutil.copy(os.path.join(sd, "patch.diff"), dst)
shutil.copy(os.path.join(sd, "demo_test.go"), dst)
meta_out = {
    "id": sid,
    "property": meta["property"],
    "breaks": meta.get("breaks"),
    "needs_to_manifest": meta.get("needs_to_manifest"),
    "demo_path": meta.get("demo_path"),
    "demo_run": meta.get("demo_run"),
    "author": "independent sub-agent given only the property text and a scratch worktree",
    "confirmed_by_me": {
        "at": datetime.datetime.utcnow().isoformat() + "Z",
        "repo_head": subprocess.run(["git", "-C", "/repo", "log", "--format=%h", "-1"], capture_output=True, text=True).stdout.strip(),
        "what_i_ran": "tools/seed_eval.sh: scratch worktree of /repo HEAD; demo on clean tree (exit %d); git apply patch.diff; go build ./... (exit %d); demo with patch (exit %d, must be non-zero); go test ./... without the demo (non-flaky failures: %d); then patch applied to /repo, bin/dscheck for %s, patch reverted" % (clean, build, patched, fails, ",".join(props)),
        "confirmed": confirmed,
    },
    "checks_run": props,
    "caught_by": sorted({"%s.%s" % (p, r) for p, r, s in viol}),
    "caught_sites": sorted({"%s.%s %s" % (p, r, s) for p, r, s in viol}),
    "caught": bool(viol),
}
json.dump(meta_out, open(os.path.join(dst, "meta.json"), "w"), indent=1)
print("IMPORTED" if confirmed else "NOT CONFIRMED", sid, "caught_by", meta_out["caught_by"])
