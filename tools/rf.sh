#!/bin/bash
# usage: tools/rf.sh <refactor id> [property ...]   (applies refactors/<id>/patch.diff to /repo, runs the checks, reverts)
id=$1; shift
props=${@:-all}
mkdir -p /tmp/rfx; cp /verif/known_findings.txt /tmp/rfx/
git -C /repo apply /verif/refactors/$id/patch.diff || exit 1
for p in $props; do /verif/bin/dscheck -property $p -verif /tmp/rfx $DSFLAGS 2>&1 | grep -E "^(VIOLATED|UNDECIDED)" | cut -c1-${CUT:-260}; done
git -C /repo checkout -- . ; git -C /repo clean -fdq pkg
