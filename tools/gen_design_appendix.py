#!/usr/bin/env python3
"""Regenerates the two generated appendices of DESIGN.md (between the BEGIN/END markers) from
evidence/*.json (rule catalogue, as the checker itself describes its rules) and seeded/*/meta.json."""
import json, glob, os, re
HERE = os.path.dirname(os.path.dirname(os.path.abspath(__file__)))

def rules():
    out = []
    for p in sorted(glob.glob(os.path.join(HERE, "evidence", "C*.json"))):
        ev = json.load(open(p))
        cov = ev["coverage"]
        pid = ev["property_id"]
        out.append(f"### {pid} — {cov['obligations']} obligations ({cov['discharged']} discharged, {cov['known']} known findings)\n")
        per = cov.get("per_rule", {})
        mins = cov.get("min_expected", {})
        for r in cov["rules"]:
            name, _, text = r.partition(": ")
            if name in ("BUILD-VARIANTS", "SELF-VALIDATION"):
                continue
            cnt = sum(v for k, v in per.get(name, {}).items() if k != "info")
            out.append(f"* **{pid}.{name}** ({cnt} obligations, at least {mins.get(name, 0)} required) — {text}")
        out.append("")
    return "\n".join(out)

def seeds():
    rows = ["| seed | what it changes (author's description, shortened) | reported by (own property's check first) |", "|---|---|---|"]
    for sd in sorted(glob.glob(os.path.join(HERE, "seeded", "*"))):
        m = json.load(open(os.path.join(sd, "meta.json")))
        own = m.get("own_check", {})
        by = sorted({h.split(" ")[0] for h in own.get("reported", [])})
        other = [b for b in m.get("caught_by", []) if b not in by]
        txt = (m.get("breaks") or "").replace("|", "/").replace("\n", " ")
        txt = txt[:210] + ("…" if len(txt) > 210 else "")
        cell = ", ".join(by) if by else "**not reported**"
        if other:
            cell += " (also: " + ", ".join(other) + ")"
        rows.append(f"| {m['id']} | {txt} | {cell} |")
    return "\n".join(rows)

def _kf(kind):
    import shlex
    rows = []
    for line in open(os.path.join(HERE, "known_findings.txt")):
        line = line.strip()
        if not line.startswith(kind + ":"):
            continue
        line = line[len(kind) + 1:].strip()
        site = ""
        m = re.search(r'site="([^"]*)"', line)
        if m:
            site = m.group(1)
            line = line[:m.start()] + line[m.end():]
        f = line.split()
        d = {"rest": []}
        for x in f:
            if x.startswith("property=") and "property" not in d:
                d["property"] = x[9:]
            elif x.startswith("rule=") and "rule" not in d:
                d["rule"] = x[5:]
            elif x.startswith("site=") and not site:
                site = x[5:]
            elif kind == "fixed" and "commit" not in d and re.fullmatch(r"[0-9a-f]{7,}", x):
                d["commit"] = x
            else:
                d["rest"].append(x)
        d["site"] = site
        d["text"] = " ".join(d["rest"]).replace("|", "/")
        rows.append(d)
    return rows

def fixes():
    subj = {}
    import subprocess
    for l in subprocess.run(["git", "-C", "/repo", "log", "--format=%h %s"], capture_output=True, text=True).stdout.splitlines():
        h, _, t = l.partition(" ")
        subj[h] = t
    rows = ["| property.rule | commit | what failed before the repair |", "|---|---|---|"]
    for d in _kf("fixed"):
        rows.append(f"| {d.get('property')}.{d.get('rule')} | `{d.get('commit','')}` {subj.get(d.get('commit',''),'')[:90]} | {d['text'][:330]} |")
    return "\n".join(rows)

def knowns():
    rows = ["| property.rule | site | what fails, and why it is recorded instead of repaired |", "|---|---|---|"]
    for d in _kf("known"):
        rows.append(f"| {d.get('property')}.{d.get('rule')} | `{d['site']}` | {d['text']} |")
    return "\n".join(rows)

def main():
    p = os.path.join(HERE, "DESIGN.md")
    s = open(p).read()
    for tag, gen in (("RULES", rules), ("SEEDS", seeds), ("FIXES", fixes), ("KNOWN", knowns)):
        b, e = f"<!-- BEGIN GENERATED {tag} -->", f"<!-- END GENERATED {tag} -->"
        i, j = s.index(b) + len(b), s.index(e)
        s = s[:i] + "\n" + gen() + "\n" + s[j:]
    open(p, "w").write(s)
    print("DESIGN.md appendices regenerated")
main()
