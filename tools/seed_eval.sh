#!/bin/bash
# usage: tools/seed_eval.sh <seed dir with patch.diff demo_test.go meta.json> [property ...]
# 1. confirms the seed in a scratch worktree (demo passes clean, fails patched, suite passes patched)
# 2. applies the patch to /repo, runs the checks of the given properties (default: meta.property), reverts
set -u
DEMO_FLAGS=${DEMO_FLAGS:-}
export GOFLAGS=-mod=mod GOPROXY=off GOSUMDB=off GOTOOLCHAIN=local
SD=$(realpath "$1"); shift
PROP=$(python3 -c "import json;print(json.load(open('$SD/meta.json'))['property'])")
DEMO=$(python3 -c "import json;print(json.load(open('$SD/meta.json'))['demo_path'])")
PROPS=${@:-$PROP}
ID=$(basename $(dirname "$SD"))-$(basename "$SD")
WT=/tmp/sv/$ID
rm -rf "$WT"; git -C /repo worktree prune; git -C /repo worktree add --detach "$WT" HEAD -q || exit 2
cp "$SD/demo_test.go" "$WT/$DEMO"
PKG=./$(dirname "$DEMO")
cd "$WT"
RUNRE=$(grep -o '^func Test[A-Za-z0-9_]*' "$SD/demo_test.go" | sed 's/func //' | paste -sd'|')
echo "== $ID demo on clean tree ($RUNRE)"
go test -vet=off $DEMO_FLAGS -count=1 -run "^($RUNRE)\$" $PKG > /tmp/sv/$ID.clean.log 2>&1; C=$?
echo "   exit=$C"
git apply "$SD/patch.diff" || { echo "PATCH DOES NOT APPLY"; cd /; git -C /repo worktree remove --force "$WT"; exit 3; }
go build ./... > /tmp/sv/$ID.build.log 2>&1; B=$?
echo "== build with patch exit=$B"
go test -vet=off $DEMO_FLAGS -count=1 -run "^($RUNRE)\$" $PKG > /tmp/sv/$ID.patched.log 2>&1; P=$?
echo "== demo with patch exit=$P (expected non-zero)"
rm -f "$WT/$DEMO"
go test -vet=off -count=1 ./... > /tmp/sv/$ID.suite.log 2>&1; S=$?
FAILS=$(grep -E "^--- FAIL" /tmp/sv/$ID.suite.log | grep -v expandUpdateLeafAsKeys | wc -l)
echo "== suite with patch exit=$S non-flaky-fails=$FAILS"
cd /; git -C /repo worktree remove --force "$WT"
if [ -n "${SKIP_CHECKS:-}" ]; then echo "SUMMARY $ID clean=$C build=$B patched=$P suitefails=$FAILS"; exit 0; fi
echo "== checks on /repo with patch"
git -C /repo apply "$SD/patch.diff" || { echo "PATCH DOES NOT APPLY to /repo"; exit 3; }
for p in $PROPS; do
  mkdir -p /tmp/sv/ev-$ID; cp /verif/known_findings.txt /tmp/sv/ev-$ID/
  /verif/bin/dscheck -property $p -tier quick -verif /tmp/sv/ev-$ID | grep -E "^(VIOLATED|UNDECIDED|VIOLATION|dscheck)" | cut -c1-400
done
git -C /repo checkout -- .
git -C /repo status --short | head -3
echo "SUMMARY $ID clean=$C build=$B patched=$P suitefails=$FAILS"
