#!/usr/bin/env python3
"""Turns every confirmed, caught seed (seeded/<id>/patch.diff + meta.json) into a variants/seed-<id>.json
overlay variant (hunk old text -> hunk new text), so the thorough tier re-validates the rules against the
independent agents' changes on every run.  The result of the text edits is compared with `git apply`."""
import json, os, re, subprocess, sys, glob, tempfile, shutil
HERE = os.path.dirname(os.path.dirname(os.path.abspath(__file__)))
REPO = "/repo"

def parse(diff):
    files = []
    cur = None
    hunk = None
    for line in diff.split("\n"):
        if line.startswith("diff --git"):
            cur = None; hunk = None
        elif line.startswith("+++ "):
            path = line[4:].strip()
            if path == "/dev/null":
                cur = None; continue
            path = re.sub(r"^b/", "", path)
            cur = {"file": path, "edits": []}
            files.append(cur); hunk = None
        elif line.startswith("--- "):
            if line[4:].strip() == "/dev/null":
                raise SystemExit("patch adds a new file: not representable")
        elif line.startswith("@@") and cur is not None:
            hunk = {"old": [], "new": []}
            cur["edits"].append(hunk)
        elif hunk is not None and cur is not None:
            if line.startswith("+"):
                hunk["new"].append(line[1:])
            elif line.startswith("-"):
                hunk["old"].append(line[1:])
            elif line.startswith(" ") or line == "":
                if line == "" :
                    continue
                hunk["old"].append(line[1:]); hunk["new"].append(line[1:])
            elif line.startswith("\\"):
                pass
    for f in files:
        for e in f["edits"]:
            e["old"] = "\n".join(e["old"]) + "\n"
            e["new"] = "\n".join(e["new"]) + "\n"
    return files

def main():
    n = 0
    for sd in sorted(glob.glob(os.path.join(HERE, "seeded", "*"))):
        meta = json.load(open(os.path.join(sd, "meta.json")))
        sid = meta["id"]
        if not meta.get("caught") or not meta.get("caught_sites"):
            print("skip", sid, "(not caught)"); continue
        files = parse(open(os.path.join(sd, "patch.diff")).read())
        # verify against git apply in a scratch copy of the touched files
        tmp = tempfile.mkdtemp(prefix="s2v-")
        try:
            ok = True
            for f in files:
                dst = os.path.join(tmp, f["file"]); os.makedirs(os.path.dirname(dst), exist_ok=True)
                shutil.copy(os.path.join(REPO, f["file"]), dst)
            p = subprocess.run(["git", "apply", "--unsafe-paths", "--directory", tmp, os.path.join(sd, "patch.diff")], cwd="/", capture_output=True, text=True)
            if p.returncode != 0:
                p = subprocess.run(["patch", "-p1", "-s", "-d", tmp, "-i", os.path.join(sd, "patch.diff")], capture_output=True, text=True)
            if p.returncode != 0:
                print("skip", sid, "patch does not apply:", p.stderr[:200]); continue
            for f in files:
                src = open(os.path.join(REPO, f["file"])).read()
                for e in f["edits"]:
                    if src.count(e["old"]) != 1:
                        ok = False; print("  ", sid, f["file"], "hunk anchor count", src.count(e["old"]))
                    src = src.replace(e["old"], e["new"], 1)
                if src != open(os.path.join(tmp, f["file"])).read():
                    ok = False; print("  ", sid, f["file"], "text edits differ from git apply")
            if not ok:
                print("skip", sid); continue
        finally:
            shutil.rmtree(tmp, ignore_errors=True)
        expect = []
        own = list(meta.get("own_check", {}).get("reported") or []) or [c for c in meta["caught_sites"] if c.startswith(meta["property"] + ".")]
        own = [c for c in own if not c.endswith(" vacuity")] or own
        for cs in (own or meta["caught_sites"])[:1]:
            m = re.match(r"(C\d\d)\.(\S+) (.*)", cs)
            prop, rule, site = m.group(1), m.group(2), m.group(3)
            expect.append({"rule": rule, "site": site})
        v = {"property": prop, "files": files, "expect": expect,
             "note": "independent agent's seeded change %s (seeded/%s): %s" % (sid, sid, meta["breaks"][:160])}
        json.dump(v, open(os.path.join(HERE, "variants", "seed-%s.json" % sid.lower()), "w"), indent=1)
        n += 1
    print("wrote", n, "seed variants")
main()
