#!/usr/bin/env python3
"""Turns the stored behaviour-preserving refactorings (refactors/<id>/patch.diff) into overlay variants
variants/refactor-<id>.json with "expect_silent": true: the thorough tier analyses them like the other variants, but
here ANY report that the unchanged tree does not have marks the checker as broken (a false alarm)."""
import json, os, re, subprocess, sys, glob, tempfile, shutil
HERE = os.path.dirname(os.path.dirname(os.path.abspath(__file__)))
REPO = "/repo"
sys.path.insert(0, os.path.join(HERE, "tools"))

def parse(diff):
    files, cur, hunk = [], None, None
    for line in diff.split("\n"):
        if line.startswith("diff --git"):
            cur = None; hunk = None
        elif line.startswith("--- "):
            if line[4:].strip() == "/dev/null":
                return None
        elif line.startswith("+++ "):
            path = line[4:].strip()
            if path == "/dev/null":
                return None
            cur = {"file": re.sub(r"^b/", "", path), "edits": []}; files.append(cur); hunk = None
        elif line.startswith("@@") and cur is not None:
            hunk = {"old": [], "new": []}; cur["edits"].append(hunk)
        elif hunk is not None and cur is not None:
            if line.startswith("+"): hunk["new"].append(line[1:])
            elif line.startswith("-"): hunk["old"].append(line[1:])
            elif line.startswith(" "): hunk["old"].append(line[1:]); hunk["new"].append(line[1:])
    for f in files:
        for e in f["edits"]:
            e["old"] = "\n".join(e["old"]) + "\n"; e["new"] = "\n".join(e["new"]) + "\n"
    return files

n = 0
for rd in sorted(glob.glob(os.path.join(HERE, "refactors", "*"))):
    rid = os.path.basename(rd)
    meta = json.load(open(os.path.join(rd, "meta.json")))
    if meta.get("residual_false_alarm"):
        print("skip", rid, "(recorded residual false alarm: %s)" % meta["residual_false_alarm"][:80]); continue
    files = parse(open(os.path.join(rd, "patch.diff")).read())
    if files is None:
        print("skip", rid, "(adds or removes a file)"); continue
    tmp = tempfile.mkdtemp(prefix="r2v-")
    ok = True
    try:
        for f in files:
            dst = os.path.join(tmp, f["file"]); os.makedirs(os.path.dirname(dst), exist_ok=True)
            shutil.copy(os.path.join(REPO, f["file"]), dst)
        p = subprocess.run(["patch", "-p1", "-s", "-d", tmp, "-i", os.path.join(rd, "patch.diff")], capture_output=True, text=True)
        if p.returncode != 0:
            print("skip", rid, "patch does not apply"); continue
        for f in files:
            src = open(os.path.join(REPO, f["file"])).read()
            for e in f["edits"]:
                if src.count(e["old"]) != 1:
                    ok = False
                src = src.replace(e["old"], e["new"], 1)
            if src != open(os.path.join(tmp, f["file"])).read():
                ok = False
    finally:
        shutil.rmtree(tmp, ignore_errors=True)
    if not ok:
        print("skip", rid, "(hunks are not unique text anchors)"); continue
    v = {"property": meta["property"], "files": files, "expect": [], "expect_silent": True,
         "note": "behaviour-preserving refactoring %s: %s" % (rid, (meta.get("what") or "")[:200])}
    json.dump(v, open(os.path.join(HERE, "variants", "refactor-%s.json" % rid.lower()), "w"), indent=1)
    n += 1
print("wrote", n, "refactor variants")
