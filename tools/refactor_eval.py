#!/usr/bin/env python3
"""usage: tools/refactor_eval.py <dir with patch.diff meta.json> [...]
Applies each behaviour-preserving refactoring to /repo, runs ALL 20 checks (quick, one load), reverts /repo and prints
every report: on such a change every report is a false alarm of the checker."""
import json, os, re, subprocess, sys, shutil, tempfile
os.chdir("/verif")
tmp = tempfile.mkdtemp(prefix="rfe-")
shutil.copy("known_findings.txt", tmp)
for d in sys.argv[1:]:
    name = "/".join(d.rstrip("/").split("/")[-2:])
    a = subprocess.run(["git", "-C", "/repo", "apply", os.path.join(os.path.abspath(d), "patch.diff")], capture_output=True, text=True)
    if a.returncode != 0:
        print(name, "PATCH DOES NOT APPLY", a.stderr[:200]); continue
    try:
        try:
            out = subprocess.run(["bin/dscheck", "-property", "all", "-tier", "quick", "-verif", tmp], capture_output=True, text=True, timeout=600).stdout
        except subprocess.TimeoutExpired:
            out = "UNDECIDED: ALL.TIMEOUT site=dscheck at : no answer within 600 s\n"
    finally:
        subprocess.run(["git", "-C", "/repo", "checkout", "--", "."])
        subprocess.run(["git", "-C", "/repo", "clean", "-fdq", "pkg"])
    hits = re.findall(r"^(VIOLATED|UNDECIDED): (\S+?)\.(\S+) site=(.*?) at (\S*): (.*)$", out, re.M)
    if not hits:
        print(name, "silent")
    for k, p, r, s, pos, why in hits:
        print(name, "ALARM", k, f"{p}.{r}", s[:110], pos, "|", why[:160])
shutil.rmtree(tmp, ignore_errors=True)
