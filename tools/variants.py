#!/usr/bin/env python3
"""Self-validation of the checker: analyses single-edit variants of /repo through
an in-memory overlay (nothing is written to /repo) and checks that exactly the
expected rule reports.  Usage: tools/variants.py [-j N] [name-substring ...]
A variant file variants/<name>.json: {"property": "C06", "file": "pkg/...go",
 "edits": [{"old": "...", "new": "..."}], "expect": [{"rule": "ID-BEFORE-EFFECT", "site": "substring"}],
 "note": "..."}"""
import json, os, subprocess, sys, tempfile, glob, shutil, concurrent.futures, re
HERE = os.path.dirname(os.path.dirname(os.path.abspath(__file__)))
REPO = os.environ.get("DSCHECK_REPO", "/repo")

def run_variant(path):
    v = json.load(open(path))
    name = os.path.basename(path)[:-5]
    overlay = {}
    files = v.get("files") or [{"file": v["file"], "edits": v["edits"]}]
    for f in files:
        src = open(os.path.join(REPO, f["file"])).read()
        for e in f["edits"]:
            if src.count(e["old"]) < 1:
                return name, "skipped", "anchor text not found in %s: %r" % (f["file"], e["old"][:60])
            src = src.replace(e["old"], e["new"], 1)
        overlay[f["file"]] = src
    tmp = tempfile.mkdtemp(prefix="dsv-")
    try:
        json.dump(overlay, open(os.path.join(tmp, "overlay.json"), "w"))
        shutil.copy(os.path.join(HERE, "known_findings.txt"), tmp)
        p = subprocess.run([os.path.join(HERE, "bin/dscheck"), "-property", v["property"], "-tier", "quick",
                            "-overlay", os.path.join(tmp, "overlay.json"), "-verif", tmp],
                           capture_output=True, text=True)
        out = p.stdout + p.stderr
        viol = re.findall(r"^(VIOLATED|UNDECIDED): (\S+?)\.(\S+) site=(.*?) at ", out, re.M)
        if any(k == "UNDECIDED" and rule in ("LOAD",) for k, _, rule, _ in viol):
            return name, "broken", "variant does not type-check: " + out[-400:]
        if v.get("expect_silent"):
            if viol:
                return name, "ALARM", "false alarm on a behaviour-preserving variant: %s" % [(r, s) for _, _, r, s in viol]
            return name, "silent", ""
        missing = []
        for exp in v["expect"]:
            if not any(rule == exp["rule"] and exp.get("site", "") in site for _, _, rule, site in viol):
                missing.append(exp)
        if missing:
            return name, "MISSED", "expected %s; got %s" % (missing, [(r, s) for _, _, r, s in viol])
        extra = [(r, s) for _, _, r, s in viol if not any(r == e["rule"] for e in v["expect"])]
        return name, "caught", ("also: %s" % extra) if extra else ""
    finally:
        shutil.rmtree(tmp, ignore_errors=True)

def main():
    args = sys.argv[1:]
    jobs = 4
    if args and args[0] == "-j":
        jobs = int(args[1]); args = args[2:]
    paths = sorted(glob.glob(os.path.join(HERE, "variants", "*.json")))
    if args:
        paths = [p for p in paths if any(a in os.path.basename(p) for a in args)]
    bad = 0
    with concurrent.futures.ThreadPoolExecutor(jobs) as ex:
        for name, status, detail in ex.map(run_variant, paths):
            print("%-8s %s %s" % (status, name, detail))
            if status in ("MISSED", "broken", "ALARM"):
                bad += 1
    print("variants: %d, failing: %d" % (len(paths), bad))
    sys.exit(1 if bad else 0)

main()
