#!/usr/bin/env python3
"""Generates /verif/MANIFEST.json from the table below (kept next to the rule code)."""
import json, os, sys
HERE = os.path.dirname(os.path.dirname(os.path.abspath(__file__)))

SETUP = "cd /verif && GOFLAGS=-mod=vendor GOPROXY=off GOSUMDB=off GOTOOLCHAIN=local GOWORK=off go build -o bin/dscheck ./cmd/dscheck"
BASE_OFF = "cd /repo && GOFLAGS=-mod=mod GOPROXY=off GOSUMDB=off go test -vet=off -count=1 -timeout 25m ./..."

NOTE = ("Trusted base: Go type checker, go/packages + go/ssa of golang.org/x/tools v0.29.0, the rule tables in /verif/internal/rules "
        "(symbols and accepted idioms confirmed by reading the pinned tree), every CFG branch taken as feasible. "
        "The check decides structural necessary conditions only; the behaviour itself (values, histories, schedules) is not decided.")

# property -> (technique, claim text, design section)
CLAIMS = {}

def claim(pid, technique, text, ref):
    CLAIMS[pid] = (technique, text, ref)

exec(open(os.path.join(HERE, "tools", "claims.py")).read())

NOT_APPLICABLE = {}
exec(open(os.path.join(HERE, "tools", "not_applicable.py")).read())

def main():
    checks = []
    for pid in sorted(CLAIMS):
        tech, text, ref = CLAIMS[pid]
        checks.append({
            "property_id": pid,
            "quick_cmd": f"bin/dscheck -property {pid} -tier quick",
            "thorough_cmd": f"bin/dscheck -property {pid} -tier thorough",
            "evidence_file": f"/verif/evidence/{pid}.json",
            "replay_cmd_template": f"bin/dscheck -property {pid} -tier quick && cat {{path}}",
            "engine": "dscheck",
            "level_claimed": {"category": "other", "text": text, "design_ref": ref},
            "level_note": NOTE,
            "technique": tech,
        })
    m = {
        "version": 1,
        "setup_cmd": SETUP,
        "hooks": {
            "guard": "verif",
            "enable": "no hooks: nothing is executed, so nothing is instrumented; the thorough tier additionally analyses the tree with -tags verif to prove no tagged file hides a writer",
            "baseline_off_cmd": BASE_OFF,
            "source_commits": [],
            "add_only": True,
        },
        "engines": [{
            "name": "dscheck",
            "path": "/verif/cmd/dscheck",
            "serves_properties": sorted(CLAIMS),
            "kind_free_text": "repository-specific static analyser: go/packages + go/ssa + repo call graph; dominance/edge-guard, path typestate, value-flow, lockset, exhaustiveness and sibling-agreement rules",
        }],
        "checks": checks,
        "notes": "All checks are static analyses of /repo's working tree; see DESIGN.md. Known findings: /verif/known_findings.txt.",
        "not_applicable": [{"property_id": k, "reason": v} for k, v in sorted(NOT_APPLICABLE.items()) if k not in CLAIMS],
    }
    json.dump(m, open(os.path.join(HERE, "MANIFEST.json"), "w"), indent=1)
    print("wrote MANIFEST.json with", len(checks), "checks,", len(m["not_applicable"]), "not applicable")

main()
