#!/bin/bash
# usage: tools/sd.sh <seed id> [props]   (applies seeded/<id>/patch.diff to /repo, runs the checks, reverts)
id=$1; shift
props=${@:-$(python3 -c "import json;print(json.load(open('/verif/seeded/$id/meta.json'))['property'])")}
mkdir -p /tmp/rfx; cp /verif/known_findings.txt /tmp/rfx/
git -C /repo apply /verif/seeded/$id/patch.diff || exit 1
for p in $props; do /verif/bin/dscheck -property $p -verif /tmp/rfx $DSFLAGS 2>&1 | grep -E "^(VIOLATED|UNDECIDED)" | cut -c1-${CUT:-300}; done
git -C /repo checkout -- . ; git -C /repo clean -fdq pkg
