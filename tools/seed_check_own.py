#!/usr/bin/env python3
"""usage: tools/seed_check_own.py [seed ids...] — applies each stored seed to /repo, runs the check of the seed's OWN
property (bin/dscheck, quick), reverts /repo, and records the result in seeded/<id>/meta.json (own_check)."""
import json, os, re, subprocess, sys, shutil, tempfile
os.chdir("/verif")
ids = sys.argv[1:] or sorted(os.listdir("seeded"))
tmp = tempfile.mkdtemp(prefix="sco-")
shutil.copy("known_findings.txt", tmp)
head = subprocess.run(["git", "-C", "/repo", "log", "--format=%h", "-1"], capture_output=True, text=True).stdout.strip()
for sid in ids:
    mp = f"seeded/{sid}/meta.json"
    meta = json.load(open(mp))
    p = meta["property"]
    a = subprocess.run(["git", "-C", "/repo", "apply", f"/verif/seeded/{sid}/patch.diff"], capture_output=True, text=True)
    if a.returncode != 0:
        print(sid, "PATCH DOES NOT APPLY", a.stderr[:200]); continue
    try:
        out = subprocess.run(["bin/dscheck", "-property", p, "-tier", "quick", "-verif", tmp], capture_output=True, text=True).stdout
    finally:
        subprocess.run(["git", "-C", "/repo", "checkout", "--", "."])
    hits = sorted({"%s.%s %s" % (pp, r, s) for _, pp, r, s in re.findall(r"^(VIOLATED|UNDECIDED): (\S+?)\.(\S+) site=(.*?) at ", out, re.M)})
    meta["own_check"] = {"property": p, "repo_head": head, "reported": hits, "caught": bool(hits)}
    allhits = sorted(set(meta.get("caught_sites", [])) | set(hits))
    meta["caught_sites"] = allhits
    meta["caught_by"] = sorted({h.split(" ")[0] for h in allhits})
    meta["caught"] = bool(allhits)
    json.dump(meta, open(mp, "w"), indent=1)
    print(sid, p, "caught by own check:" if hits else "MISSED by own check", "; ".join(h[:110] for h in hits))
shutil.rmtree(tmp, ignore_errors=True)
