package main

import (
	"fmt"
	"os"

	"verif/internal/core"
)

func init() {
	if fk := os.Getenv("DSCHECK_DEBUG_CALLS"); fk != "" {
		debugHook = func(w *core.World) {
			for _, f := range w.RepoFns {
				if core.FuncKey(f) == fk {
					for _, c := range core.Calls(f) {
						fmt.Println("CALL", core.CalleeKey(c), w.InstrPos(c))
					}
				}
			}
		}
		return
	}
	if os.Getenv("DSCHECK_DEBUG_LOCKS") == "" {
		return
	}
	debugHook = func(w *core.World) {
		lw := w.Locks(nil)
		for f, eh := range lw.EntryHeld {
			if len(eh) > 0 && (os.Getenv("DSCHECK_DEBUG_LOCKS") == "all" || core.FuncKey(f) == os.Getenv("DSCHECK_DEBUG_LOCKS")) {
				fmt.Println("ENTRYHELD", core.FuncKey(f), eh)
			}
		}
		for _, f := range w.RepoFns {
			if core.FuncKey(f) == os.Getenv("DSCHECK_DEBUG_LOCKS") {
				for _, e := range w.CG().In[f] {
					fmt.Println("  IN", core.FuncKey(e.Caller), e.Kind, w.InstrPos(e.Site))
					if s, ok := e.Site.(interface{ Parent() interface{} }); ok {
						_ = s
					}
				}
			}
		}
	}
}
