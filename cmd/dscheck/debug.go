package main

import (
	"fmt"
	"os"

	"verif/internal/core"
)

func init() {
	if os.Getenv("DSCHECK_DEBUG_LOCKS") == "" {
		return
	}
	debugHook = func(w *core.World) {
		lw := w.Locks(nil)
		for f, eh := range lw.EntryHeld {
			if len(eh) > 0 && (os.Getenv("DSCHECK_DEBUG_LOCKS") == "all" || core.FuncKey(f) == os.Getenv("DSCHECK_DEBUG_LOCKS")) {
				fmt.Println("ENTRYHELD", core.FuncKey(f), eh)
			}
		}
		for _, f := range w.RepoFns {
			if core.FuncKey(f) == os.Getenv("DSCHECK_DEBUG_LOCKS") {
				for _, e := range w.CG().In[f] {
					fmt.Println("  IN", core.FuncKey(e.Caller), e.Kind, w.InstrPos(e.Site))
					if s, ok := e.Site.(interface{ Parent() interface{} }); ok {
						_ = s
					}
				}
			}
		}
	}
}
