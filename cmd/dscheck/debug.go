package main

import (
	"fmt"
	"os"
	"strings"

	"golang.org/x/tools/go/ssa"

	"verif/internal/core"
)

func init() {
	if spec := os.Getenv("DSCHECK_DEBUG_REACH"); spec != "" {
		debugHook = func(w *core.World) {
			var a, b *ssa.Function
			parts := strings.SplitN(spec, "->", 2)
			for _, f := range w.RepoFns {
				if core.FuncKey(f) == parts[0] {
					a = f
				}
				if core.FuncKey(f) == parts[1] {
					b = f
				}
			}
			ok, chain := w.CG().Reaches(a, b, func(e core.Edge) bool { return e.Kind == "ref" || e.Kind == "dynamic-sig" })
			fmt.Println("REACH", ok, chain)
		}
		return
	}
	if fk := os.Getenv("DSCHECK_DEBUG_CALLS"); fk != "" {
		debugHook = func(w *core.World) {
			for _, f := range w.RepoFns {
				if core.FuncKey(f) == fk {
					for _, c := range core.Calls(f) {
						fmt.Println("CALL", core.CalleeKey(c), w.InstrPos(c))
					}
				}
			}
		}
		return
	}
	if os.Getenv("DSCHECK_DEBUG_LOCKS") == "" {
		return
	}
	debugHook = func(w *core.World) {
		lw := w.Locks(nil)
		for f, eh := range lw.EntryHeld {
			if len(eh) > 0 && (os.Getenv("DSCHECK_DEBUG_LOCKS") == "all" || core.FuncKey(f) == os.Getenv("DSCHECK_DEBUG_LOCKS")) {
				fmt.Println("ENTRYHELD", core.FuncKey(f), eh)
			}
		}
		for _, f := range w.RepoFns {
			if core.FuncKey(f) == os.Getenv("DSCHECK_DEBUG_LOCKS") {
				for _, e := range w.CG().In[f] {
					fmt.Println("  IN", core.FuncKey(e.Caller), e.Kind, w.InstrPos(e.Site))
				}
			}
		}
	}
}
