// dscheck decides structural necessary conditions of the properties C01..C20
// of sdcio/data-server by static analysis of /repo's current working tree.
package main

import (
	"encoding/json"
	"flag"
	"fmt"
	"os"
	"path/filepath"
	"runtime/debug"
	"sort"
	"strings"

	"verif/internal/core"
	"verif/internal/rules"
)

var debugHook func(w *core.World)

func main() {
	prop := flag.String("property", "", "property id (C01..C20) or 'all'")
	tier := flag.String("tier", "quick", "quick | thorough")
	verifDir := flag.String("verif", "", "verif directory (default: parent of the binary's directory, else cwd)")
	overlay := flag.String("overlay", "", "JSON file {\"<repo-relative file>\": \"<new content>\"} analysed instead of the files on disk (self-validation)")
	dump := flag.String("dump", "", "print the SSA of the function with this key and exit")
	tags := flag.String("tags", "", "extra build tags for the load")
	goarch := flag.String("goarch", "", "GOARCH for the load")
	noSelf := flag.Bool("no-selfcheck", false, "thorough tier: skip variant self-validation")
	dumpFields := flag.Bool("dump-fieldtable", false, "print internal/rules/fieldtable.go for the analysed tree and exit")
	dumpTypes := flag.Bool("dump-typetable", false, "print internal/rules/typetable.go for the analysed tree and exit")
	dumpAnchors := flag.Bool("dump-anchortable", false, "print internal/rules/anchortable.go for the analysed tree and exit")
	noInline := flag.Bool("no-inline", false, "disable virtual inlining of unexported same-package helpers (debugging)")
	flag.Parse()
	if e := os.Getenv("VERIF_TIER"); e != "" && !isFlagSet("tier") {
		*tier = e
	}
	if *verifDir == "" {
		*verifDir = defaultVerifDir()
	}
	debug.SetGCPercent(200)

	opts := core.LoadOpts{Tags: *tags, GOARCH: *goarch}
	if *overlay != "" {
		b, err := os.ReadFile(*overlay)
		if err != nil {
			fmt.Println("overlay:", err)
			os.Exit(2)
		}
		m := map[string]string{}
		if err := json.Unmarshal(b, &m); err != nil {
			fmt.Println("overlay:", err)
			os.Exit(2)
		}
		opts.Overlay = map[string][]byte{}
		for k, v := range m {
			opts.Overlay[filepath.Join(core.RepoDir(), k)] = []byte(v)
		}
	}

	if *dumpTypes {
		w, err := core.Load(opts)
		if err != nil {
			fmt.Println(err)
			os.Exit(2)
		}
		fmt.Print(rules.TypeTableSource(w))
		return
	}
	if *dumpAnchors {
		w, err := core.Load(opts)
		if err != nil {
			fmt.Println(err)
			os.Exit(2)
		}
		fmt.Print(rules.AnchorTableSource(w))
		return
	}
	if *dumpFields {
		w, err := core.Load(opts)
		if err != nil {
			fmt.Println(err)
			os.Exit(2)
		}
		fmt.Print(rules.FieldTableSource(w))
		return
	}
	if *dump != "" {
		w, err := core.Load(opts)
		if err != nil {
			fmt.Println(err)
			os.Exit(2)
		}
		for _, f := range w.RepoFns {
			if core.FuncKey(f) == *dump || strings.HasPrefix(core.FuncKey(f), *dump+"$") {
				fmt.Printf("=== %s\n", core.FuncKey(f))
				f.WriteTo(os.Stdout)
			}
		}
		return
	}

	var props []string
	if *prop == "all" {
		for p := range rules.Registry {
			props = append(props, p)
		}
		sort.Strings(props)
	} else if _, ok := rules.Registry[*prop]; ok {
		props = []string{*prop}
	} else {
		fmt.Printf("unknown property %q\n", *prop)
		os.Exit(2)
	}

	w, lerr := core.Load(opts)
	if lerr == nil && !*noInline {
		n := rules.EnableInlining(w)
		if os.Getenv("DSCHECK_DEBUG_INLINE") != "" {
			fmt.Printf("virtual inlining: %d call sites\n", n)
			for _, f := range w.RepoFns {
				if core.IsInlined(f) {
					fmt.Printf("  inlined: %s into %v\n", core.FuncKey(f), core.HostKeys(f))
				}
			}
		}
	}
	if debugHook != nil && lerr == nil {
		debugHook(w)
	}
	exit := 0
	for _, p := range props {
		rep := core.NewReport(p, *tier)
		if lerr == nil {
			func() {
				defer func() {
					if r := recover(); r != nil {
						rep.Undecided("INTERNAL", "panic", "", fmt.Sprintf("rule code panicked: %v\n%s", r, debug.Stack()))
					}
				}()
				rules.Registry[p](w, rep)
				if *tier == "thorough" {
					rules.Thorough(p, w, rep, *verifDir, !*noSelf && *overlay == "")
				}
			}()
		}
		if c := rep.Finish(w, *verifDir, lerr); c > exit {
			exit = c
		}
	}
	os.Exit(exit)
}

func isFlagSet(name string) bool {
	set := false
	flag.Visit(func(f *flag.Flag) {
		if f.Name == name {
			set = true
		}
	})
	return set
}

func defaultVerifDir() string {
	if exe, err := os.Executable(); err == nil {
		d := filepath.Dir(filepath.Dir(exe))
		if _, err := os.Stat(filepath.Join(d, "properties.jsonl")); err == nil {
			return d
		}
	}
	d, _ := os.Getwd()
	return d
}
