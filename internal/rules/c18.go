package rules

import (
	"fmt"
	"os"
	"strings"

	"golang.org/x/tools/go/ssa"

	"verif/internal/core"
)

func init() { Registry["C18"] = c18 }

const (
	kDrvEdit    = "datastore/target/netconf.Driver.EditConfig"
	kDrvCommit  = "datastore/target/netconf.Driver.Commit"
	kDrvDiscard = "datastore/target/netconf.Driver.Discard"
	kDrvClose   = "datastore/target/netconf.Driver.Close"
)

var drvMutating = []string{kDrvEdit, kDrvCommit, kDrvDiscard, "datastore/target/netconf.Driver.Lock", "datastore/target/netconf.Driver.Unlock", "datastore/target/netconf.Driver.Validate"}

// alwaysCalls: every path from the entry of fn to a return executes a call to one of keys
// (one level of wrappers: a callee for which the same holds counts too).
func alwaysCalls(fn *ssa.Function, depth int, keys ...string) bool {
	if fn == nil || fn.Blocks == nil {
		return false
	}
	reach, _ := core.PathQuery{Avoid: func(in ssa.Instruction) bool {
		c, ok := in.(ssa.CallInstruction)
		if !ok {
			return false
		}
		if _, isGo := c.(*ssa.Go); isGo {
			return false
		}
		if core.CalleeIs(c, keys...) {
			return true
		}
		if depth > 0 {
			if g := c.Common().StaticCallee(); g != nil && g.Blocks != nil && alwaysCalls(g, depth-1, keys...) {
				return true
			}
		}
		return false
	}}.Reaches(fn.Blocks[0], 0, core.IsExit)
	return !reach
}

// mayCall: some call to one of keys is reachable inside fn (one level of wrappers).
func mayCall(fn *ssa.Function, depth int, keys ...string) bool {
	if fn == nil {
		return false
	}
	for _, c := range core.Calls(fn) {
		if core.CalleeIs(c, keys...) {
			return true
		}
		if depth > 0 {
			if g := c.Common().StaticCallee(); g != nil && g.Blocks != nil && mayCall(g, depth-1, keys...) {
				return true
			}
		}
	}
	return false
}

func c18(w *core.World, r *core.Report) {
	setC := w.Func("pkg/datastore/target", "ncTarget", "setCandidate")
	setR := w.Func("pkg/datastore/target", "ncTarget", "setRunning")
	set := w.Func("pkg/datastore/target", "ncTarget", "Set")
	if setC == nil || setR == nil || set == nil {
		return
	}
	r.Rule("TYPESTATE", 12, "typestate of the NETCONF driver over every CFG path of ncTarget.setCandidate / setRunning (all branches feasible; driver errors are the only nondeterminism): one EditConfig site per function with the constant target of that function, not on a cycle; candidate: success return only after EditConfig ok and exactly one Commit ok; every error return reachable after the candidate EditConfig was sent passes Discard() or Close() (wrappers that always call them count); no Commit after Discard; running: no Commit/Discard at all; no driver call unless the rendered document was found non-empty; Set dispatches only to these two. Exhaustive over the CFG paths of the two functions.")
	r.Extra["exhaustive"] = true

	isDiscardOrClose := func(in ssa.Instruction) bool {
		c, ok := in.(ssa.CallInstruction)
		if !ok {
			return false
		}
		if _, isGo := c.(*ssa.Go); isGo {
			return false
		}
		// Close stands in for Discard only where the session is known to be dead (the error text was found to contain
		// "EOF": a discard cannot be sent any more). A Close chosen for any other error (a timeout, a wider
		// 'connection error' classification) leaves the edits in a candidate that lives on in the device.
		closeOK := func() bool {
			debugAtoms(c)
			for _, a := range core.GuardAtoms(c) {
				if !a.True {
					continue
				}
				// the condition IS the EOF test: every way its value comes about is strings.Contains(<text>, "EOF")
				os := core.Origins(a.Cond)
				all := len(os) > 0
				for _, o := range os {
					oc, isCall := o.(*ssa.Call)
					isEOF := false
					if isCall && core.CalleeIs(oc, "strings.Contains") {
						if args := core.CallArgs(oc); len(args) == 2 {
							if t, isC := core.ConstString(args[1]); isC && t == "EOF" {
								isEOF = true
							}
							for _, o2 := range core.Origins(args[1]) {
								if t, isC := core.ConstString(o2); isC && t == "EOF" {
									isEOF = true
								}
							}
						}
					}
					if !isEOF {
						all = false
					}
				}
				if all {
					return true
				}
			}
			return false
		}
		if core.CalleeIs(c, kDrvDiscard) {
			return true
		}
		if core.CalleeIs(c, kDrvClose) {
			return closeOK()
		}
		if g := c.Common().StaticCallee(); g != nil && g.Blocks != nil {
			// wrappers: ncTarget.discardCandidate always discards; ncTarget.Close closes the driver (when there is one)
			if alwaysCalls(g, 0, kDrvDiscard) {
				return true
			}
			if alwaysCalls(g, 0, kDrvDiscard, kDrvClose, "datastore/target.ncTarget.Close") {
				return closeOK() // judged at this call of the wrapper: a shared wrapper is guarded differently at each site
			}
			if core.FuncKey(g) == "datastore/target.ncTarget.Close" && mayCall(g, 0, kDrvClose) {
				return closeOK()
			}
		}
		return false
	}

	for _, tc := range []struct {
		fn     *ssa.Function
		target string
	}{{setC, "candidate"}, {setR, "running"}} {
		fn := tc.fn
		edits := core.CallsTo(fn, kDrvEdit)
		if len(edits) != 1 {
			r.Viol("TYPESTATE", core.Site(fn, "EditConfig sites"), w.Pos(fn.Pos()), fmt.Sprintf("expected exactly one EditConfig call site, found %d", len(edits)))
			continue
		}
		edit := edits[0].(*ssa.Call)
		args := core.CallArgs(edit)
		tgt, isConst := "", false
		if len(args) == 2 {
			tgt, isConst = core.ConstString(args[0])
			if !isConst {
				// the datastore name reaches the driver through a helper parameter or a field of a small adapter
				// struct built in this function: all its origins, seen from this function, are one constant
				core.WithHost(fn, func() {
					os := core.Origins(args[0])
					for i, o := range os {
						sv, ok := core.ConstString(o)
						if !ok || (i > 0 && sv != tgt) {
							tgt, isConst = "", false
							return
						}
						tgt, isConst = sv, true
					}
				})
			}
		}
		r.Check(isConst && tgt == tc.target, "TYPESTATE", core.Site(fn, "EditConfig target"), w.InstrPos(edit), fmt.Sprintf("edit-config must address the %q datastore (found %q)", tc.target, tgt))
		r.Check(!core.OnCycle(edit), "TYPESTATE", core.Site(fn, "EditConfig once"), w.InstrPos(edit), "edit-config must not be repeated (call on a CFG cycle)")

		// non-empty guard for every mutating driver call
		for _, c := range core.Calls(fn) {
			if !core.CalleeIs(c, drvMutating...) {
				continue
			}
			okNonEmpty := false
			core.WithHost(fn, func() { okNonEmpty = guardedByNonEmptyDoc(c) })
			r.Check(okNonEmpty, "TYPESTATE", core.Site(fn, "%s only for non-empty document", core.CalleeKey(c)), w.InstrPos(c), "nothing is sent when there is no change: the call must be reachable only after len(xdoc)==0 was tested false")
		}
		// document sent is the one rendered with onlyNewOrUpdated = true
		if len(args) == 2 {
			okDoc := false
			for _, oc := range core.OriginCalls(args[1]) {
				if core.CalleeIs(oc, "github.com/beevik/etree.Document.WriteToString") {
					for _, o2 := range core.OriginCalls(core.CallRecv(oc)) {
						if core.CalleeIs(o2, "datastore/target.TargetSource.ToXML") {
							okDoc = true
						}
					}
				}
			}
			r.Check(okDoc, "TYPESTATE", core.Site(fn, "EditConfig payload"), w.InstrPos(edit), "the payload must be the document rendered from the TargetSource by ToXML")
		}

		commits := core.CallsTo(fn, kDrvCommit)
		discards := []ssa.CallInstruction{}
		core.WithHost(fn, func() {
			for _, c := range core.Calls(fn) {
				if isDiscardOrClose(c) {
					discards = append(discards, c)
				}
			}
		})
		if tc.target == "running" {
			r.Check(len(commits) == 0, "TYPESTATE", core.Site(fn, "no Commit"), w.Pos(fn.Pos()), "direct-to-running targets must not commit")
			r.Check(!mayCall(fn, 1, kDrvDiscard), "TYPESTATE", core.Site(fn, "no Discard"), w.Pos(fn.Pos()), "direct-to-running targets have no candidate to discard")
			// success only after EditConfig ok (or empty document)
			for _, ret := range core.Returns(fn) {
				e := errorOperand(ret)
				if e == nil || !core.IsNilConst(e) {
					continue
				}
				before, _ := core.AlwaysBefore(func(in ssa.Instruction) bool { return in == ssa.Instruction(edit) }, ret)
				if before {
					r.Check(core.GuardedByErrNil(ret, edit), "TYPESTATE", core.Site(fn, "success after EditConfig ok"), w.InstrPos(ret), "success must imply edit-config succeeded")
				} else {
					r.Check(!core.CanFollow(edit, ret), "TYPESTATE", core.Site(fn, "success without EditConfig"), w.InstrPos(ret), "a success return that does not follow edit-config on every path must not follow it on any (empty-document shortcut)")
					okEmpty := false
					core.WithHost(fn, func() { okEmpty = guardedByEmptyDoc(ret) })
					r.Check(okEmpty, "TYPESTATE", core.Site(fn, "success without EditConfig is the empty-document shortcut"), w.InstrPos(ret), "the only change that may be answered with success without an edit-config is the empty one (len(xdoc) == 0): a 'same as last time' shortcut answers success for a change the device may have lost")
				}
			}
			continue
		}
		// candidate
		if len(commits) != 1 {
			r.Viol("TYPESTATE", core.Site(fn, "Commit sites"), w.Pos(fn.Pos()), fmt.Sprintf("expected exactly one Commit call site, found %d", len(commits)))
			continue
		}
		commit := commits[0].(*ssa.Call)
		r.Check(!core.OnCycle(commit), "TYPESTATE", core.Site(fn, "Commit once"), w.InstrPos(commit), "commit must not be repeated")
		r.Check(core.GuardedByErrNil(commit, edit), "TYPESTATE", core.Site(fn, "Commit after EditConfig ok"), w.InstrPos(commit), "commit only after edit-config succeeded")
		for _, d := range discards {
			r.Check(!core.CanFollow(d, commit), "TYPESTATE", core.Site(fn, "no Commit after Discard/Close"), w.InstrPos(d), "a discarded candidate must not be committed")
		}
		nSucc, nErr := 0, 0
		for _, ret := range core.Returns(fn) {
			e := errorOperand(ret)
			if e == nil {
				continue
			}
			if core.IsNilConst(e) {
				nSucc++
				if core.CanFollow(edit, ret) {
					r.Check(core.GuardedByErrNil(ret, commit) && core.GuardedByErrNil(ret, edit), "TYPESTATE", core.Site(fn, "success after Commit ok"), w.InstrPos(ret), "success must imply edit-config and commit succeeded")
				} else {
					okEmpty := false
					core.WithHost(fn, func() { okEmpty = guardedByEmptyDoc(ret) })
					r.Check(okEmpty, "TYPESTATE", core.Site(fn, "success without EditConfig"), w.InstrPos(ret), "the only change that may be answered with success without an edit-config is the empty one (len(xdoc) == 0)")
				}
				continue
			}
			if !core.CanFollow(edit, ret) {
				continue // error before anything was sent
			}
			nErr++
			var reach bool
			var tr []int
			core.WithHost(fn, func() {
				reach, tr = core.PathQuery{Avoid: isDiscardOrClose}.Reaches(edit.Block(), core.InstrIndex(edit)+1, func(in ssa.Instruction) bool { return in == ssa.Instruction(ret) })
			})
			r.Check(!reach, "TYPESTATE", core.Site(fn, "error return after edit discards"), w.InstrPos(ret), fmt.Sprintf("an error return after the candidate was edited must pass Discard() or Close() on every path (blocks without it: %v)", tr))
		}
		r.Extra["candidate_success_returns"] = nSucc
		r.Extra["candidate_error_returns_after_edit"] = nErr
	}

	// driver wrappers
	r.Rule("DRIVER-OUTCOME", 2, "the scrapligo driver wrappers of the state-changing RPCs without a reply document (Commit, Discard) return nil only when the library call returned no error AND the reply was not marked Failed (resp.Failed == nil, which scrapligo sets for any rpc-error element): otherwise a refused commit is reported as success and the candidate is never discarded.")
	for _, n := range []string{"Commit", "Discard"} {
		f := w.Func("pkg/datastore/target/netconf/driver/scrapligo", "ScrapligoNetconfTarget", n)
		if f == nil {
			continue
		}
		core.WithHost(f, func() {
			for _, ret := range nilErrorReturns(f, 0) {
				okFailed := false
				for _, at := range core.GuardAtoms(ret) {
					x, nilOnTrue, isNil := core.NilTest(at.Cond)
					if !isNil || nilOnTrue != at.True {
						continue
					}
					// resp.Failed, possibly seen through a parameter of the helper that evaluates the reply
					for _, o := range append(core.Origins(x), x) {
						if strings.HasSuffix(core.FieldOf(o), "NetconfResponse.Failed") {
							okFailed = true
						}
					}
				}
				okErr := false
				for _, c := range core.Calls(f) {
					if cc, isCall := c.(*ssa.Call); isCall && strings.HasPrefix(core.CalleeKey(c), "github.com/scrapli/scrapligo/driver/netconf.Driver.") && core.GuardedByErrNil(ret, cc) {
						okErr = true
					}
				}
				r.Check(okFailed && okErr, "DRIVER-OUTCOME", core.Site(f, "success only if !Failed"), w.InstrPos(ret), "success must imply the library call succeeded and the reply carries no rpc-error")
			}
		})
	}

	// dispatch
	r.Rule("DISPATCH", 2, "ncTarget.Set reaches the driver only through setRunning / setCandidate, selected by the constant commit-datastore names, and refuses when not connected.")
	for _, c := range core.Calls(set) {
		if core.CalleeIs(c, drvMutating...) {
			r.Viol("DISPATCH", core.Site(set, "direct driver call %s", core.CalleeKey(c)), w.InstrPos(c), "Set must not talk to the driver itself")
		}
	}
	for _, k := range []struct{ key, want string }{{"datastore/target.ncTarget.setRunning", "running"}, {"datastore/target.ncTarget.setCandidate", "candidate"}} {
		cs := core.CallsTo(set, k.key)
		if len(cs) == 0 {
			// the table form of the switch: a package-level map from the commit-datastore name to the method
			done := false
			for _, c := range core.Calls(set) {
				keyV, table := dispatchTable(w, c)
				if table == nil {
					continue
				}
				fn := table[k.want]
				isKey := false
				for _, o := range append(core.Origins(keyV), keyV) {
					if core.FieldOf(o) == "config.SBINetconfOptions.CommitDatastore" {
						isKey = true
					}
				}
				n := 0
				for _, t := range table {
					if core.FuncKey(t) == k.key {
						n++
					}
				}
				r.Check(fn != nil && core.FuncKey(fn) == k.key && n == 1 && isKey, "DISPATCH", core.Site(set, "call %s", k.key), w.InstrPos(c), fmt.Sprintf("selected only when commit-datastore == %q (dispatch table)", k.want))
				done = true
			}
			if done {
				continue
			}
		}
		if len(cs) != 1 {
			r.Viol("DISPATCH", core.Site(set, "call %s", k.key), w.Pos(set.Pos()), fmt.Sprintf("expected one call, found %d", len(cs)))
			continue
		}
		ok := core.GuardedByEq(cs[0], true,
			func(v ssa.Value) bool { return core.FieldOf(v) == "config.SBINetconfOptions.CommitDatastore" },
			func(v ssa.Value) bool { s, isC := core.ConstString(v); return isC && s == k.want })
		r.Check(ok, "DISPATCH", core.Site(set, "call %s", k.key), w.InstrPos(cs[0]), fmt.Sprintf("selected only when commit-datastore == %q", k.want))
	}
}

// guardedByNonEmptyDoc: x executes only on the false outcome of a `len(doc) == 0` test
// (or the true outcome of len(doc) != 0 / > 0) where doc comes from WriteToString.
func guardedByNonEmptyDoc(x ssa.Instruction) bool { return guardedByDocLen(x, false) }

// guardedByEmptyDoc: x executes only on the len(<rendered document>) == 0 outcome.
func guardedByEmptyDoc(x ssa.Instruction) bool { return guardedByDocLen(x, true) }

func guardedByDocLen(x ssa.Instruction, wantEmpty bool) bool {
	for _, g := range core.GuardsOf(x) {
		a, b, eqOnTrue, ok := core.EqTest(g.If.Cond)
		if !ok {
			continue
		}
		isEq := eqOnTrue == g.CondTrue()
		if isEq != wantEmpty {
			continue
		}
		lenOf := func(v ssa.Value) bool {
			c, isCall := v.(*ssa.Call)
			if !isCall {
				return false
			}
			if bi, isB := c.Common().Value.(*ssa.Builtin); !isB || bi.Name() != "len" {
				return false
			}
			for _, oc := range core.OriginCalls(c.Common().Args[0]) {
				if core.CalleeIs(oc, "github.com/beevik/etree.Document.WriteToString") {
					return true
				}
			}
			return false
		}
		zero := func(v ssa.Value) bool { n, isC := core.ConstInt(v); return isC && n == 0 }
		if (lenOf(a) && zero(b)) || (lenOf(b) && zero(a)) {
			return true
		}
	}
	return false
}

// nilErrorReturns: the return instructions through which f yields a nil error: its own returns with the nil constant
// and, where f returns the result of a virtually inlined helper, that helper's.
func nilErrorReturns(f *ssa.Function, depth int) []*ssa.Return {
	var out []*ssa.Return
	for _, ret := range core.Returns(f) {
		e := errorOperand(ret)
		if e == nil {
			continue
		}
		if core.IsNilConst(e) {
			out = append(out, ret)
			continue
		}
		if depth > 2 {
			continue
		}
		var c *ssa.Call
		switch x := e.(type) {
		case *ssa.Call:
			c = x
		case *ssa.Extract:
			c, _ = x.Tuple.(*ssa.Call)
		}
		if c != nil && core.InlinedCallee(c) != nil {
			out = append(out, nilErrorReturns(core.InlinedCallee(c), depth+1)...)
		}
	}
	return out
}

func init() {
	debugAtoms = func(c ssa.Instruction) {
		if os.Getenv("DSCHECK_DEBUG_C18") == "" {
			return
		}
		for _, a := range core.GuardAtoms(c) {
			fmt.Println("  C18ATOM", c.Parent().Name(), a.Cond, a.True)
		}
	}
}

var debugAtoms func(ssa.Instruction)
