package rules

import (
	"embed"
	"regexp"
	"strings"

	"verif/internal/core"
)

// The rule sources themselves are the table of "functions a rule knows by name": every string literal of this
// package is collected (anchors given to w.Func, callee keys given to CalleeIs / CallsTo, exception keys, ...).
// A repository function whose key or simple name is such a literal is never inlined virtually (core/inline.go);
// everything else that is unexported, non-recursive and in the caller's package is treated as part of its callers.
//
//go:embed *.go
var ruleSources embed.FS

var strLit = regexp.MustCompile(`"((?:[^"\\]|\\.)*)"`)

func mentionedLiterals() map[string]bool {
	out := map[string]bool{}
	ents, _ := ruleSources.ReadDir(".")
	for _, e := range ents {
		if e.Name() == "mentioned.go" {
			continue
		}
		b, err := ruleSources.ReadFile(e.Name())
		if err != nil {
			continue
		}
		for _, m := range strLit.FindAllSubmatch(b, -1) {
			s := string(m[1])
			if len(s) >= 2 && len(s) <= 160 && !strings.ContainsAny(s, " \t\\") {
				out[s] = true
			}
		}
	}
	return out
}

// EnableInlining turns virtual inlining on for the loaded program; returns the number of inlined call sites.
func EnableInlining(w *core.World) int {
	lits := mentionedLiterals()
	var prefixes []string
	for l := range lits {
		// "pkg.Type.namePrefix" (used with HasPrefix on callee keys); a bare "pkg.Type" names a type, not a function
		if tail := l[strings.LastIndex(l, "/")+1:]; strings.Count(tail, ".") >= 2 && !strings.HasSuffix(l, ".") && len(l) >= 16 {
			prefixes = append(prefixes, l)
		}
	}
	return w.EnableInlining(func(key, name string) bool {
		if lits[key] || lits[name] {
			return true
		}
		for _, p := range prefixes {
			if strings.HasPrefix(key, p) {
				return true
			}
		}
		return false
	})
}
