package rules

import (
	"fmt"
	"go/types"
	"strings"

	"golang.org/x/tools/go/ssa"

	"verif/internal/core"
)

func init() {
	Registry["C03"] = c03
	// ValidationResults.JoinErrors joins the errors of all intents and HasErrors is true iff some intent has one
	// (C04.RESULTS decides both halves): under HasErrors() the joined error is not nil. A helper that validates and
	// returns JoinErrors() on that branch therefore hands a non-nil error to its caller.
	core.NonNilWhen["types.ValidationResults.JoinErrors"] = "types.ValidationResults.HasErrors"
}

// isEffectCall: the two ways the datastore changes the world — writing the
// device (target.Target.Set) and writing a store (cache.Client.Modify).
func isEffectCall(c ssa.CallInstruction) bool {
	return core.CalleeIs(c, kTargetSet, kModify)
}

// effectReachers returns the repository functions from which an effect call is reachable.
func effectReachers(w *core.World) map[*ssa.Function]bool {
	cg := w.CG()
	res := map[*ssa.Function]bool{}
	var work []*ssa.Function
	for _, f := range w.RepoFns {
		for _, c := range core.OwnCalls(f) {
			if isEffectCall(c) {
				if !res[f] {
					res[f] = true
					work = append(work, f)
				}
			}
		}
	}
	for len(work) > 0 {
		f := work[0]
		work = work[1:]
		for _, e := range cg.In[f] {
			if e.Kind == "ref" {
				continue // creating a function value does not execute it; executions are the dynamic edges
			}
			if !res[e.Caller] {
				res[e.Caller] = true
				work = append(work, e.Caller)
			}
		}
	}
	return res
}

func c03(w *core.World, r *core.Report) {
	low := w.Func("pkg/datastore", "Datastore", "lowlevelTransactionSet")
	rep := w.Func("pkg/datastore", "Datastore", "replaceIntent")
	txset := w.Func("pkg/datastore", "Datastore", "TransactionSet")
	if low == nil || rep == nil || txset == nil {
		return
	}

	// ---- VALIDATION-GUARD
	r.Rule("VALIDATION-GUARD", 5, "in lowlevelTransactionSet and replaceIntent every call that writes the device or a store (applyIntent, cache.Client.Modify, target.Set, StartRollbackTimer) executes only on the false outcome of ValidationResults.HasErrors() of the validation run of that function (edge-dominance on the CFG). Decides: a request that fails validation cannot reach an effect in these functions. Does not decide that validation itself is right.")
	for _, f := range []*ssa.Function{low, rep} {
		valCalls := core.CallsTo(f, "tree.RootEntry.Validate")
		if len(valCalls) != 1 {
			r.Undecided("VALIDATION-GUARD", core.Site(f, "validate"), w.Pos(f.Pos()), fmt.Sprintf("expected exactly one RootEntry.Validate call, found %d", len(valCalls)))
			continue
		}
		for _, c := range core.Calls(f) {
			if !(isEffectCall(c) || core.CalleeIs(c, kApplyIntent, "datastore/types.Transaction.StartRollbackTimer")) {
				continue
			}
			ok := false
			core.WithHost(f, func() { ok = guardedByHasErrorsOf(c, valCalls[0], false) })
			r.Check(ok, "VALIDATION-GUARD", core.Site(f, "call %s", core.CalleeKey(c)), w.InstrPos(c),
				"effect call must be reachable only through the !HasErrors() outcome of this function's validation result")
		}
	}

	// ---- DRYRUN-GUARD
	r.Rule("DRYRUN-GUARD", 3, "dry-run discipline, inductive over the call graph from TransactionSet: every call site that can reach an effect (target.Set / cache.Client.Modify) is guarded by dryRun==false, or forwards the dry-run flag into a parameter for which the callee satisfies the same rule. Decides: no call-graph path from a dry-run TransactionSet to an effect escapes a dryRun test.")
	reach := effectReachers(w)
	visited := map[string]bool{}
	var discipline func(f *ssa.Function, fp *flagParam, depth int)
	discipline = func(f *ssa.Function, fp *flagParam, depth int) {
		p := fp.P
		key := core.FuncKey(f) + "/" + p.Name()
		if visited[key] || depth > 6 {
			return
		}
		visited[key] = true
		for _, c := range core.Calls(f) {
			if core.InlinedCallee(c) != nil {
				continue // a virtually inlined helper: its calls are visited as part of f
			}
			callee := c.Common().StaticCallee()
			eff := isEffectCall(c)
			if !eff {
				if callee == nil {
					// interface / dynamic call: may it reach an effect?
					may := false
					for _, e := range w.CG().Out[f] {
						if e.Site == c && reach[e.Callee] {
							may = true
						}
					}
					if !may {
						continue
					}
				} else if !reach[callee] {
					continue
				}
			}
			site := core.Site(f, "call %s", core.CalleeKey(c))
			guarded := false
			core.WithHost(f, func() { guarded = fp.guarded(c, false) })
			if guarded {
				r.OK("DRYRUN-GUARD", site, w.InstrPos(c), "guarded by "+p.Name()+"==false")
				continue
			}
			// forwarded?
			forwarded := false
			if callee != nil && !eff {
				for i, a := range c.Common().Args {
					if i >= len(callee.Params) {
						continue
					}
					next := (*flagParam)(nil)
					if flowsFromParam(a, p) {
						next = &flagParam{P: callee.Params[i], Dry: fp.Dry}
					} else if fp.Dry == nil {
						// the flag is handed on encoded as a typed constant (applyModeFromDryRun(dryRun))
						if tc := encodesBool(a, p); tc != nil {
							next = &flagParam{P: callee.Params[i], Dry: tc}
						}
					}
					if next != nil {
						forwarded = true
						r.OK("DRYRUN-GUARD", site, w.InstrPos(c), fmt.Sprintf("forwards %s into parameter %s of the callee; callee checked", p.Name(), callee.Params[i].Name()))
						discipline(callee, next, depth+1)
					}
				}
			}
			if !forwarded {
				r.Viol("DRYRUN-GUARD", site, w.InstrPos(c), fmt.Sprintf("call can reach a device/store write but is neither guarded by %s==false nor given the flag", p.Name()))
			}
		}
	}
	if p := core.Param(txset, "dryRun"); p != nil {
		discipline(txset, &flagParam{P: p}, 0)
	} else {
		w.NoteUnresolved("parameter dryRun of " + kTxSet)
	}

	// ---- ERR-NONNIL
	r.Rule("ERR-NONNIL", 2, "a validation failure is surfaced: on the HasErrors()==true outcome in replaceIntent every reachable return carries an error value that is not definitely nil (interprocedural definitely-nil summary: a function all of whose error returns are the nil constant), and in lowlevelTransactionSet the returned response is the one that received the per-intent Errors. Also: no result of errors.Join / fmt.Errorf / errors.New is discarded in pkg/types (a discarded error constructor is an error that can never be reported), and ValidationResults.JoinErrors / JoinWarnings carry their accumulator round the loop over the intents (overwritten per iteration, the result is what the last intent of the map iteration contributed: nil if that one has no errors).")
	for _, f := range []*ssa.Function{rep} {
		valCalls := core.CallsTo(f, "tree.RootEntry.Validate")
		if len(valCalls) != 1 {
			continue
		}
		n := 0
		for _, b := range core.Blocks(f) {
			ret, ok := b.Instrs[len(b.Instrs)-1].(*ssa.Return)
			if !ok || !guardedByHasErrorsOf(ret, valCalls[0], true) {
				continue
			}
			n++
			ev := errorOperand(ret)
			ok2 := ev != nil && mayBeNonNil(w, ev, 0)
			r.Check(ok2, "ERR-NONNIL", core.Site(f, "return on HasErrors"), w.InstrPos(ret),
				"the error returned for a replace intent that failed validation must be able to be non-nil; definitely-nil means the failure is reported as success and processing continues")
		}
		if n == 0 {
			r.Viol("ERR-NONNIL", core.Site(f, "return on HasErrors"), w.Pos(f.Pos()), "no return is guarded by the HasErrors()==true outcome: validation errors of the replace intent are not surfaced")
		}
	}
	// lowlevel: per-intent errors recorded into the response that is returned on the HasErrors branch
	{
		valCalls := core.CallsTo(low, "tree.RootEntry.Validate")
		if len(valCalls) == 1 {
			n := 0
			for _, b := range core.Blocks(low) {
				ret, ok := b.Instrs[len(b.Instrs)-1].(*ssa.Return)
				if !ok || !guardedByHasErrorsOf(ret, valCalls[0], true) {
					continue
				}
				n++
				// either a non-nil error or the response struct whose Intents map got Errors from the validation result
				ev := errorOperand(ret)
				good := ev != nil && mayBeNonNil(w, ev, 0) && !core.IsNilConst(ev)
				if !good && len(ret.Results) > 0 {
					good = responseCarriesErrors(low, ret.Results[0], valCalls[0])
				}
				r.Check(good, "ERR-NONNIL", core.Site(low, "return on HasErrors"), w.InstrPos(ret),
					"on validation failure the caller must get a non-nil error or the response whose Intents[*].Errors were filled from this validation result")
			}
			if n == 0 {
				r.Viol("ERR-NONNIL", core.Site(low, "return on HasErrors"), w.Pos(low.Pos()), "no return is guarded by HasErrors()==true")
			}
		}
	}
	for _, f := range w.RepoFns {
		if f.Pkg == nil || core.PkgPath(f) != core.Module+"/pkg/types" {
			continue
		}
		for _, c := range core.OwnCalls(f) {
			if !core.CalleeIs(c, "errors.Join", "fmt.Errorf", "errors.New") {
				continue
			}
			v, isVal := c.(*ssa.Call)
			used := isVal && v.Referrers() != nil && len(*v.Referrers()) > 0
			r.Check(used, "ERR-NONNIL", core.Site(f, "call %s", core.CalleeKey(c)), w.InstrPos(c), "result of an error constructor must be used")
		}
	}

	// the fact "JoinErrors() is non-nil when HasErrors()" needs the errors of EVERY intent in the result
	ruleJoinAccumulates(w, r, "ERR-NONNIL")

	// ---- ALL-DELETES-SENT (shared with C10): the dry run reports GetDeletes, the real run sends ToProtoDeletes
	r.Rule("ALL-DELETES-SENT", 1, "(shared with C10) what a dry run reports as deleted is what the real run sends: RootEntry.ToProtoDeletes hands on every delete that GetDeletes computed (one append in the loop over the GetDeletes result, no path through the loop body skips it). A filter added there ('the device does not hold it', de-duplication) makes the real run send fewer deletes than the dry run predicted.")
	ruleAllDeletesSent(w, r)

	// ---- APPLY-SENDS (shared with C01)
	r.Rule("APPLY-SENDS", 2, "Datastore.applyIntent returns success only after target.Target.Set was called with the tree it was given (dominance over every nil-error return). Decides: the deletes and updates a dry run reports from that tree are not silently withheld from the device by a shortcut in the apply step.")
	ruleApplySends(w, r, "APPLY-SENDS")

	// ---- PREDICT
	r.Rule("PREDICT", 4, "structural part of 'dry run predicts the real run' in lowlevelTransactionSet: the reported updates/deletes are computed from the same tree value that is handed to applyIntent, before the dryRun branch, with onlyNewOrUpdated=true, and between computing them and applyIntent no call mutates that tree (only the frozen read-only methods may take it as receiver).")
	predict(w, r, low)
}

// guardedByHasErrorsOf: x executes only on outcome `want` of HasErrors() called on the result of validate call vc.
func guardedByHasErrorsOf(x ssa.Instruction, vc ssa.CallInstruction, want bool) bool {
	for _, a := range core.GuardAtoms(x) {
		if a.True != want {
			continue
		}
		for _, oc := range core.OriginCalls(a.Cond) {
			if !core.CalleeIs(oc, kHasErrors) {
				continue
			}
			recv := core.CallRecv(oc)
			for _, o := range core.Origins(recv) {
				if o == vc.Value() {
					return true
				}
			}
		}
	}
	return false
}

func errorOperand(ret *ssa.Return) ssa.Value {
	vals := core.ReturnValues(ret)
	for i := len(vals) - 1; i >= 0; i-- {
		if isErrorType(ret.Results[i].Type()) {
			return vals[i]
		}
	}
	return nil
}

func isErrorType(t types.Type) bool {
	n, ok := t.(*types.Named)
	return ok && n.Obj().Pkg() == nil && n.Obj().Name() == "error"
}

// definitelyNilFunc: every return of f gives the nil constant for its last error result.
func definitelyNilFunc(w *core.World, f *ssa.Function, depth int) bool {
	if f == nil || f.Blocks == nil {
		return false
	}
	any := false
	for _, b := range core.Blocks(f) {
		ret, ok := b.Instrs[len(b.Instrs)-1].(*ssa.Return)
		if !ok {
			continue
		}
		ev := errorOperand(ret)
		if ev == nil {
			return false
		}
		any = true
		if mayBeNonNil(w, ev, depth+1) {
			return false
		}
	}
	return any
}

// mayBeNonNil: some origin of the error value is not the nil constant (calls
// into the repository are summarised by definitelyNilFunc, depth <= 3).
func mayBeNonNil(w *core.World, v ssa.Value, depth int) bool {
	for _, o := range core.Origins(v) {
		if core.IsNilConst(o) {
			continue
		}
		if c, ok := o.(*ssa.Call); ok && depth < 3 {
			if callee := c.Common().StaticCallee(); callee != nil && callee.Blocks != nil && strings.HasPrefix(core.PkgPath(callee), core.Module) {
				if definitelyNilFunc(w, callee, depth) {
					continue
				}
			}
		}
		return true
	}
	return false
}

// responseCarriesErrors: resp is an allocation whose Intents map receives, on a
// path before the return, elements whose Errors field comes from a range over
// the validation result vc.
func responseCarriesErrors(f *ssa.Function, resp ssa.Value, vc ssa.CallInstruction) bool {
	// find MapUpdate instructions whose value is a struct with field Errors fed by ErrorsString on a value ranging over
	// vc; the response and the per-intent literal may be built by (virtually inlined) constructors
	ok := false
	core.WithHost(f, func() {
		sameResp := func(x ssa.Value) bool {
			if x == resp || core.SameObject(x, resp) {
				return true
			}
			for _, o := range core.Origins(x) {
				if _, isC := o.(*ssa.Const); isC {
					continue
				}
				if core.HasOrigin(resp, o) {
					return true
				}
			}
			return false
		}
		for _, b := range core.Blocks(f) {
			for _, in := range b.Instrs {
				mu, isMU := in.(*ssa.MapUpdate)
				if !isMU {
					continue
				}
				// map must be loaded from resp.Intents
				fromResp := false
				for _, o := range core.Origins(mu.Map) {
					if u, isU := o.(*ssa.UnOp); isU {
						if fa, isFA := u.X.(*ssa.FieldAddr); isFA && sameResp(fa.X) {
							fromResp = true
						}
					}
					if mm, isMM := o.(*ssa.MakeMap); isMM {
						// stored into resp.Intents?
						for _, ref := range *mm.Referrers() {
							if st, isSt := ref.(*ssa.Store); isSt {
								if fa, isFA := st.Addr.(*ssa.FieldAddr); isFA && sameResp(fa.X) {
									fromResp = true
								}
							}
						}
					}
				}
				if !fromResp {
					continue
				}
				// value: literal of TransactionSetResponseIntent whose Errors field comes from an ErrorsString call
				for _, vo := range append(core.Origins(mu.Value), mu.Value) {
					al, isAl := vo.(*ssa.Alloc)
					if !isAl {
						continue
					}
					st, isStruct := al.Type().Underlying().(*types.Pointer).Elem().Underlying().(*types.Struct)
					if !isStruct {
						continue
					}
					for i := 0; i < st.NumFields(); i++ {
						if st.Field(i).Name() != "Errors" {
							continue
						}
						for _, sv := range core.LocalFieldStores(al, i) {
							for _, oc := range core.OriginCalls(sv) {
								if core.CalleeIs(oc, "types.ValidationResultIntent.ErrorsString") && rangesOver(core.CallRecv(oc), vc.Value()) {
									ok = true
								}
							}
						}
					}
				}
			}
		}
	})
	return ok
}

// rangesOver: v is extracted from a Next over a Range of coll.
func rangesOver(v ssa.Value, coll ssa.Value) bool {
	for _, o := range core.Origins(v) {
		if n, ok := o.(*ssa.Next); ok {
			if rg, ok := n.Iter.(*ssa.Range); ok {
				for _, oo := range core.Origins(rg.X) {
					if oo == coll {
						return true
					}
				}
			}
		}
	}
	return false
}

func flowsFromParam(v ssa.Value, p *ssa.Parameter) bool {
	if v == p {
		return true
	}
	for _, o := range core.Origins(v) {
		if o == p {
			return true
		}
	}
	return false
}

// readOnlyRootMethods: methods that may take the tree as receiver between the
// diff computation and the apply without changing what the apply will send.
var readOnlyRootMethods = map[string]string{
	"tree.RootEntry.GetHighestPrecedence":     "read-only traversal",
	"tree.RootEntry.GetDeletes":               "read-only traversal",
	"tree.RootEntry.GetUpdatesForOwner":       "read-only traversal",
	"tree.RootEntry.GetDeletesForOwner":       "read-only traversal",
	"tree.RootEntry.String":                   "debug rendering",
	"tree.sharedEntryAttributes.String":       "debug rendering",
	"tree.sharedEntryAttributes.StringIndent": "debug rendering",
	kApplyIntent: "the apply itself",
}

func predict(w *core.World, r *core.Report, low *ssa.Function) {
	applies := core.CallsTo(low, kApplyIntent)
	if len(applies) != 1 {
		r.Undecided("PREDICT", core.Site(low, "applyIntent"), w.Pos(low.Pos()), fmt.Sprintf("expected one applyIntent call, found %d", len(applies)))
		return
	}
	apply := applies[0]
	var root ssa.Value
	if rc := core.CallsTo(low, "tree.NewTreeRoot"); len(rc) == 1 {
		root = rc[0].Value()
	}
	if root == nil {
		r.Undecided("PREDICT", core.Site(low, "tree root"), w.Pos(low.Pos()), "expected exactly one tree.NewTreeRoot call")
		return
	}
	applied := false
	for _, a := range core.CallArgs(apply) {
		for _, o := range core.Origins(a) {
			if o == root {
				applied = true
			}
		}
	}
	r.Check(applied, "PREDICT", core.Site(low, "applyIntent source"), w.InstrPos(apply), "the tree built by this pipeline is the one handed to applyIntent")
	dryFlag := dryFlagOf(w, low, 0)
	var dryIf *ssa.If
	core.WithHost(low, func() {
		for _, i := range core.Ifs(low) {
			if ok, _ := dryFlag.isTest(i.Cond); ok {
				dryIf = i // the flag itself (or its typed encoding), also as the parameter of a phase function it was handed to
				continue
			}
			// a predicate of the flag's type (mode.isDryRun()) resolved to the comparison it returns
			for _, a := range core.AtomsOfCond(i.Cond) {
				if ok, _ := dryFlag.isTest(a.Cond); ok {
					dryIf = i
				}
			}
		}
	})
	if dryIf == nil {
		r.Viol("PREDICT", core.Site(low, "dryRun branch"), w.Pos(low.Pos()), "no branch on dryRun in the pipeline")
		return
	}
	for _, key := range []string{"tree.RootEntry.GetHighestPrecedence", "tree.RootEntry.GetDeletes"} {
		var first ssa.CallInstruction
		for _, c := range core.CallsTo(low, key) {
			if core.InstrBefore(c, dryIf) {
				first = c
				break
			}
		}
		site := core.Site(low, "call %s", key)
		if first == nil {
			r.Viol("PREDICT", site, w.Pos(low.Pos()), "the reported diff is not computed before the dryRun branch on every path")
			continue
		}
		sameRoot := false
		for _, o := range core.Origins(core.CallRecv(first)) {
			if o == root {
				sameRoot = true
			}
		}
		r.Check(sameRoot, "PREDICT", site+" receiver", w.InstrPos(first), "the diff must be computed from the same tree that is applied")
		args := core.CallArgs(first)
		if len(args) == 1 {
			b, isConst := core.ConstBool(args[0])
			r.Check(isConst && b, "PREDICT", site+" onlyNewOrUpdated", w.InstrPos(first), "reported diff must use onlyNewOrUpdated=true like the targets do")
		}
		// no mutation of root between first and apply
		bad := ""
		for _, c := range core.Calls(low) {
			if c == first || c == apply {
				continue
			}
			if !core.CanFollow(first, c) || !core.CanFollow(c, apply) {
				continue
			}
			touches := false
			for _, a := range c.Common().Args {
				for _, o := range core.Origins(a) {
					if o == root {
						touches = true
					}
				}
			}
			if c.Common().IsInvoke() {
				for _, o := range core.Origins(c.Common().Value) {
					if o == root {
						touches = true
					}
				}
			}
			if !touches {
				continue
			}
			if _, ok := readOnlyRootMethods[core.CalleeKey(c)]; !ok {
				bad = core.CalleeKey(c) + " at " + w.InstrPos(c)
			}
		}
		r.Check(bad == "", "PREDICT", site+" no-mutation-before-apply", w.InstrPos(first), "between computing the reported diff and applyIntent the tree may only be read; found: "+bad)
	}
	// response fields assigned from these calls: result.Update / result.Delete stores happen before dryIf
	for _, fld := range []string{"Update", "Delete"} {
		found := false
		for _, b := range core.Blocks(low) {
			for _, in := range b.Instrs {
				st, ok := in.(*ssa.Store)
				if !ok {
					continue
				}
				fa, ok := st.Addr.(*ssa.FieldAddr)
				if !ok || core.TypeKey(fa.X.Type()) != "github.com/sdcio/sdc-protos/sdcpb.TransactionSetResponse" {
					continue
				}
				stt := fa.X.Type().Underlying().(*types.Pointer).Elem().Underlying().(*types.Struct)
				if stt.Field(fa.Field).Name() != fld {
					continue
				}
				if core.CanFollow(dryIf, st) {
					r.Viol("PREDICT", core.Site(low, "store result.%s after dryRun branch", fld), w.InstrPos(st), "the response field is (re)assigned after the dry-run return: dry run and real run report different things")
				}
				if core.InstrBefore(st, dryIf) || core.CanFollow(st, dryIf) {
					found = true
				}
			}
		}
		r.Check(found, "PREDICT", core.Site(low, "store result.%s", fld), w.Pos(low.Pos()), "response field filled before the dry-run branch")
	}
}
