package rules

import (
	"fmt"
	"go/token"
	"go/types"
	"strings"

	"golang.org/x/tools/go/ssa"

	"verif/internal/core"
)

func init() { Registry["C11"] = c11 }

const nulSep = "\x00"

// usedAsKey reports how the string value v (or something derived from it by
// concatenation / phi / conversion) is used: as a map key (lookup, update,
// delete), in a prefix/containment test, or in an equality comparison.
func keyUses(v ssa.Value) (mapKey, prefixTest bool, where []ssa.Instruction) {
	seen := map[ssa.Value]bool{}
	var rec func(v ssa.Value, d int)
	rec = func(v ssa.Value, d int) {
		if v == nil || seen[v] || d > 6 || v.Referrers() == nil {
			return
		}
		seen[v] = true
		for _, ref := range *v.Referrers() {
			switch x := ref.(type) {
			case *ssa.Lookup:
				if x.Index == v {
					if _, isMap := x.X.Type().Underlying().(*types.Map); isMap {
						mapKey = true
						where = append(where, x)
					}
				}
			case *ssa.MapUpdate:
				if x.Key == v {
					mapKey = true
					where = append(where, x)
				}
			case *ssa.Phi:
				rec(x, d+1)
			case *ssa.BinOp:
				rec(x, d+1) // concatenation
			case *ssa.ChangeType:
				rec(x, d+1)
			case *ssa.Convert:
				rec(x, d+1)
			case *ssa.MakeInterface:
				rec(x, d+1)
			case *ssa.Store:
				if al, ok := x.Addr.(*ssa.Alloc); ok && x.Val == v {
					for _, r2 := range *al.Referrers() {
						if ld, ok := r2.(*ssa.UnOp); ok {
							rec(ld, d+1)
						}
					}
				}
			case ssa.CallInstruction:
				if core.CalleeIs(x, "strings.HasPrefix", "strings.HasSuffix", "strings.Contains", "strings.Index") {
					prefixTest = true
					where = append(where, x)
				}
				if bi, ok := x.Common().Value.(*ssa.Builtin); ok && bi.Name() == "delete" {
					mapKey = true
					where = append(where, x)
				}
				// the key of a sync.Map (memo / index kept on a long-lived object)
				if k := core.CalleeKey(x); strings.HasPrefix(k, "sync.Map.") && k != "sync.Map.Range" {
					if a := x.Common().Args; len(a) >= 2 && a[1] == v {
						mapKey = true
						where = append(where, x)
					}
				}
			}
		}
	}
	rec(v, 0)
	return
}

// isPathValue: v looks like a sequence of path elements including key values:
// a tree.PathSlice, the result of (*cache.Update).GetPath(), a []string parameter named path, utils.ToStrings(...) with keys.
func isInstancePath(v ssa.Value) bool {
	if core.TypeKey(v.Type()) == "tree.PathSlice" {
		return true
	}
	for _, o := range append(core.Origins(v), v) {
		if core.TypeKey(o.Type()) == "tree.PathSlice" {
			return true
		}
		if c, ok := o.(*ssa.Call); ok {
			if core.CalleeIs(c, "cache.Update.GetPath", "tree.sharedEntryAttributes.Path", "tree.Entry.Path") {
				return true
			}
			if core.CalleeIs(c, "utils.ToStrings") {
				args := core.CallArgs(c)
				if len(args) == 3 {
					if nokeys, isC := core.ConstBool(args[2]); isC && nokeys {
						return false // key-less schema path
					}
				}
				return true
			}
			if bi, ok := c.Common().Value.(*ssa.Builtin); ok && bi.Name() == "append" {
				for _, a := range c.Common().Args {
					if isInstancePathShallow(a) {
						return true
					}
				}
			}
		}
		if p, ok := o.(*ssa.Parameter); ok {
			if strings.Contains(strings.ToLower(p.Name()), "path") {
				if sl, ok := p.Type().Underlying().(*types.Slice); ok {
					if b, ok := sl.Elem().Underlying().(*types.Basic); ok && b.Kind() == types.String {
						return true
					}
				}
			}
		}
	}
	return false
}

func isInstancePathShallow(v ssa.Value) bool {
	if core.TypeKey(v.Type()) == "tree.PathSlice" {
		return true
	}
	for _, o := range append(core.Origins(v), v) {
		if c, ok := o.(*ssa.Call); ok && core.CalleeIs(c, "cache.Update.GetPath", "tree.sharedEntryAttributes.Path", "tree.Entry.Path") {
			return true
		}
	}
	return false
}

// keyOrderTable: functions that map a POSITION (tree level / slice index) to a key name or value.
// Each must sort the key names (the tree and utils.ToStrings order key levels by key name).
var keyOrderTable = []struct{ Pkg, Recv, Name, Why string }{
	{"pkg/datastore/clients/schema", "SchemaClientBoundImpl", "ToPath", "element slice -> sdcpb.Path: key values appear in key-name order in the slice"},
	{"pkg/tree", "sharedEntryAttributes", "getKeyName", "tree level -> key name"},
	{"pkg/tree", "", "keyLevelValues", "tree levels -> key values for XML / JSON key completion"},
	{"pkg/tree", "sharedEntryAttributes", "ImportConfig", "device config import creates the key levels"},
	{"pkg/tree", "sharedEntryAttributes", "FilterChilds", "key filter walks the key levels"},
	{"pkg/tree", "sharedEntryAttributes", "NavigateSdcpbPath", "path predicate -> key levels"},
	{"pkg/utils", "", "sortedVals", "sdcpb.Path -> element slice"},
	{"pkg/utils", "", "ToXPath", "string form lists keys deterministically"},
	{"pkg/datastore/target/netconf", "", "pathElem2XPath", "xpath filter"},
}

var sortCalls = []string{"sort.Strings", "slices.Sort", "sort.Slice", "slices.SortFunc", "sort.SliceStable", "slices.SortStableFunc", "slices.Sorted", "slices.SortedFunc", "slices.SortedStableFunc"}

func c11(w *core.World, r *core.Report) {
	ruleSEP(w, r)

	// ---- NO-PREFIX-ON-JOIN (shared)
	ruleNoPrefixOnJoin(w, r)
	ruleNoSplitOfJoin(w, r)

	// ---- SORT-SHARED
	r.Rule("SORT-SHARED", 12, "no in-place sort / reverse of a slice that shares its backing array with a struct field, a package variable or the result of a repository function that hands out such state (depth 3): the key names are needed in key-statement order by some consumers (XML key elements) and in name order by others (tree levels); sorting a shared slice changes the order for everyone. Slices made locally, library results and parameters are not reported.")
	ruleSortShared(w, r, "SORT-SHARED", "pkg/tree", "pkg/utils", "pkg/datastore", "pkg/datastore/clients/schema", "pkg/datastore/target", "pkg/datastore/target/netconf", "pkg/tree/importer/xml", "pkg/tree/importer/json", "pkg/tree/importer/proto")

	// ---- KEY-ORDER
	r.Rule("KEY-ORDER", 18, "key-order table: every function that maps a position (tree level, slice index, output order) to a key name or value sorts the key names first (the tree and utils.ToStrings order key levels by key NAME, not by the key statement): a sort call exists, executes before the positional use, and the sorted slice is the one that is ranged / indexed afterwards; and the slice that is sorted is not ranged, indexed or handed to a repository function on a path that reaches the sort only afterwards (a fast path in front of the sort would walk the tree levels in key-statement order).")
	for _, t := range keyOrderTable {
		f := w.Func(t.Pkg, t.Recv, t.Name)
		if f == nil {
			continue
		}
		ok := false
		detail := "no sort call"
		for _, s := range core.CallsTo(f, sortCalls...) {
			if len(s.Common().Args) == 0 {
				continue
			}
			sorted := s.Common().Args[0]
			if strings.HasPrefix(core.CalleeKey(s), "slices.Sorted") {
				sorted = s.Value() // slices.Sorted(maps.Keys(m)) hands back the sorted slice
			}
			// a later positional use of the same slice
			for _, b := range core.Blocks(f) {
				for _, in := range b.Instrs {
					var used ssa.Value
					switch x := in.(type) {
					case *ssa.IndexAddr:
						used = x.X
					case *ssa.Index:
						used = x.X
					case *ssa.Range:
						used = x.X
					case *ssa.Slice:
						used = x.X
					case ssa.CallInstruction:
						// handed on as a whole (strings.Join(keys, ","), append(vs, sorted...))
						if x != s {
							for _, a := range x.Common().Args {
								if core.SameObject(a, sorted) {
									used = a
								}
							}
						}
					}
					if used == nil || !core.SameObject(used, sorted) {
						continue
					}
					if core.InstrBefore(s, in) || core.CanFollow(s, in) {
						ok = true
					}
				}
			}
			if !ok {
				detail = "sorted slice is not the one used positionally afterwards"
			}
		}
		r.Check(ok, "KEY-ORDER", core.Site(f, "sorts key names before positional use"), w.Pos(f.Pos()), t.Why+": "+detail)
		// ... and nothing walks the same slice positionally BEFORE it is sorted (a fast path in front of the sort
		// sees the key names in key-statement order while the tree levels are in name order)
		early := ""
		for _, s := range core.CallsTo(f, sortCalls...) {
			if len(s.Common().Args) == 0 || strings.HasPrefix(core.CalleeKey(s), "slices.Sorted") {
				continue
			}
			sorted := s.Common().Args[0]
			for _, b := range core.Blocks(f) {
				for _, in := range b.Instrs {
					var used ssa.Value
					switch x := in.(type) {
					case *ssa.IndexAddr:
						used = x.X
					case *ssa.Index:
						used = x.X
					case *ssa.Range:
						used = x.X
					case ssa.CallInstruction:
						if g := x.Common().StaticCallee(); x != s && g != nil && g.Blocks != nil && strings.HasPrefix(core.PkgPath(g), core.Module) {
							for _, a := range x.Common().Args {
								if core.SameObject(a, sorted) {
									used = a
								}
							}
						}
					}
					if used == nil || !core.SameObject(used, sorted) || in.Parent() != s.Parent() {
						continue
					}
					if core.CanFollow(in, s) && !core.CanFollow(s, in) {
						early = w.InstrPos(in)
					}
				}
			}
		}
		r.Check(early == "", "KEY-ORDER", core.Site(f, "no positional use of the key names ahead of the sort"), w.Pos(f.Pos()), t.Why+": the slice that is sorted later is ranged / indexed / handed to a repository function at "+early+" while it is still in key-statement order")
	}

	// ---- KEY-VALUE-VERBATIM
	r.Rule("ELEM-APPEND-OWNED", 10, "(shared with C13) a path is extended on its own elements only: wherever the result of append(<Elem of path P>, ...) is stored into the Elem field of a path (assignment or composite literal), P is that very path (np.Elem = append(np.Elem, ...) on the clone the function made). Appending to another path's elements shares its backing array when it has spare capacity: the leafs of one container then all get the path of the leaf expanded last.")
	ruleElemAppendOwned(w, r, "ELEM-APPEND-OWNED")
	r.Rule("KEY-VALUE-VERBATIM", 1, "utils.StripPathElemPrefixPath is applied to the paths of device notifications (ConvertNotificationTypedValues): it may drop the module prefix of element and key NAMES, but the key VALUES are instance data and must be stored as they are: no value written back into PathElem.Key is cut out of / re-joined from the old value. Cutting at ':' turns 2001:db8::1/64 and 2002:db8::1/64 into the same key (two list entries collide in the running store).")
	if f := w.Func("pkg/utils", "", "StripPathElemPrefixPath"); f != nil {
		n := 0
		for _, b := range core.Blocks(f) {
			for _, in := range b.Instrs {
				mu, ok := in.(*ssa.MapUpdate)
				if !ok || !strings.HasSuffix(core.FieldOf(mu.Map), "sdcpb.PathElem.Key") {
					continue
				}
				n++
				rewritten := false
				for _, o := range append(core.Origins(mu.Value), mu.Value) {
					switch x := o.(type) {
					case *ssa.Slice:
						rewritten = true
					case *ssa.Call:
						if core.CalleeIs(x, "strings.Join", "strings.TrimPrefix", "strings.Replace", "strings.ReplaceAll") {
							rewritten = true
						}
					}
				}
				r.Check(!rewritten, "KEY-VALUE-VERBATIM", core.Site(f, "key value written back unchanged"), w.InstrPos(mu), "the key value of a data path is rewritten (everything up to a ':' is cut off per '/'-separated part): values that contain ':' (IPv6 addresses and prefixes, MAC addresses, time stamps) are mangled and different instances collide")
			}
		}
		if n == 0 {
			r.OK("KEY-VALUE-VERBATIM", core.Site(f, "key value written back unchanged"), w.Pos(f.Pos()), "key values are not written at all")
		}
	}

	// ---- PATH-FRESH
	r.Rule("PATH-FRESH", 2, "sharedEntryAttributes.SdcpbPath and SdcpbPathInternal build the path of an entry for the call: the key-level children write their key value into the last element of the path they get from their parent (p.Elem[len-1].Key[name] = ...), so the elements must not be shared between calls. The returned path does not depend on an sdcpb.Path / PathElem kept in a field of the entry (a per-entry cache handed out as a shallow copy makes all instances of a list carry the keys of the one computed last).")
	rulePathFresh(w, r)

	// ---- MAP-ORDER
	r.Rule("MAP-ORDER", 3, "no order-dependent result is computed from Go map iteration order in the path code (pkg/utils/path.go, pkg/tree, netconf utils, schema client): (a) a slice filled inside a range over a map and later ranged, indexed or returned is sorted in between; (b) no range over a map carries a navigation cursor from one iteration to the next (e = e.Navigate(...)).")
	mapOrder(w, r)
}

func mapOrder(w *core.World, r *core.Report) {
	exceptions := map[string]string{
		"datastore/types.Transaction.GetIntentNames":            "result is used as a set (slices.Contains) only",
		"tree.childMap.GetKeys":                                 "callers sort (xml) or use as a set",
		"tree.choiceCasesResolver.GetElementNames":              "each element is processed independently (SetValue per element)",
		"tree.choiceCasesResolvers.GetSkipElements":             "used as a set (slices.Contains)",
		"tree.choiceCasesResolver.GetSkipElements":              "used as a set (slices.Contains)",
		"tree.choiceCasesResolvers.GetChoiceElementNeighbors":   "used as a set",
		"tree.sharedEntryAttributes.FilterChilds":               "wildcard level: all children are collected, order of the result list is not significant to callers that sort (xml/json sort list entries)",
		"tree.sharedEntryAttributes.GetByOwner":                 "collects leaf entries; consumers treat them as a set",
		"tree.sharedEntryAttributes.GetHighestPrecedence":       "collects leaf variants; consumers treat them as a set / sort for output",
		"tree.sharedEntryAttributes.getRegularDeletes":          "collects deletes; a set",
		"tree.sharedEntryAttributes.getAggregatedDeletes":       "collects deletes; a set",
		"tree.sharedEntryAttributes.StringIndent":               "debug rendering",
		"utils.convertStringToTv":                               "error message listing identities",
		"tree.TreeCacheClientImpl.getPathsOfOwner":              "path sets per priority; a set",
		"tree.TreeCacheClientImpl.ReadUpdatesOwner":             "concatenation of per-priority reads; a set of entries",
		"tree.UpdateSlice.ToPathSet":                            "n/a",
		"datastore/target/netconf.TransformationContext.String": "debug rendering",
	}
	inScope := func(f *ssa.Function) bool {
		if f.Pkg == nil {
			return false
		}
		p := core.PkgPath(f)
		return p == core.Module+"/pkg/utils" || p == core.Module+"/pkg/tree" || p == core.Module+"/pkg/datastore/target/netconf" || p == core.Module+"/pkg/datastore/clients/schema" || p == core.Module+"/pkg/datastore/types"
	}
	for _, f := range w.RepoFns {
		if !inScope(f) {
			continue
		}
		for _, b := range f.Blocks {
			for _, in := range b.Instrs {
				rg, ok := in.(*ssa.Range)
				if !ok {
					continue
				}
				if _, isMap := rg.X.Type().Underlying().(*types.Map); !isMap {
					continue
				}
				// the Next of this range
				var next *ssa.Next
				for _, ref := range *rg.Referrers() {
					if n, ok := ref.(*ssa.Next); ok {
						next = n
					}
				}
				if next == nil {
					continue
				}
				// (b) loop-carried cursor: a phi in the loop header whose incoming value from inside the loop is a call result that has the phi as receiver/argument
				for _, pin := range next.Block().Instrs {
					phi, ok := pin.(*ssa.Phi)
					if !ok {
						break
					}
					for _, e := range phi.Edges {
						for _, oc := range core.OriginCalls(e) {
							usesPhi := false
							if rv := core.CallRecv(oc); rv != nil && core.HasOrigin(rv, phi) {
								usesPhi = true
							}
							for _, a := range oc.Common().Args {
								if a == ssa.Value(phi) {
									usesPhi = true
								}
							}
							if usesPhi && core.OnCycle(oc) && strings.Contains(core.CalleeKey(oc), "Navigate") {
								r.Viol("MAP-ORDER", core.Site(f, "cursor carried through a map range"), w.InstrPos(oc), "navigation steps are taken in Go map iteration order (random): multi-key predicates resolve differently from run to run")
							}
						}
					}
				}
				// (a) slices appended to inside the loop
				for _, b2 := range f.Blocks {
					for _, in2 := range b2.Instrs {
						c, ok := in2.(*ssa.Call)
						if !ok {
							continue
						}
						bi, isB := c.Common().Value.(*ssa.Builtin)
						if !isB || bi.Name() != "append" || !core.OnCycle(c) {
							continue
						}
						// inside THIS range loop: reachable from next and reaching next again
						if !core.CanFollow(next, c) || !core.CanFollow(c, next) {
							continue
						}
						// accumulation across iterations only: x = append(x, ...)
						if len(c.Common().Args) == 0 || !core.HasOrigin(c.Common().Args[0], c) {
							continue
						}
						// only slices of strings (names / values)
						sl, isSl := c.Type().Underlying().(*types.Slice)
						if !isSl {
							continue
						}
						if bt, ok := sl.Elem().Underlying().(*types.Basic); !ok || bt.Kind() != types.String {
							continue
						}
						site := core.Site(f, "slice filled from a map range")
						reason, ok := exceptions[core.FuncKey(f)]
						if !ok && core.IsInlined(f) {
							// code moved into an unexported helper keeps the exception of every function it was moved out of
							ok = true
							for _, hk := range core.HostKeys(f) {
								if r2, ok2 := exceptions[hk]; ok2 {
									reason = r2
								} else {
									ok = false
								}
							}
						}
						if ok {
							r.Info("MAP-ORDER", site, w.InstrPos(c), "frozen exception: "+reason)
							continue
						}
						// a sort on the same slice after the loop?
						sorted := false
						for _, s := range core.OwnCallsTo(f, sortCalls...) {
							if len(s.Common().Args) > 0 && core.SameObject(s.Common().Args[0], c) && core.CanFollow(c, s) {
								sorted = true
							}
						}
						r.Check(sorted, "MAP-ORDER", site, w.InstrPos(c), "the slice's order is Go map iteration order unless it is sorted before it is used")
					}
				}
			}
		}
	}
}

// ruleSEP is shared by C11 and C02 (the owner's path set and the store indexes are keyed by joined paths).
func ruleSEP(w *core.World, r *core.Report) {
	r.Rule("SEP", 6, "every strings.Join(<instance path>, sep) (and PathSlice.String(), which joins with '/') in pkg/tree and pkg/datastore whose result is used as a map key, set key or in a prefix test must use the separator constant \"\\x00\": list key values are arbitrary YANG strings (RFC 7950 9.4 excludes only C0 controls), so any printable separator makes two different instance paths produce the same key. Joins of key-less schema paths are exempt (node names cannot contain '/').")
	for _, f := range w.RepoFns {
		if f.Pkg == nil {
			continue
		}
		pp := core.PkgPath(f)
		if !(strings.HasPrefix(pp, core.Module+"/pkg/tree") || strings.HasPrefix(pp, core.Module+"/pkg/datastore")) || strings.Contains(pp, "/target") {
			continue
		}
		n := 0
		for _, c := range core.OwnCalls(f) {
			var joined ssa.Value
			var sepOK bool
			var sepDesc string
			switch {
			case core.CalleeIs(c, "strings.Join"):
				args := core.CallArgs(c)
				if len(args) != 2 || !isInstancePath(args[0]) {
					continue
				}
				s, isC := core.ConstString(args[1])
				if !isC {
					// a local variable holding a constant
					for _, o := range core.Origins(args[1]) {
						if cs, ok := core.ConstString(o); ok {
							s, isC = cs, true
						}
					}
				}
				sepOK = isC && s == nulSep
				sepDesc = fmt.Sprintf("%q", s)
				joined = c.Value()
			case core.CalleeIs(c, "tree.PathSlice.String"):
				joined = c.Value()
				sepOK = false
				sepDesc = "\"/\" (PathSlice.String)"
			default:
				continue
			}
			if joined == nil {
				continue
			}
			mapKey, prefix, _ := keyUses(joined)
			if !mapKey && !prefix {
				continue // rendering for logs / error messages
			}
			n++
			r.Check(sepOK, "SEP", core.Site(f, "join#%d used as key", n), w.InstrPos(c), "instance path joined with "+sepDesc+" and used as a map key / in a prefix test: distinct paths can collide")
		}
	}
	// the constant itself
	if tp := w.Pkg("pkg/tree"); tp != nil {
		if cst, ok := tp.Members["KeysIndexSep"].(*ssa.NamedConst); ok {
			s, _ := core.ConstString(cst.Value)
			r.Check(s == nulSep, "SEP", "tree.KeysIndexSep", w.Pos(cst.Pos()), fmt.Sprintf("the index separator must be NUL, is %q", s))
		} else {
			w.NoteUnresolved("const tree.KeysIndexSep")
		}
	}

}

// rulePathFresh (C11, C08): the path of an entry is built per call, never handed out of a field of the entry.
func rulePathFresh(w *core.World, r *core.Report) {
	for _, name := range []string{"SdcpbPathInternal", "SdcpbPath"} {
		f := w.Func("pkg/tree", "sharedEntryAttributes", name)
		if f == nil {
			continue
		}
		bad := ""
		sl := core.ReturnSlice(f, 0)
		for v := range sl.Values {
			u, ok := v.(*ssa.UnOp)
			if !ok || u.Op != token.MUL {
				continue
			}
			fa, ok := u.X.(*ssa.FieldAddr)
			if !ok {
				continue
			}
			fk := core.FieldKey(fa)
			if strings.HasPrefix(fk, "tree.") && strings.Contains(u.Type().String(), "sdcpb.Path") {
				bad = fk
			}
		}
		r.Check(bad == "", "PATH-FRESH", core.Site(f, "path elements are built per call"), w.Pos(f.Pos()), "the returned path is made of elements kept in "+bad)
	}
}
