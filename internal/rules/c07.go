package rules

import (
	"fmt"
	"go/types"
	"os"
	"sort"
	"strings"

	"golang.org/x/tools/go/ssa"

	"verif/internal/core"
)

func init() { Registry["C07"] = c07 }

// collaborator interfaces: errors from these are faults of device, cache or schema service.
var collaboratorTypes = map[string]bool{
	"cache.Client":            true,
	"datastore/target.Target": true,
	"schema.Client":           true,
	"datastore/clients/schema.SchemaClientBound":     true,
	"datastore/clients/schema.SchemaClientBoundImpl": true,
	"tree.TreeCacheClient":                           true,
	"tree.TreeCacheClientImpl":                       true,
	"utils.SchemaClientBound":                        true,
	"datastore/target/netconf.Driver":                true,
}

// frozen exceptions of COLLAB-ERRORS: callee key -> reason
var collabErrorExceptions = map[string]string{
	"tree.TreeCacheClient.RefreshCaches":     "a failed refresh leaves the index nil; every reader re-refreshes lazily when it finds the index nil, so one transient fault is absorbed (confirmed by reading tree_cache_client.go)",
	"tree.TreeCacheClientImpl.RefreshCaches": "same: lazy re-refresh on nil index",
	// site-specific exceptions: "<function> -> <callee>"
	"datastore.validateLeafTypeValue -> datastore.validateLeafTypeValue":                                     "union: the member types are tried in turn, the failure of one alternative is not an error; after the loop a non-nil error is returned",
	"utils.ConvertUnion -> utils.Convert":                                                                    "union: alternatives are tried in turn",
	"utils.convertStringToTv -> utils.convertStringToTv":                                                     "union / leafref: alternatives are tried in turn",
	"utils.ConvertJsonValueToTv -> utils.ConvertJsonValueToTv":                                               "union: alternatives are tried in turn",
	"datastore/target.ncTarget.setCandidate -> datastore/target.ncTarget.Close":                              "dead-connection branch: the connection is torn down and the original error is returned",
	"datastore/target.ncTarget.setRunning -> datastore/target.ncTarget.Close":                                "dead-connection branch: the connection is torn down and the original error is returned",
	"datastore/types.Transaction.GetRollbackTransaction -> datastore/types.Transaction.AddTransactionIntent": "the only error is a duplicate intent name; the source is a map keyed by name and the target transaction is fresh",
	"<timer callback> -> datastore/types.TransactionManager.Rollback":                                        "timer callback: there is no caller to report to (a failed automatic rollback is outside the single-fault hypothesis of C07; noted as residual)",
	"<guard cleanup> -> datastore/types.TransactionManager.CleanupTransaction":                               "guard cleanup: the only error is 'no such transaction', i.e. it is already gone",
	"tree.LeafVariants.highestIsUnequalRunning -> cache.Update.Value":                                        "an undecodable value yields nil, which compares unequal, so the value is (re)sent: the safe side",
	"tree.RootEntry.Validate -> types.ValidationResults.AddEntry":                                            "AddEntry has no failing path (always returns nil)",
	"tree.sharedEntryAttributes.Navigate -> tree.sharedEntryAttributes.tryLoading":                           "deliberate fallback: when the running store has no value the default is tried next and its error is returned",
	"tree.sharedEntryAttributes.validateLeafRefs -> tree.sharedEntryAttributes.SdcpbPath":                    "path only used to render the error message",
}

// roleFns: functions identified by what they are used for rather than by name - the function values handed to
// NewTransactionCancelTimer (timer callback) and to NewTransactionGuard (guard cleanup).
func roleFns(w *core.World) map[*ssa.Function]string {
	out := map[*ssa.Function]string{}
	for _, f := range w.RepoFns {
		for _, c := range core.OwnCalls(f) {
			role, idx := "", -1
			switch core.CalleeKey(c) {
			case "datastore/types.NewTransactionCancelTimer":
				role, idx = "<timer callback>", 1
			case "datastore/types.NewTransactionGuard":
				role, idx = "<guard cleanup>", 0
			}
			if role == "" {
				continue
			}
			_ = idx
			// the function-typed argument, whatever its position
			for _, a := range c.Common().Args {
				if _, isFn := a.Type().Underlying().(*types.Signature); !isFn {
					continue
				}
				tg, _ := w.FuncTargets(a)
				for _, t := range tg {
					out[t] = role
				}
			}
		}
	}
	return out
}

var roleFnCache map[*ssa.Function]string
var roleFnWorld *core.World

// siteException looks a '<function> -> <callee>' exception up: by the function's own key, by its role, or - for code
// moved into an unexported helper - by the key of every function the helper is (virtually) inlined into.
func siteException(w *core.World, f *ssa.Function, callee string, scope map[*ssa.Function]bool) (string, bool) {
	if reason, ok := collabErrorExceptions[core.FuncKey(f)+" -> "+callee]; ok {
		return reason, true
	}
	if roleFnWorld != w {
		roleFnCache, roleFnWorld = roleFns(w), w
	}
	if role, ok := roleFnCache[f]; ok {
		if reason, ok := collabErrorExceptions[role+" -> "+callee]; ok {
			return reason, true
		}
	}
	if f.Parent() != nil {
		// a closure: the exception of the function it is written in
		top := f
		for top.Parent() != nil {
			top = top.Parent()
		}
		if reason, ok := collabErrorExceptions[core.FuncKey(top)+" -> "+callee]; ok {
			return reason + " (in a closure of that function)", true
		}
	}
	if core.IsInlined(f) {
		reason := ""
		for _, h := range core.Roots(f) {
			if scope != nil && !scope[h] {
				continue // the helper is shared with a function the rule does not judge
			}
			r2, ok := collabErrorExceptions[core.FuncKey(h)+" -> "+callee]
			if !ok {
				if role, isRole := roleFnCache[h]; isRole {
					r2, ok = collabErrorExceptions[role+" -> "+callee]
				}
			}
			if !ok {
				return "", false
			}
			reason = r2
		}
		if reason != "" {
			return reason + " (in a helper of that function)", true
		}
	}
	return "", false
}

// isRepoCallee: the callee is a function or method (or interface method) declared in the repository.
func isRepoCallee(c ssa.CallInstruction) bool {
	cc := c.Common()
	if cc.IsInvoke() {
		return cc.Method.Pkg() != nil && strings.HasPrefix(cc.Method.Pkg().Path(), core.Module)
	}
	if f := cc.StaticCallee(); f != nil && f.Pkg != nil {
		return strings.HasPrefix(core.PkgPath(f), core.Module)
	}
	return false
}

func callReturnsError(c ssa.CallInstruction) (idx int, ok bool) {
	sig := c.Common().Signature()
	if sig == nil {
		return 0, false
	}
	res := sig.Results()
	for i := res.Len() - 1; i >= 0; i-- {
		if isErrorType(res.At(i).Type()) {
			return i, true
		}
	}
	return 0, false
}

func recvTypeKeyOfCall(c ssa.CallInstruction) string {
	cc := c.Common()
	if cc.IsInvoke() {
		return core.TypeKey(cc.Value.Type())
	}
	if f := cc.StaticCallee(); f != nil && f.Signature.Recv() != nil {
		return core.TypeKey(f.Signature.Recv().Type())
	}
	return ""
}

// errValueOf returns the SSA value holding the error result of call c (nil when unused).
func errValueOf(c ssa.CallInstruction, idx int) ssa.Value {
	v := c.Value()
	if v == nil {
		return nil
	}
	if _, isTuple := v.Type().(*types.Tuple); !isTuple {
		return v
	}
	for _, ref := range *v.Referrers() {
		if ex, ok := ref.(*ssa.Extract); ok && ex.Index == idx {
			return ex
		}
	}
	return nil
}

// errorDiscipline classifies how fn treats the error of call c:
// "propagated" (tested and the failure edge cannot reach a success return, or returned directly),
// "swallowed" (tested, but a nil-error return is reachable from the failure edge),
// "ignored" (never tested nor returned).
// errorDiscipline judges call c inside fn. The judgement itself is intra-procedural (helper calls are opaque); when c
// sits in a helper that is virtually inlined into fn and the helper hands the error on to its caller, the helper's
// call sites inside fn are judged in turn.
func errorDiscipline(w *core.World, fn *ssa.Function, c ssa.CallInstruction) (string, string) {
	g := c.Parent()
	var verdict, detail string
	sites := core.InlineSites(g)
	core.WithoutInlining(func() { verdict, detail = errorDisciplineLocal(w, g, c) })
	if g != fn && verdict == "propagated" {
		for _, s := range sites {
			if !core.InBody(fn, s.Parent()) {
				continue
			}
			if v2, d2 := errorDiscipline(w, fn, s); v2 != "propagated" && v2 != "n/a" {
				return v2, "via " + core.FuncKey(g) + ": " + d2
			}
		}
	}
	return verdict, detail
}

// helperMayReturnNil: the returned error e is the result of a repository helper (a clean-up that "returns what went
// wrong") that can return the nil constant although it was handed the failure: one of its returns carries the nil
// constant and is not confined to the 'parameter == nil' outcome of a test of the parameter the failure is passed as.
// The failure of the collaborator is then replaced by the outcome of the clean-up: success when the clean-up worked.
func helperMayReturnNil(e ssa.Value, failure ssa.Value) bool {
	var c *ssa.Call
	switch x := e.(type) {
	case *ssa.Call:
		c = x
	case *ssa.Extract:
		c, _ = x.Tuple.(*ssa.Call)
	}
	if c == nil {
		return false
	}
	g := c.Call.StaticCallee()
	if g == nil || g.Blocks == nil || g.Pkg == nil || !strings.HasPrefix(core.PkgPath(g), core.Module) {
		return false
	}
	// the parameters the failure is passed as
	passed := map[*ssa.Parameter]bool{}
	args := c.Call.Args
	for i, a := range args {
		if i < len(g.Params) && (a == failure || core.HasOrigin(a, failure)) {
			passed[g.Params[i]] = true
		}
	}
	if len(passed) == 0 {
		return false // not a helper that is given the failure: its result is judged by the other rules
	}
	for _, ret := range core.Returns(g) {
		ge := errorOperand(ret)
		if ge == nil || !core.IsNilConst(ge) {
			continue
		}
		confined := false
		for _, gd := range core.GuardsOf(ret) {
			x, nilOnTrue, ok := core.NilTest(gd.If.Cond)
			if !ok {
				continue
			}
			if p, isP := x.(*ssa.Parameter); isP && passed[p] && gd.CondTrue() == nilOnTrue {
				confined = true
			}
		}
		if !confined {
			return true
		}
	}
	return false
}

func errorDisciplineLocal(w *core.World, fn *ssa.Function, c ssa.CallInstruction) (string, string) {
	idx, ok := callReturnsError(c)
	if !ok {
		return "n/a", ""
	}
	ev := errValueOf(c, idx)
	if ev == nil || ev.Referrers() == nil || len(*ev.Referrers()) == 0 {
		return "ignored", "error result is discarded"
	}
	cc, _ := c.(*ssa.Call)
	tested := false
	verdict := "propagated"
	detail := ""
	for _, i := range core.Ifs(fn) {
		v, nilOnTrue, isNil := core.NilTest(i.Cond)
		if !isNil || !isErrorType(v.Type()) {
			continue
		}
		hit := false
		for _, oc := range core.OriginCalls(v) {
			if oc == cc {
				hit = true
			}
		}
		if !hit {
			continue
		}
		tested = true
		succ := 0
		if nilOnTrue {
			succ = 1
		}
		fail := i.Block().Succs[succ]
		// can a success return be reached from the failure edge?
		reach, tr := core.PathQuery{}.Reaches(fail, 0, func(in ssa.Instruction) bool {
			ret, isRet := in.(*ssa.Return)
			if !isRet {
				return false
			}
			e := errorOperand(ret)
			if e == nil {
				return false // function without error result: handled by caller of this helper
			}
			return core.IsNilConst(e) || !mayBeNonNil(w, e, 0) || helperMayReturnNil(e, v)
		})
		if reach {
			verdict = "swallowed"
			detail = fmt.Sprintf("a return with a nil error is reachable from the err!=nil edge (blocks %v)", tr)
		}
	}
	if !tested {
		// stored into a struct field that a getter called in a return statement reads back (memo entry idiom)?
		type fieldStore struct {
			at ssa.Instruction
			fk string
		}
		var stores []fieldStore
		for _, ref := range *ev.Referrers() {
			if st, isStore := ref.(*ssa.Store); isStore {
				if fk := core.FieldOf(st.Addr); fk != "" {
					stores = append(stores, fieldStore{st, fk})
				}
			}
			// handed to a setter of the repository that stores that parameter into a field
			if sc, isCall := ref.(*ssa.Call); isCall {
				if g := sc.Call.StaticCallee(); g != nil && g.Blocks != nil {
					for ai, a := range sc.Call.Args {
						if a != ev || ai >= len(g.Params) {
							continue
						}
						for _, b := range g.Blocks {
							for _, in := range b.Instrs {
								if st, ok := in.(*ssa.Store); ok && st.Val == ssa.Value(g.Params[ai]) {
									if fk := core.FieldOf(st.Addr); fk != "" {
										stores = append(stores, fieldStore{sc, fk})
									}
								}
							}
						}
					}
				}
			}
		}
		for _, fs := range stores {
			st, fk := fs.at, fs.fk
			for _, ret := range core.Returns(fn) {
				if e := errorOperand(ret); e != nil && core.CanFollow(st, ret) {
					if core.FieldOf(e) == fk {
						return "propagated", "stored in " + fk + " and returned from there"
					}
					for _, oc := range core.OriginCalls(e) {
						if g := oc.Common().StaticCallee(); g != nil && g.Blocks != nil {
							for _, gret := range core.Returns(g) {
								if ge := errorOperand(gret); ge != nil && core.FieldOf(ge) == fk {
									return "propagated", "stored in " + fk + " and returned through " + core.FuncKey(g)
								}
							}
						}
					}
				}
			}
		}
		// returned directly?
		for _, ret := range core.Returns(fn) {
			if e := errorOperand(ret); e != nil {
				for _, oc := range core.OriginCalls(e) {
					if oc == cc {
						return "propagated", "returned directly"
					}
				}
			}
		}
		// passed on to a channel / logger only
		return "ignored", "error result is never tested nor returned"
	}
	return verdict, detail
}

func c07(w *core.World, r *core.Report) {
	low := w.Func("pkg/datastore", "Datastore", "lowlevelTransactionSet")
	rep := w.Func("pkg/datastore", "Datastore", "replaceIntent")
	txset := w.Func("pkg/datastore", "Datastore", "TransactionSet")
	apply := w.Func("pkg/datastore", "Datastore", "applyIntent")
	retrieve := w.Func("pkg/datastore/clients/schema", "SchemaClientBoundImpl", "Retrieve")
	if low == nil || rep == nil || txset == nil || apply == nil || retrieve == nil {
		return
	}

	// ---- APPLY-BEFORE-PERSIST
	r.Rule("APPLY-BEFORE-PERSIST", 4, "in lowlevelTransactionSet and replaceIntent every cache.Client.Modify executes only on the err==nil outcome of that function's applyIntent call; Modify(CONFIG) never precedes a Modify(INTENDED); applyIntent returns a nil error only on the err==nil outcome of target.Set. Decides: a device failure cannot be followed by a store write in these functions.")
	for _, f := range []*ssa.Function{low, rep} {
		aps := core.CallsTo(f, kApplyIntent)
		if len(aps) != 1 {
			r.Undecided("APPLY-BEFORE-PERSIST", core.Site(f, "applyIntent"), w.Pos(f.Pos()), fmt.Sprintf("expected one applyIntent call, found %d", len(aps)))
			continue
		}
		for i, m := range core.CallsTo(f, kModify) {
			okm := false
			core.WithHost(f, func() { okm = core.GuardedByErrNil(m, aps[0].(*ssa.Call)) })
			r.Check(okm, "APPLY-BEFORE-PERSIST", core.Site(f, "Modify#%d after apply ok", i), w.InstrPos(m), "store write must be reachable only when the device accepted the change")
		}
	}
	{
		// order INTENDED before CONFIG in lowlevel
		var intended, config []ssa.CallInstruction
		for _, m := range core.CallsTo(low, kModify) {
			switch modifyStore(m) {
			case "INTENDED":
				intended = append(intended, m)
			case "CONFIG":
				config = append(config, m)
			}
		}
		for _, c := range config {
			bad := false
			for _, i := range intended {
				if core.CanFollow(c, i) {
					bad = true
				}
			}
			r.Check(!bad, "APPLY-BEFORE-PERSIST", core.Site(low, "Modify(CONFIG) after Modify(INTENDED)"), w.InstrPos(c), "the running mirror is written last (order of effects: device, intended store, running mirror)")
		}
		// applyIntent success only after Set ok
		sets := core.CallsTo(apply, kTargetSet)
		if len(sets) != 1 {
			r.Undecided("APPLY-BEFORE-PERSIST", core.Site(apply, "target.Set"), w.Pos(apply.Pos()), fmt.Sprintf("expected one target.Set call, found %d", len(sets)))
		} else {
			for _, ret := range core.Returns(apply) {
				e := errorOperand(ret)
				if e != nil && core.IsNilConst(e) {
					r.Check(core.GuardedByErrNil(ret, sets[0].(*ssa.Call)), "APPLY-BEFORE-PERSIST", core.Site(apply, "success return"), w.InstrPos(ret), "applyIntent may report success only when target.Set returned no error")
				}
			}
		}
	}

	// ---- MEMO-SUCCESS-ONLY
	r.Rule("MEMO-SUCCESS-ONLY", 2, "in SchemaClientBoundImpl.Retrieve the memo flag schemaIndexEntry.ready becomes true only when GetSchema returned err==nil (store guarded by the nil outcome, or the stored value is the nil test itself), and the memoised answer is returned only when ready. Decides: a transient schema-service failure is not remembered, so the retry can succeed.")
	{
		gets := core.CallsTo(retrieve, "schema.Client.GetSchema")
		if len(gets) != 1 {
			r.Undecided("MEMO-SUCCESS-ONLY", core.Site(retrieve, "GetSchema"), w.Pos(retrieve.Pos()), fmt.Sprintf("expected one schema.Client.GetSchema call, found %d", len(gets)))
		} else {
			g := gets[0].(*ssa.Call)
			stores := core.StoresToField(retrieve, "datastore/clients/schema.schemaIndexEntry.ready")
			for _, st := range stores {
				ok := false
				if b, isConst := core.ConstBool(st.Val); isConst {
					ok = !b || core.GuardedByErrNil(st, g)
				} else if x, nilOnTrue, isNil := core.NilTest(st.Val); isNil && nilOnTrue {
					for _, oc := range core.OriginCalls(x) {
						if oc == g {
							ok = true
						}
					}
				}
				r.Check(ok, "MEMO-SUCCESS-ONLY", core.Site(retrieve, "store ready"), w.InstrPos(st), "ready=true only for a successful GetSchema answer")
			}
			// the flag written by a setter of the entry that is not part of Retrieve (an exported-named method):
			// the stored value is 'err == nil' of the parameter that Retrieve hands GetSchema's error to
			for _, f := range w.RepoFns {
				if f == retrieve || f.Blocks == nil || f.Parent() != nil || core.InBody(retrieve, f) || core.PkgPath(f) != core.PkgPath(retrieve) {
					continue
				}
				for _, st := range core.StoresToField(f, "datastore/clients/schema.schemaIndexEntry.ready") {
					if st.Parent() != f {
						continue
					}
					stores = append(stores, st)
					ok := false
					if b, isConst := core.ConstBool(st.Val); isConst && !b {
						ok = true
					} else if x, nilOnTrue, isNil := core.NilTest(st.Val); isNil && nilOnTrue {
						if p, isP := x.(*ssa.Parameter); isP && p.Parent() == f {
							idx := -1
							for i, q := range f.Params {
								if q == p {
									idx = i
								}
							}
							nSites, good := 0, true
							for _, c := range core.Calls(retrieve) {
								if c.Common().StaticCallee() != f || idx < 0 || idx >= len(c.Common().Args) {
									continue
								}
								nSites++
								fromGet := false
								for _, oc := range core.OriginCalls(c.Common().Args[idx]) {
									if oc == g {
										fromGet = true
									}
								}
								if !fromGet {
									good = false
								}
							}
							ok = nSites > 0 && good
						}
					}
					r.Check(ok, "MEMO-SUCCESS-ONLY", core.Site(f, "store ready"), w.InstrPos(st), "ready=true only for a successful GetSchema answer: the setter must store 'err == nil' of the error Retrieve got from GetSchema (an answer that is an error - unknown schema while the server reloads, Internal, ResourceExhausted - is not final)")
				}
			}
			if len(stores) == 0 {
				r.Info("MEMO-SUCCESS-ONLY", core.Site(retrieve, "store ready"), w.Pos(retrieve.Pos()), "no memoisation flag is written")
			}
			// a return before the GetSchema call must be guarded by a load of ready==true
			for _, ret := range core.EffectiveReturns(retrieve) {
				if core.InstrBefore(g, ret) {
					continue
				}
				ok := false
				for _, a := range core.GuardAtoms(ret) {
					if !a.True {
						continue
					}
					for _, o := range append(core.Origins(a.Cond), a.Cond) {
						if core.FieldOf(o) == "datastore/clients/schema.schemaIndexEntry.ready" {
							ok = true // directly, or through an accessor of the entry
						}
					}
				}
				r.Check(ok, "MEMO-SUCCESS-ONLY", core.Site(retrieve, "memoised return"), w.InstrPos(ret), "the memoised answer is used only when the entry is ready")
			}
		}
	}

	// ---- MEMO-SUCCESS-ONLY, part 2: no once-only execution of a collaborator call
	{
		collab := []string{"schema.Client.GetSchema", kModify, kTargetSet, "cache.Client.Read", "cache.Client.ReadCh", "cache.Client.GetKeys"}
		cgm := w.CG()
		n := 0
		for _, f := range w.RepoFns {
			if strings.Contains(core.FuncKey(f), "mocks/") {
				continue
			}
			for _, c := range core.OwnCallsTo(f, "sync.Once.Do") {
				n++
				args := core.CallArgs(c)
				bad := ""
				if len(args) == 1 {
					tgts, _ := w.FuncTargets(args[0])
					reach := cgm.Reachable(func(e core.Edge) bool { return e.Kind == "ref" }, tgts...)
					for g := range reach {
						for _, cc := range core.Calls(g) {
							if core.CalleeIs(cc, collab...) {
								bad = core.FuncKey(g) + " calls " + core.CalleeKey(cc)
							}
						}
					}
				}
				r.Check(bad == "", "MEMO-SUCCESS-ONLY", core.Site(f, "sync.Once.Do"), w.InstrPos(c), "a collaborator call executed under sync.Once is memoised whatever its outcome: a transient failure is remembered for the life of the datastore ("+bad+")")
			}
		}
		r.Extra["once_do_sites"] = n
	}

	// ---- COLLAB-ERRORS
	r.Rule("COLLAB-ERRORS", 200, "error discipline on the transaction path: in every repository function reachable from Server.TransactionSet / Datastore.TransactionSet / TransactionRollback (call graph without function-value creation edges), each call that returns an error and whose callee is declared in the repository or is a method of a collaborator interface (cache.Client, target.Target, schema client, tree cache client, netconf driver) has that error tested or returned, and in functions with an error result no return with a nil error is reachable from the err!=nil edge. Frozen exceptions are keyed by '<function> -> <callee>' with a reason. Decides: a fault on this path cannot be turned into success by dropping or swallowing its error.")
	cg := w.CG()
	rb := w.Func("pkg/datastore", "DatastoreRollbackAdapter", "TransactionRollback")
	srvTx := w.Func("pkg/server", "Server", "TransactionSet")
	scope := cg.Reachable(func(e core.Edge) bool { return e.Kind == "ref" || e.Kind == "dynamic-sig" }, txset, rb, srvTx)
	nScope := 0
	for _, f := range w.RepoFns {
		if !scope[f] || f.Pkg == nil {
			continue
		}
		pp := core.PkgPath(f)
		if !(strings.HasPrefix(pp, core.Module+"/pkg/datastore") || strings.HasPrefix(pp, core.Module+"/pkg/tree") || strings.HasPrefix(pp, core.Module+"/pkg/utils") || strings.HasPrefix(pp, core.Module+"/pkg/cache")) {
			continue
		}
		nScope++
		hasErrResult := false
		if res := f.Signature.Results(); res != nil {
			for i := 0; i < res.Len(); i++ {
				if isErrorType(res.At(i).Type()) {
					hasErrResult = true
				}
			}
		}
		seenKey := map[string]int{}
		for _, c := range core.OwnCalls(f) {
			if _, isGo := c.(*ssa.Go); isGo {
				continue
			}
			rt := recvTypeKeyOfCall(c)
			if !collaboratorTypes[rt] && !isRepoCallee(c) && os.Getenv("DSCHECK_ALLERR") == "" {
				continue
			}
			if _, ok := callReturnsError(c); !ok {
				continue
			}
			key := core.CalleeKey(c)
			seenKey[key]++
			site := core.Site(f, "call %s#%d", key, seenKey[key])
			if reason, ok := siteException(w, f, key, scope); ok {
				r.Info("COLLAB-ERRORS", site, w.InstrPos(c), "frozen exception: "+reason)
				continue
			}
			if reason, ok := collabErrorExceptions[key]; ok {
				r.Info("COLLAB-ERRORS", site, w.InstrPos(c), "frozen exception: "+reason)
				continue
			}
			if _, isDefer := c.(*ssa.Defer); isDefer {
				r.Info("COLLAB-ERRORS", site, w.InstrPos(c), "deferred cleanup call; its error cannot influence the result")
				continue
			}
			verdict, detail := errorDiscipline(w, f, c)
			if !hasErrResult {
				// the function cannot propagate; the error must at least be tested (turned into a validation result / log)
				if verdict == "ignored" {
					r.Viol("COLLAB-ERRORS", site, w.InstrPos(c), "collaborator error ignored in a function that cannot return it: "+detail)
				} else {
					r.OK("COLLAB-ERRORS", site, w.InstrPos(c), "tested; function has no error result (reports through other means)")
				}
				continue
			}
			r.Check(verdict == "propagated", "COLLAB-ERRORS", site, w.InstrPos(c), fmt.Sprintf("collaborator error must be propagated: %s %s", verdict, detail))
		}
	}
	r.Extra["collab_scope_functions"] = nScope

	// ---- RELEASE-ON-ERROR (shared with C06)
	r.Rule("TRYLOCK-PAIR", 3, "(shared with C06) TryLock paired with deferred Unlock on every path: the datastore is unlocked on every error return.")
	ruleTryLockPair(w, r)

	// ---- CLEANUP-ALWAYS (shared with C06)
	r.Rule("CLEANUP-ALWAYS", 2, "TransactionManager.GetTransaction and CleanupTransaction fail only with 'no open transaction' or 'another id' (every return with a non-nil error is on the nil outcome of a test of the slot, on the unequal outcome of transactionId vs id, or hands on GetTransaction's error): the guard cleanup that unregisters a transaction after a failed apply discards their error, so any other refusal keeps the datastore locked and a retry can never converge.")
	ruleCleanupOnlyIdFailures(w, r, "CLEANUP-ALWAYS")
}

// modifyStore returns the constant Store of the Opts literal passed to a Modify call ("CONFIG", "INTENDED", ... or "?").
func modifyStore(m ssa.CallInstruction) string {
	args := core.CallArgs(m)
	if len(args) < 3 {
		return "?"
	}
	opts := args[2]
	al, ok := opts.(*ssa.Alloc)
	if !ok {
		for _, o := range core.Origins(opts) {
			if a, ok := o.(*ssa.Alloc); ok {
				al = a
			}
		}
	}
	if al == nil {
		// built by a constructor (cache.NewOpts(store, ...))
		if v, _ := optsField(m, "Store"); v != nil {
			if n, isC := core.ConstInt(v); isC {
				switch n {
				case 0:
					return "CONFIG"
				case 1:
					return "STATE"
				case 2:
					return "INTENDED"
				case 3:
					return "INTENTS"
				}
			}
			return "dynamic"
		}
		return "?"
	}
	for _, ref := range *al.Referrers() {
		fa, ok := ref.(*ssa.FieldAddr)
		if !ok || core.FieldKey(fa) != "cache.Opts.Store" {
			continue
		}
		for _, r2 := range *fa.Referrers() {
			if st, ok := r2.(*ssa.Store); ok {
				if c, ok := st.Val.(*ssa.Const); ok {
					switch c.Int64() {
					case 0:
						return "CONFIG"
					case 1:
						return "STATE"
					case 2:
						return "INTENDED"
					case 3:
						return "INTENTS"
					}
				}
				return "dynamic"
			}
		}
	}
	return "CONFIG" // zero value of the enum
}

// timerCallbacks: the functions handed to NewTransactionCancelTimer as the expiry callback (a method value such as
// t.rollback, a closure, or a method of a small struct) - found by use, not by name.
func timerCallbacks(w *core.World) []*ssa.Function {
	var out []*ssa.Function
	for f, role := range roleFns(w) {
		if role == "<timer callback>" {
			out = append(out, f)
		}
	}
	sort.Slice(out, func(i, j int) bool { return core.FuncKey(out[i]) < core.FuncKey(out[j]) })
	return out
}
