package rules

import (
	"fmt"
	"go/constant"
	"go/token"
	"go/types"
	"strings"

	"golang.org/x/tools/go/ssa"

	"verif/internal/core"
)

// ---------------------------------------------------------------------------
// CONSULTS: a decision function must depend on a frozen set of inputs.
// ---------------------------------------------------------------------------

// consult is one required input of a decision: the result of a call to one of
// Calls (or a load of Field) must be in the backward slice (data + control
// dependence) of what the function returns / of the named sink.
type consult struct {
	Calls  []string
	Field  string
	Why    string
	Direct bool // the input must be consulted by the function itself, not by a callee
}

// consultsInReturn checks that every consult is in the backward slice of fn's results,
// following repository callees up to depth 2 (a helper that consults it on the caller's behalf counts).
func consultsInReturn(w *core.World, r *core.Report, rule string, fn *ssa.Function, reqs []consult) {
	if fn == nil {
		return
	}
	sl := core.ReturnSlice(fn, -1)
	for _, c := range reqs {
		name := c.Field
		if len(c.Calls) > 0 {
			name = c.Calls[0]
		}
		site := core.Site(fn, "depends on %s", name)
		ok := sliceConsults(w, sl, c, 2)
		r.Check(ok, rule, site, w.Pos(fn.Pos()), "the result must depend on this input: "+c.Why)
	}
}

func sliceConsults(w *core.World, sl *core.Slice, c consult, depth int) bool {
	if len(c.Calls) > 0 && sl.HasCallTo(c.Calls...) {
		return true
	}
	if c.Field != "" && sl.HasFieldLoad(c.Field) {
		return true
	}
	if depth == 0 {
		return false
	}
	for v := range sl.Values {
		call, ok := v.(*ssa.Call)
		if !ok {
			continue
		}
		g := call.Common().StaticCallee()
		if g == nil || g.Blocks == nil || g.Pkg == nil || !strings.HasPrefix(core.PkgPath(g), core.Module) || g == sl.Fn {
			continue
		}
		if sliceConsults(w, core.ReturnSlice(g, -1), c, depth-1) {
			return true
		}
	}
	return false
}

// ---------------------------------------------------------------------------
// ORIENT: minimum selections ("numerically lowest priority wins").
// ---------------------------------------------------------------------------

// checkMinSelection verifies, for every ordered comparison in fn whose outcome
// selects the value that flows into a loop-carried accumulator (phi), that the
// value taken on each outcome is the SMALLER operand.
// Returns the number of comparisons that were found to select something.
func checkMinSelection(w *core.World, r *core.Report, rule string, fn *ssa.Function) int {
	n := 0
	if fn == nil {
		return 0
	}
	// the builtin forms of the selection: acc = min(acc, x) keeps the lower priority, max(...) the higher one
	for _, c := range core.Calls(fn) {
		bi, ok := c.Common().Value.(*ssa.Builtin)
		if !ok || (bi.Name() != "min" && bi.Name() != "max") || c.Value() == nil {
			continue
		}
		// it is a selection when its result feeds an accumulator (a phi of a loop) or is returned
		feeds := false
		for _, ref := range *c.Value().Referrers() {
			switch ref.(type) {
			case *ssa.Phi, *ssa.Return, *ssa.Store:
				feeds = true
			}
		}
		if !feeds {
			continue
		}
		n++
		r.Check(bi.Name() == "min", rule, core.Site(fn, "selection by builtin %s", bi.Name()), w.InstrPos(c), "precedence selection must keep the numerically LOWER priority (builtin "+bi.Name()+")")
	}
	for _, iff := range core.Ifs(fn) {
		v, neg := core.StripNot(iff.Cond)
		bo, ok := v.(*ssa.BinOp)
		if !ok {
			continue
		}
		var smallOnTrue ssa.Value // operand that is the smaller one when the comparison holds
		var other ssa.Value
		switch bo.Op {
		case token.LSS, token.LEQ:
			smallOnTrue, other = bo.X, bo.Y
		case token.GTR, token.GEQ:
			smallOnTrue, other = bo.Y, bo.X
		default:
			continue
		}
		if neg {
			smallOnTrue, other = other, smallOnTrue
		}
		// which entity does each operand stand for: go/ssa does no CSE, so "x.value" read twice gives two values;
		// operands and selected values are therefore compared by entity keys (field@base, call@receiver, value).
		smallC, otherC := entityKeys(smallOnTrue), entityKeys(other)
		in := func(set map[string]bool, v ssa.Value) bool {
			for k := range entityKeys(v) {
				if set[k] {
					return true
				}
			}
			return false
		}
		// phis fed from the true / false successor regions
		for si := 0; si < 2; si++ {
			succ := iff.Block().Succs[si]
			for _, b := range core.Blocks(fn) {
				for _, instr := range b.Instrs {
					phi, ok := instr.(*ssa.Phi)
					if !ok {
						break
					}
					// a runner-up accumulator (it receives the displaced value of another accumulator of the same loop,
					// "secondHighest = highest") legitimately keeps larger values: only primary accumulators are checked
					runnerUp := false
					for _, e := range phi.Edges {
						if p2, isPhi := e.(*ssa.Phi); isPhi && p2 != phi && p2.Block() == b {
							runnerUp = true
						}
					}
					if runnerUp {
						continue
					}
					for pi, pred := range b.Preds {
						if pi >= len(phi.Edges) {
							continue
						}
						// edge comes from the region entered through succ: pred == succ or pred only reachable via that edge
						if pred != succ && !(len(pred.Instrs) > 0 && core.OnlyViaEdge(pred.Instrs[0], iff.Block(), si)) {
							continue
						}
						if pred == iff.Block() {
							continue
						}
						val := phi.Edges[pi]
						if val == ssa.Value(phi) || phi.Comment == "rangeindex" {
							continue // keeping the accumulator is always fine; loop counters are not selections
						}
						takesSmall := in(smallC, val) && !in(otherC, val)
						takesOther := in(otherC, val) && !in(smallC, val)
						if !takesSmall && !takesOther {
							continue
						}
						n++
						site := core.Site(fn, "selection %s", phi.Comment)
						holds := si == 0 // comparison holds on the true edge
						good := (holds && takesSmall) || (!holds && takesOther)
						if !good {
							// runner-up accumulator: it receives the DISPLACED previous value of a primary accumulator that,
							// on this very edge, takes the smaller operand (secondHighest = highest; highest = e)
							if p2, isPhi := val.(*ssa.Phi); isPhi && p2.Block() == b && pi < len(p2.Edges) {
								v2 := p2.Edges[pi]
								small2 := in(smallC, v2) && !in(otherC, v2)
								other2 := in(otherC, v2) && !in(smallC, v2)
								if (holds && small2) || (!holds && other2) {
									good = true
								}
							}
						}
						r.Check(good, rule, site, w.InstrPos(iff), fmt.Sprintf("precedence selection must keep the numerically LOWER priority (comparison %s, outcome %v selects %s)", bo.Op, holds, val.Name()))
					}
				}
			}
		}
	}
	return n
}

// ---------------------------------------------------------------------------
// ordering helpers
// ---------------------------------------------------------------------------

// firstCall returns the first call (in block order) to one of keys in fn.
func firstCall(fn *ssa.Function, keys ...string) ssa.CallInstruction {
	cs := core.CallsTo(fn, keys...)
	if len(cs) == 0 {
		return nil
	}
	return cs[0]
}

// checkOrder: every path to `later` passes `earlier` (dominance), reported under rule/site.
func checkOrder(w *core.World, r *core.Report, rule string, fn *ssa.Function, earlier, later ssa.Instruction, what string) {
	if earlier == nil || later == nil {
		r.Viol(rule, core.Site(fn, "%s", what), w.Pos(fn.Pos()), "a pipeline stage is missing: "+what)
		return
	}
	r.Check(core.InstrBefore(earlier, later), rule, core.Site(fn, "%s", what), w.InstrPos(later), "pipeline order violated: "+what)
}

// optsField returns the value stored into field `name` of the cache.Opts literal passed to call c (nil = field not set).
func optsField(c ssa.CallInstruction, name string) (ssa.Value, *ssa.Alloc) {
	var al *ssa.Alloc
	var site *ssa.Call // the Opts value is built by a (virtually inlined) helper called right here
	for _, a := range c.Common().Args {
		if core.TypeKey(a.Type()) != "cache.Opts" {
			continue
		}
		if x, ok := a.(*ssa.Alloc); ok {
			al = x
		} else {
			if sc, ok := a.(*ssa.Call); ok && core.InlinedCallee(sc) != nil {
				site = sc
			}
			for _, o := range core.Origins(a) {
				if x, ok := o.(*ssa.Alloc); ok {
					al = x
				}
			}
		}
	}
	if al == nil {
		// built by a constructor of another package, possibly with functional options:
		// cache.NewOpts(store, cache.WithOwner(owner, prio))
		for _, a := range c.Common().Args {
			if core.TypeKey(a.Type()) != "cache.Opts" {
				continue
			}
			for _, o := range append(core.Origins(a), a) {
				if cc, ok := o.(*ssa.Call); ok {
					if v := optsFieldViaConstructor(cc, name, 0); v != nil {
						return v, nil
					}
				}
			}
		}
		return nil, nil
	}
	for _, ref := range *al.Referrers() {
		fa, ok := ref.(*ssa.FieldAddr)
		if !ok || core.FieldKey(fa) != "cache.Opts."+name {
			continue
		}
		for _, r2 := range *fa.Referrers() {
			if st, ok := r2.(*ssa.Store); ok {
				// a parameter of the helper stands for the argument at THIS call of the helper
				if p, isP := st.Val.(*ssa.Parameter); isP && site != nil && p.Parent() == core.InlinedCallee(site) {
					for i, q := range p.Parent().Params {
						if q == p && i < len(site.Call.Args) {
							return site.Call.Args[i], al
						}
					}
				}
				return st.Val, al
			}
		}
	}
	return nil, al
}

// entityKeys names what a value stands for, robust against repeated evaluation of the same expression.
func entityKeys(v ssa.Value) map[string]bool {
	out := map[string]bool{}
	name := func(x ssa.Value) string {
		if x == nil {
			return "?"
		}
		if x.Parent() != nil {
			return x.Name() + "@" + x.Parent().Name()
		}
		return x.Name()
	}
	add := func(x ssa.Value) {
		out["val:"+name(x)] = true
		if fk := core.FieldOf(x); fk != "" {
			if _, isAddr := x.(*ssa.FieldAddr); !isAddr {
				base := core.FieldBase(x)
				out["field:"+fk+"@"+name(base)] = true
			}
		}
		if c, ok := x.(*ssa.Call); ok {
			if rv := core.CallRecv(c); rv != nil {
				out["call:"+core.CalleeKey(c)+"@"+name(rv)] = true
				out["val:"+name(rv)] = true // the carrier itself (e.g. `highest = e` after comparing e.Priority())
				if b := core.FieldBase(rv); b != nil {
					out["val:"+name(b)] = true // promoted method through an embedded field: e.Update.Priority()
				}
			} else if cc := c.Common(); !cc.IsInvoke() && cc.StaticCallee() == nil {
				// an accessor handed in as a function value (valueOf(v) in a generic helper): the same function value
				// applied to the same arguments stands for the same entity
				if _, isB := cc.Value.(*ssa.Builtin); !isB {
					k := "dyn:" + name(cc.Value) + "("
					for _, a := range cc.Args {
						k += name(a) + ","
					}
					out[k+")"] = true
				}
			}
		}
	}
	add(v)
	// shallow resolution only (no phi, no memory): conversions and tuple extraction
	cur := v
	for i := 0; i < 4; i++ {
		switch x := cur.(type) {
		case *ssa.Convert:
			cur = x.X
		case *ssa.ChangeType:
			cur = x.X
		default:
			i = 4
			continue
		}
		add(cur)
	}
	return out
}

// optsFieldViaConstructor: call cc of a repository function that builds and returns a cache.Opts; the value that ends
// up in field `name`, expressed in terms of the values at the call site: a parameter of the constructor stored into
// the field, or - functional options - a field set by the closure that one of the variadic option arguments
// (cache.WithOwner(owner, prio)) returns, with that option constructor's parameters bound to its arguments.
func optsFieldViaConstructor(cc *ssa.Call, name string, depth int) ssa.Value {
	g := cc.Call.StaticCallee()
	if g == nil || g.Blocks == nil || depth > 2 {
		return nil
	}
	argOf := func(fn *ssa.Function, call *ssa.Call, v ssa.Value) ssa.Value {
		if p, ok := v.(*ssa.Parameter); ok && p.Parent() == fn {
			for i, q := range fn.Params {
				if q == p && i < len(call.Call.Args) {
					return call.Call.Args[i]
				}
			}
		}
		return v
	}
	var found ssa.Value
	core.WithoutInlining(func() {
		// 1. stored by the constructor itself
		for _, b := range g.Blocks {
			for _, in := range b.Instrs {
				st, ok := in.(*ssa.Store)
				if !ok {
					continue
				}
				if fa, ok := st.Addr.(*ssa.FieldAddr); ok && core.FieldKey(fa) == "cache.Opts."+name {
					found = argOf(g, cc, st.Val)
				}
			}
		}
		if found != nil {
			return
		}
		// 2. set by one of the options handed in
		if !g.Signature.Variadic() || len(cc.Call.Args) == 0 {
			return
		}
		variadic := cc.Call.Args[len(cc.Call.Args)-1]
		for _, el := range sliceLiteralElems(variadic) {
			oc, ok := el.(*ssa.Call)
			if !ok {
				continue
			}
			og := oc.Call.StaticCallee()
			if og == nil || og.Blocks == nil {
				continue
			}
			for _, ret := range core.Returns(og) {
				for _, rv := range core.ReturnValues(ret) {
					if ct, isCT := rv.(*ssa.ChangeType); isCT {
						rv = ct.X // func literal converted to the named option type
					}
					mc, ok := rv.(*ssa.MakeClosure)
					if !ok {
						continue
					}
					k, _ := mc.Fn.(*ssa.Function)
					if k == nil {
						continue
					}
					for _, b := range k.Blocks {
						for _, in := range b.Instrs {
							st, ok := in.(*ssa.Store)
							if !ok {
								continue
							}
							fa, ok := st.Addr.(*ssa.FieldAddr)
							if !ok || core.FieldKey(fa) != "cache.Opts."+name {
								continue
							}
							val := st.Val
							// a captured variable of the closure: what the option constructor bound it to
							for _, o := range append(core.Origins(val), val) {
								if fv, ok := o.(*ssa.FreeVar); ok {
									for i, x := range k.FreeVars {
										if x == fv && i < len(mc.Bindings) {
											val = mc.Bindings[i]
										}
									}
								}
								if u, ok := o.(*ssa.UnOp); ok {
									if fv, ok := u.X.(*ssa.FreeVar); ok {
										for i, x := range k.FreeVars {
											if x == fv && i < len(mc.Bindings) {
												// captured by reference: the value stored into the captured variable
												if al, ok := mc.Bindings[i].(*ssa.Alloc); ok {
													for _, ref := range *al.Referrers() {
														if s2, ok := ref.(*ssa.Store); ok && s2.Addr == ssa.Value(al) {
															val = s2.Val
														}
													}
												}
											}
										}
									}
								}
							}
							found = argOf(og, oc, val)
						}
					}
				}
			}
		}
	})
	return found
}

// sliceLiteralElems: the elements of a slice built in place (the variadic argument list of a call).
func sliceLiteralElems(v ssa.Value) []ssa.Value {
	sl, ok := v.(*ssa.Slice)
	if !ok {
		return nil
	}
	al, ok := sl.X.(*ssa.Alloc)
	if !ok {
		return nil
	}
	var out []ssa.Value
	for _, ref := range *al.Referrers() {
		if ia, ok := ref.(*ssa.IndexAddr); ok {
			for _, r2 := range *ia.Referrers() {
				if st, ok := r2.(*ssa.Store); ok && st.Addr == ssa.Value(ia) {
					out = append(out, st.Val)
				}
			}
		}
	}
	return out
}

// flagParam: a parameter that carries the dry-run decision: the bool itself (Dry == nil), or a value of a small typed
// constant set into which a converter of the repository encoded the bool (Dry: the constant that stands for "dry run").
type flagParam struct {
	P   *ssa.Parameter
	Dry *ssa.Const
}

func sameConst(a, b *ssa.Const) bool {
	if a == nil || b == nil || a.Value == nil || b.Value == nil {
		return false
	}
	return types.Identical(a.Type(), b.Type()) && constant.Compare(a.Value, token.EQL, b.Value)
}

// encodesBool: a is the result of a call of a repository converter 'func(b bool) T' whose returns are constants
// selected by b, and the converter is handed (a value that comes from) p. Returns the constant for b == true.
func encodesBool(a ssa.Value, p *ssa.Parameter) *ssa.Const {
	var tc *ssa.Const
	core.WithoutInlining(func() {
		c, ok := a.(*ssa.Call)
		if !ok {
			return
		}
		g := c.Call.StaticCallee()
		if g == nil || g.Blocks == nil || len(g.Params) != 1 || len(c.Call.Args) != 1 || !strings.HasPrefix(core.PkgPath(g), core.Module) {
			return
		}
		if bt, isB := g.Params[0].Type().Underlying().(*types.Basic); !isB || bt.Kind() != types.Bool {
			return
		}
		if c.Call.Args[0] != ssa.Value(p) && !core.HasOrigin(c.Call.Args[0], p) {
			return
		}
		var onTrue, onFalse *ssa.Const
		for _, ret := range core.Returns(g) {
			if len(ret.Results) != 1 {
				return
			}
			k, isC := ret.Results[0].(*ssa.Const)
			if !isC {
				return
			}
			confined := false
			for _, gd := range core.GuardsOf(ret) {
				v, neg := core.StripNot(gd.If.Cond)
				if v != ssa.Value(g.Params[0]) {
					continue
				}
				confined = true
				if gd.CondTrue() != neg {
					onTrue = k
				} else {
					onFalse = k
				}
			}
			if !confined {
				// the fall-through return: the other outcome
				if onFalse == nil {
					onFalse = k
				} else if onTrue == nil {
					onTrue = k
				}
			}
		}
		if onTrue != nil && onFalse != nil && !sameConst(onTrue, onFalse) {
			tc = onTrue
		}
	})
	return tc
}

var dryFlagMemo = map[*ssa.Function]*flagParam{}

// dryFlagOf: the parameter of f that carries the dry-run decision of the transaction: a bool parameter named dryRun,
// or the parameter that every... some caller hands its own dry-run flag to, as it is or encoded by a converter.
func dryFlagOf(w *core.World, f *ssa.Function, depth int) *flagParam {
	if f == nil {
		return nil
	}
	if fp, ok := dryFlagMemo[f]; ok {
		return fp
	}
	dryFlagMemo[f] = nil
	if p := core.Param(f, "dryRun"); p != nil {
		if bt, isB := p.Type().Underlying().(*types.Basic); isB && bt.Kind() == types.Bool {
			dryFlagMemo[f] = &flagParam{P: p}
			return dryFlagMemo[f]
		}
	}
	if depth > 3 {
		return nil
	}
	for _, g := range w.RepoFns {
		for _, c := range core.OwnCalls(g) {
			if c.Common().StaticCallee() != f {
				continue
			}
			top := g
			for top.Parent() != nil {
				top = top.Parent()
			}
			fg := dryFlagOf(w, top, depth+1)
			if fg == nil {
				continue
			}
			for i, a := range c.Common().Args {
				if i >= len(f.Params) {
					continue
				}
				if fg.Dry == nil {
					if tc := encodesBool(a, fg.P); tc != nil {
						dryFlagMemo[f] = &flagParam{P: f.Params[i], Dry: tc}
						return dryFlagMemo[f]
					}
				}
				if a == ssa.Value(fg.P) || core.HasOrigin(a, fg.P) {
					dryFlagMemo[f] = &flagParam{P: f.Params[i], Dry: fg.Dry}
					return dryFlagMemo[f]
				}
			}
		}
	}
	return nil
}

// isTest: cond tests the flag; dryOnTrue tells whether its true outcome means "dry run".
func (fp *flagParam) isTest(cond ssa.Value) (ok, dryOnTrue bool) {
	if fp == nil {
		return false, false
	}
	v, neg := core.StripNot(cond)
	if fp.Dry == nil {
		if v == ssa.Value(fp.P) || core.HasOrigin(v, fp.P) {
			return true, !neg
		}
		return false, false
	}
	a, b, eqOnTrue, isEq := core.EqTest(cond)
	if !isEq {
		return false, false
	}
	for _, pair := range [][2]ssa.Value{{a, b}, {b, a}} {
		k, isC := pair[1].(*ssa.Const)
		if !isC || !sameConst(k, fp.Dry) {
			continue
		}
		if pair[0] == ssa.Value(fp.P) || core.HasOrigin(pair[0], fp.P) {
			return true, eqOnTrue
		}
	}
	return false, false
}

// guarded: x executes only when "dry run" has the value want.
func (fp *flagParam) guarded(x ssa.Instruction, want bool) bool {
	if fp == nil {
		return false
	}
	if fp.Dry == nil {
		return core.GuardedByValue(x, fp.P, want)
	}
	for _, a := range core.GuardAtoms(x) {
		if ok, dryOnTrue := fp.isTest(a.Cond); ok && (dryOnTrue == a.True) == want {
			return true
		}
	}
	return false
}
