package rules

import (
	"fmt"
	"go/token"
	"go/types"
	"sort"
	"strings"

	"golang.org/x/tools/go/ssa"

	"verif/internal/core"
)

func init() { Registry["C17"] = c17 }

var c17Table = map[string]guardSpec{
	"tree.childMap.c":                                     {"tree.childMap.mu", "children are added lazily (defaults, running values) while siblings are validated"},
	"tree.LeafVariants.les":                               {"tree.LeafVariants.lesMutex", "variants are added lazily while validators read them"},
	"tree.LeafEntry.IsNew":                                {"tree.LeafEntry.mu", "flags"},
	"tree.LeafEntry.Delete":                               {"tree.LeafEntry.mu", "flags"},
	"tree.LeafEntry.DeleteOnlyIntended":                   {"tree.LeafEntry.mu", "flags"},
	"tree.LeafEntry.IsUpdated":                            {"tree.LeafEntry.mu", "flags"},
	"tree.sharedEntryAttributes.cacheShouldDelete":        {"tree.sharedEntryAttributes.cacheMutex", "memoised verdicts"},
	"tree.sharedEntryAttributes.cacheCanDelete":           {"tree.sharedEntryAttributes.cacheMutex", "memoised verdicts"},
	"tree.sharedEntryAttributes.cacheRemains":             {"tree.sharedEntryAttributes.cacheMutex", "memoised verdicts"},
	"tree.TreeCacheClientImpl.intendedStoreIndex":         {"tree.TreeCacheClientImpl.intendedStoreIndexMutex", "lazily refreshed index"},
	"tree.TreeCacheClientImpl.runningStoreIndex":          {"tree.TreeCacheClientImpl.runningStoreIndexMutex", "lazily refreshed index"},
	"datastore/clients/schema.schemaIndexEntry.schemaRsp": {"datastore/clients/schema.schemaIndexEntry.mu", "memoised schema answers"},
	"datastore/clients/schema.schemaIndexEntry.err":       {"datastore/clients/schema.schemaIndexEntry.mu", "memoised schema answers"},
	"datastore/clients/schema.schemaIndexEntry.ready":     {"datastore/clients/schema.schemaIndexEntry.mu", "memoised schema answers"},
	"types.ValidationResultIntent.errors":                 {"types.ValidationResultIntent.errorsMutex", "collected verdicts"},
	"types.ValidationResultIntent.warnings":               {"types.ValidationResultIntent.warningsMutex", "collected verdicts"},
}

// frozen exceptions "<function>/<read|write> <field>" -> reason
var c17Exceptions = map[string]string{
	"tree.LeafVariants.containsOtherOwnerThenDefaultOrRunning/read tree.LeafVariants.les":                    "not reachable from Validate on today's tree (dead helper); listed so that a new caller shows up",
	"datastore/clients/schema.schemaIndexEntry.Get/read datastore/clients/schema.schemaIndexEntry.schemaRsp": "only called from Retrieve with entry.mu held (held-at-entry is lost through the value receiver of Get)",
	"datastore/clients/schema.schemaIndexEntry.Get/read datastore/clients/schema.schemaIndexEntry.err":       "same",
	"types.ValidationResults.HasErrors/read types.ValidationResultIntent.errors":                             "called after RootEntry.Validate returned, i.e. after the collector drained the closed channel (happens-before through the channel close)",
	"types.ValidationResults.HasWarnings/read types.ValidationResultIntent.warnings":                         "same",
	"types.ValidationResultIntent.String/read types.ValidationResultIntent.errors":                           "debug rendering after validation",
	"types.ValidationResultIntent.String/read types.ValidationResultIntent.warnings":                         "debug rendering after validation",
}

func c17(w *core.World, r *core.Report) {
	validate := w.Func("pkg/tree", "sharedEntryAttributes", "Validate")
	rootValidate := w.Func("pkg/tree", "RootEntry", "Validate")
	if validate == nil || rootValidate == nil {
		return
	}
	cg := w.CG()
	scope := cg.Reachable(func(e core.Edge) bool { return e.Kind == "ref" || e.Kind == "dynamic-sig" }, validate)
	lw := w.Locks(nil)

	// ---- LEAFREF-PATH-FRESH (shared with C04)
	r.Rule("LEAFREF-PATH-FRESH", 1, "(shared with C04) objects that validation mutates in place are not shared between the validation goroutines: the parsed leafref path (resolved key predicates are written into it) is kept in no field of tree-wide or process-wide state.")
	ruleLeafrefPathFresh(w, r, "LEAFREF-PATH-FRESH")

	// ---- GUARDED-BY
	r.Rule("GUARDED-BY", 40, "guarded-by table of the shared tree state (children map, leaf variants, leaf flags, memoised verdicts, store indexes, schema memo, collected verdicts): every read/write of a listed field in a function reachable from the concurrent validation (sharedEntryAttributes.Validate) happens with the listed mutex of the same object held (must-lockset within the function + locks held by all callers); objects under construction are exempt; frozen exceptions carry a reason. Decides: no unsynchronised access to this state in the concurrent phase as far as locksets can tell; it is not a race detector for anything outside the table.")
	inScope := func(f *ssa.Function) bool { return scope[f] }
	guardedBy(w, r, lw, "GUARDED-BY", c17Table, inScope, c17Exceptions)
	r.Extra["validate_scope_functions"] = len(scope)

	// ---- JOIN
	r.Rule("JOIN", 5, "fork/join structure of the validation: in sharedEntryAttributes.Validate wg.Wait() is deferred before any goroutine is started, wg.Add(1) precedes every spawn, the spawned closure calls wg.Done() on every path after validating; RootEntry.Validate closes the result channel only after the validation returned (close follows the Validate call in the same goroutine) and the collector ranges over the channel until it is closed.")
	{
		var wait ssa.CallInstruction
		for _, c := range core.CallsTo(validate, "sync.WaitGroup.Wait") {
			if _, isDefer := c.(*ssa.Defer); isDefer {
				wait = c
			}
		}
		r.Check(wait != nil, "JOIN", core.Site(validate, "defer wg.Wait()"), w.Pos(validate.Pos()), "Validate must not return before its children finished")
		for _, c := range core.Calls(validate) {
			g, isGo := c.(*ssa.Go)
			if !isGo {
				continue
			}
			if wait != nil {
				r.Check(core.InstrBefore(wait, g), "JOIN", core.Site(validate, "Wait deferred before spawn"), w.InstrPos(g), "the join must be registered first")
			}
			added := false
			for _, a := range core.CallsTo(validate, "sync.WaitGroup.Add") {
				if core.InstrBefore(a, g) && core.OnCycle(a) {
					added = true
				}
			}
			r.Check(added, "JOIN", core.Site(validate, "Add(1) per spawn"), w.InstrPos(g), "one Add per goroutine, in the same loop iteration")
		}
		for _, a := range validate.AnonFuncs {
			dones := core.CallsTo(a, "sync.WaitGroup.Done")
			ok := len(dones) > 0
			for _, ret := range core.Returns(a) {
				hit := false
				for _, d := range dones {
					if core.InstrBefore(d, ret) {
						hit = true
					}
				}
				if !hit {
					ok = false
				}
			}
			r.Check(ok, "JOIN", core.Site(a, "Done on every exit"), w.Pos(a.Pos()), "a child that does not signal completion blocks the parent forever")
			for _, d := range dones {
				for _, v := range core.CallsTo(a, "tree.Entry.Validate") {
					if _, isDefer := d.(*ssa.Defer); !isDefer {
						r.Check(core.InstrBefore(v, d), "JOIN", core.Site(a, "Done after the child validated"), w.InstrPos(d), "signalling completion before validating lets the parent return early")
					}
				}
			}
		}
		// RootEntry.Validate: close after validate in the producer goroutine; collector ranges until close
		for _, a := range rootValidate.AnonFuncs {
			var cl, val ssa.CallInstruction
			for _, c := range core.Calls(a) {
				if bi, ok := c.Common().Value.(*ssa.Builtin); ok && bi.Name() == "close" {
					cl = c
				}
				if _, isCall := c.(*ssa.Call); isCall && core.CalleeIs(c, "tree.sharedEntryAttributes.Validate") {
					val = c
				}
			}
			r.Check(cl != nil && val != nil && core.InstrBefore(val, cl), "JOIN", core.Site(a, "close after Validate returned"), w.Pos(a.Pos()), "closing earlier loses verdicts (send on closed channel panics)")
		}
		collects := false
		for _, b := range core.Blocks(rootValidate) {
			for _, in := range b.Instrs {
				if u, ok := in.(*ssa.UnOp); ok && u.Op.String() == "<-" && u.CommaOk && core.OnCycle(u) {
					collects = true
				}
			}
		}
		r.Check(collects, "JOIN", core.Site(rootValidate, "collector ranges until close"), w.Pos(rootValidate.Pos()), "the collector must drain the channel until it is closed")
	}

	// ---- NO-REENTRANT-RLOCK
	r.Rule("NO-REENTRANT-RLOCK", 3, "no RWMutex of the tree is read-locked again by a synchronous callee on the same receiver while already held in the validation scope (a writer queued in between deadlocks both): LeafVariants.GetHighestPrecedence re-enters lesMutex only through shouldDelete()/highestIsUnequalRunning(), which execute only when onlyNewOrUpdated is true; every call in the validation scope passes the constant false.")
	{
		ghp := w.Func("pkg/tree", "LeafVariants", "GetHighestPrecedence")
		if ghp != nil {
			p := core.Param(ghp, "onlyNewOrUpdated")
			for _, c := range core.Calls(ghp) {
				callee := c.Common().StaticCallee()
				if callee == nil || !lw.AcqTrans[callee]["tree.LeafVariants.lesMutex"] {
					continue
				}
				if !core.SameObject(core.CallRecv(c), ghp.Params[0]) {
					continue
				}
				r.Check(p != nil && core.GuardedByValue(c, p, true), "NO-REENTRANT-RLOCK", core.Site(ghp, "re-entrant call %s only when onlyNewOrUpdated", core.CalleeKey(c)), w.InstrPos(c), "a callee that locks lesMutex again on the same object may only run in the single-threaded diff phase")
			}
			n := 0
			for f := range scope {
				if f.Blocks == nil {
					continue
				}
				for _, c := range core.OwnCallsTo(f, kLVGHP) {
					a := core.CallArgs(c)
					b, isC := constBoolInScope(w, scope, a[0], 2)
					n++
					r.Check(isC && !b, "NO-REENTRANT-RLOCK", core.Site(f, "GetHighestPrecedence(onlyNewOrUpdated=false) in validation scope"), w.InstrPos(c), "in the concurrent phase the re-entrant branch must be unreachable")
				}
			}
			r.Extra["ghp_calls_in_scope"] = n
		}
		// any other self edge L -> L on the same receiver in scope
		edges := lw.LockOrderEdges()
		var self []string
		for l, ms := range edges {
			if !strings.HasPrefix(l, "tree.") {
				continue
			}
			for _, m := range ms {
				if strings.SplitN(m, " @ ", 2)[0] == l {
					self = append(self, l+" -> "+m)
				}
			}
		}
		sort.Strings(self)
		r.Extra["same_class_lock_edges"] = self
	}

	// ---- SNAPSHOT
	// ---- LAZY-LOAD-COMPLETE
	r.Rule("LAZY-LOAD-COMPLETE", 2, "the lazily loaded key indexes answer the same to every validator: in each method of TreeCacheClientImpl that finds intendedStoreIndex / runningStoreIndex nil, every path from that outcome to the next read of the index (or to a return) runs TreeCacheClientImpl.RefreshCaches, which fills the index under its write lock. A shortcut for 'somebody else is refreshing already' (TryLock, a flag) lets a concurrent validator read a nil index as 'path does not exist' while the sequential run waits for the load.")
	indexType := "map[string]" + core.Module + "/pkg/tree.UpdateSlice"
	for _, f := range w.RepoFns {
		if f.Signature == nil || f.Signature.Recv() == nil || core.TypeKey(f.Signature.Recv().Type()) != "tree.TreeCacheClientImpl" || core.IsInlined(f) {
			continue
		}
		core.WithHost(f, func() {
			for _, iff := range core.Ifs(f) {
				x, nilOnTrue, ok := core.NilTest(iff.Cond)
				if !ok {
					continue
				}
				// an index: a value of the type of the two index fields (map[string]UpdateSlice) - the field itself, the
				// field of a sub-struct the indexes were moved into, or what a pointer handed to a shared helper points to
				fk := core.FieldOf(x)
				if fk != "tree.TreeCacheClientImpl.intendedStoreIndex" && fk != "tree.TreeCacheClientImpl.runningStoreIndex" && x.Type().String() != indexType {
					continue
				}
				if _, isLoad := x.(*ssa.UnOp); !isLoad {
					continue
				}
				nilSucc := iff.Block().Succs[1]
				if nilOnTrue {
					nilSucc = iff.Block().Succs[0]
				}
				reach, _ := core.PathQuery{Root: f, Avoid: func(in ssa.Instruction) bool {
					c, isCall := in.(ssa.CallInstruction)
					return isCall && core.CalleeIs(c, "tree.TreeCacheClientImpl.RefreshCaches")
				}}.Reaches(nilSucc, 0, func(in ssa.Instruction) bool {
					if core.IsExit(in) {
						return true
					}
					v, isVal := in.(*ssa.UnOp)
					if !isVal || ssa.Value(v) == x || v.Op != token.MUL {
						return false
					}
					if fk != "" {
						return core.FieldOf(v) == fk
					}
					return v.Type().String() == indexType
				})
				r.Check(!reach, "LAZY-LOAD-COMPLETE", core.Site(f, "index found nil is refreshed before it is read"), w.InstrPos(iff), "a path from the 'index is nil' outcome reaches the next read of the index (or a return) without RefreshCaches: under concurrency that validator answers from an index that is not loaded")
			}
		})
	}

	// ---- INDEX-PUBLISHED-COMPLETE
	// the struct types an index can live in: the cache client and the named structs among its field types
	indexOwners := map[string]bool{"tree.TreeCacheClientImpl": true}
	if nt := w.NamedType("pkg/tree", "TreeCacheClientImpl"); nt != nil {
		if st, ok := nt.Underlying().(*types.Struct); ok {
			for i := 0; i < st.NumFields(); i++ {
				ft := st.Field(i).Type()
				if pt, isPtr := ft.(*types.Pointer); isPtr {
					ft = pt.Elem()
				}
				if n, isNamed := ft.(*types.Named); isNamed {
					if _, isStruct := n.Underlying().(*types.Struct); isStruct && n.Obj().Pkg() != nil && strings.HasPrefix(n.Obj().Pkg().Path(), core.Module) {
						indexOwners[core.TypeKey(n)] = true
					}
				}
			}
		}
	}
	r.Rule("INDEX-PUBLISHED-COMPLETE", 0, "the readers of the lazily loaded key indexes only test them for nil, so an index is published (assigned to intendedStoreIndex / runningStoreIndex, directly or through a pointer handed to a helper) only when it is complete: no element is added to the assigned map after the assignment. An index that is visible while it is still being filled answers 'does not exist' to a concurrent validator and 'exists' to the sequential run.")
	for _, f := range w.RepoFns {
		if f.Pkg == nil || core.PkgPath(f) != core.Module+"/pkg/tree" {
			continue
		}
		for _, b := range f.Blocks {
			for _, in := range b.Instrs {
				st, ok := in.(*ssa.Store)
				if !ok || st.Val.Type().String() != indexType || core.IsNilConst(st.Val) {
					continue
				}
				switch a := st.Addr.(type) {
				case *ssa.FieldAddr:
					// a field of the cache client, or of a sub-struct the cache client holds its indexes in
					owner := a.X.Type()
					if pt, isPtr := owner.Underlying().(*types.Pointer); isPtr {
						owner = pt.Elem()
					}
					if !indexOwners[core.TypeKey(owner)] {
						continue
					}
				case *ssa.Alloc:
					continue // a local variable of the map type, not the index
				default:
					// through a pointer to the index (a parameter of a helper that is handed &c.index, possibly captured)
				}
				late := false
				for _, b2 := range f.Blocks {
					for _, in2 := range b2.Instrs {
						mu, ok := in2.(*ssa.MapUpdate)
						if !ok || !(mu.Map == st.Val || core.SameObject(mu.Map, st.Val)) {
							continue
						}
						if core.CanFollow(st, mu) {
							late = true
						}
					}
				}
				r.Check(!late, "INDEX-PUBLISHED-COMPLETE", core.Site(f, "index assigned when complete"), w.InstrPos(st), "the map is still filled after it was made visible as the index: a reader that finds it non-nil answers from a partial index")
			}
		}
	}

	r.Rule("SNAPSHOT", 2, "childMap.GetAll and childMap.GetKeys hand out copies made under the read lock (the returned map / slice is allocated in the function), never the live map: traversals iterate a snapshot while lazy loads add children.")
	for _, n := range []string{"GetAll", "GetKeys"} {
		f := w.Func("pkg/tree", "childMap", n)
		if f == nil {
			continue
		}
		ok := true
		for _, ret := range core.Returns(f) {
			for _, v := range core.ReturnValues(ret) {
				fresh := false
				for _, o := range append(core.Origins(v), v) {
					switch o.(type) {
					case *ssa.MakeMap, *ssa.MakeSlice:
						fresh = true
					}
					if c, isC := o.(*ssa.Call); isC {
						if bi, isB := c.Common().Value.(*ssa.Builtin); isB && bi.Name() == "append" {
							fresh = true
						}
						if k := core.CalleeKey(c); k == "maps.Clone" || k == "slices.Clone" || k == "slices.Collect" || k == "slices.Sorted" || k == "slices.AppendSeq" {
							fresh = true // the standard library's copy
						}
					}
					if core.FieldOf(o) == "tree.childMap.c" {
						if _, isMap := o.Type().Underlying().(*types.Map); isMap {
							ok = false
						}
					}
				}
				if !fresh {
					ok = false
				}
			}
		}
		r.Check(ok, "SNAPSHOT", core.Site(f, "returns a copy"), w.Pos(f.Pos()), "handing out the live children map lets traversals race with (and depend on the timing of) lazy insertion")
	}

	// ---- MAP-ORDER-NAV (shared with C11)
	r.Rule("NO-GLOBAL-STATE", 1, "(shared with C04) the concurrently running validators share no package-level variable of the repository other than ones assigned only by the package initialiser and of an immutable type: a process-wide cache or shared parsed object written by one validator goroutine and read by another makes the verdict depend on the schedule.")
	ruleNoGlobalState(w, r, "NO-GLOBAL-STATE", validate)

	r.Rule("MAP-ORDER", 3, "(shared with C11) no verdict-relevant navigation depends on Go map iteration order.")
	mapOrder(w, r)
	_ = fmt.Sprintf
}

// constBoolInScope: v is a boolean constant, or a parameter for which every call site inside scope passes the same constant (followed up to depth levels).
func constBoolInScope(w *core.World, scope map[*ssa.Function]bool, v ssa.Value, depth int) (bool, bool) {
	if b, ok := core.ConstBool(v); ok {
		return b, true
	}
	p, isParam := v.(*ssa.Parameter)
	if !isParam || depth == 0 {
		return false, false
	}
	fn := p.Parent()
	idx := -1
	for i, q := range fn.Params {
		if q == p {
			idx = i
		}
	}
	have, val, n := false, false, 0
	for _, e := range w.CG().In[fn] {
		if e.Kind == "ref" || e.Kind == "dynamic-sig" || !scope[e.Caller] {
			continue
		}
		c, ok := e.Site.(ssa.CallInstruction)
		if !ok {
			continue
		}
		args := c.Common().Args
		ai := idx
		if c.Common().IsInvoke() {
			ai = idx - 1
		}
		if ai < 0 || ai >= len(args) {
			return false, false
		}
		if args[ai] == ssa.Value(p) {
			continue // recursion forwarding the parameter itself
		}
		b, isC := constBoolInScope(w, scope, args[ai], depth-1)
		if !isC {
			return false, false
		}
		if have && b != val {
			return false, false
		}
		have, val = true, b
		n++
	}
	return val, have && n > 0
}
