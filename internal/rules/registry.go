// Package rules holds the rule instances per property: tables naming this
// repository's own symbols plus the glue that turns them into obligations.
package rules

import (
	"verif/internal/core"
)

// Registry maps a property id to its rule set.
var Registry = map[string]func(w *core.World, r *core.Report){}

// Keys of symbols used by several properties.
const (
	kApplyIntent   = "datastore.Datastore.applyIntent"
	kLowlevel      = "datastore.Datastore.lowlevelTransactionSet"
	kReplaceIntent = "datastore.Datastore.replaceIntent"
	kTxSet         = "datastore.Datastore.TransactionSet"
	kModify        = "cache.Client.Modify"
	kTargetSet     = "datastore/target.Target.Set"
	kHasErrors     = "types.ValidationResults.HasErrors"
)

// Thorough runs the extra work of the thorough tier (build variants, self-validation).
func Thorough(prop string, w *core.World, r *core.Report, verifDir string, selfcheck bool) {
	thorough(prop, w, r, verifDir, selfcheck)
}
