package rules

import (
	"go/token"
	"go/types"
	"sort"
	"strings"

	"golang.org/x/tools/go/ssa"

	"verif/internal/core"
)

// sharedBacking reports whether the slice value v may share its backing array with state that outlives the
// function: a struct field, a package-level variable, or the result of a repository function that returns such a
// slice (depth-limited). Slices made locally (make, append to nil / to a local, composite literals), results of
// library functions and parameters are not reported.
func sharedBacking(w *core.World, v ssa.Value, depth int, seen map[ssa.Value]bool) (bool, string) {
	for _, o := range core.Origins(v) {
		if seen[o] {
			continue
		}
		seen[o] = true
		switch x := o.(type) {
		case *ssa.UnOp:
			if x.Op != token.MUL {
				continue
			}
			switch a := x.X.(type) {
			case *ssa.FieldAddr:
				return true, "field " + core.FieldKey(a)
			case *ssa.Global:
				return true, "package variable " + a.Name()
			}
		case *ssa.Field:
			return true, "field " + core.FieldKeyVal(x)
		case *ssa.Slice:
			if b, why := sharedBacking(w, x.X, depth, seen); b {
				return true, why
			}
		case *ssa.Call:
			if bi, ok := x.Call.Value.(*ssa.Builtin); ok {
				if bi.Name() == "append" && len(x.Call.Args) > 0 {
					// append may write into (and return) the backing array of its first operand
					if b, why := sharedBacking(w, x.Call.Args[0], depth, seen); b {
						return true, why
					}
				}
				continue
			}
			if depth <= 0 {
				continue
			}
			var callees []*ssa.Function
			if f := x.Call.StaticCallee(); f != nil {
				callees = append(callees, f)
			} else if x.Call.IsInvoke() {
				for _, e := range w.CG().Out[x.Parent()] {
					if e.Site == ssa.Instruction(x) && e.Kind != "ref" {
						callees = append(callees, e.Callee)
					}
				}
			}
			for _, f := range callees {
				if f.Blocks == nil || f.Pkg == nil || !strings.HasPrefix(f.Pkg.Pkg.Path(), core.Module) || strings.Contains(f.Pkg.Pkg.Path(), "/mocks/") {
					continue
				}
				for _, ret := range core.Returns(f) {
					for _, rv := range core.ReturnValues(ret) {
						if !isSliceType(rv) {
							continue
						}
						if b, why := sharedBacking(w, rv, depth-1, seen); b {
							return true, "result of " + core.FuncKey(f) + " (" + why + ")"
						}
					}
				}
			}
		}
	}
	return false, ""
}

func isSliceType(v ssa.Value) bool {
	t := v.Type().Underlying().String()
	return strings.HasPrefix(t, "[]")
}

var inPlaceSorters = []string{"sort.Strings", "sort.Ints", "sort.Slice", "sort.SliceStable", "sort.Sort", "sort.Stable", "slices.Sort", "slices.SortFunc", "slices.SortStableFunc", "slices.Reverse"}

var sortSharedExceptions = map[string]string{
	"utils.XmlRecursiveSortElementsByTagName": "sorting the children of the XML document it is given is this function's purpose (used to compare documents)",
}

// ruleSortShared: in-place sorting (or reversing) of a slice whose backing array is shared state changes what
// every other holder of that state sees — e.g. the schema key names in key-statement order.
func ruleSortShared(w *core.World, r *core.Report, rule string, pkgs ...string) int {
	n := 0
	for _, f := range w.RepoFns {
		if f.Pkg == nil {
			continue
		}
		in := false
		for _, p := range pkgs {
			if f.Pkg.Pkg.Path() == core.Module+"/"+p {
				in = true
			}
		}
		if !in {
			continue
		}
		for _, c := range core.Calls(f) {
			k := core.CalleeKey(c)
			hit := false
			for _, s := range inPlaceSorters {
				if k == s {
					hit = true
				}
			}
			if !hit || len(c.Common().Args) == 0 {
				continue
			}
			n++
			shared, why := sharedBacking(w, c.Common().Args[0], 3, map[ssa.Value]bool{})
			if reason, ok := sortSharedExceptions[core.FuncKey(f)]; ok && shared {
				r.OK(rule, core.Site(f, "%s#%d sorts a private slice", k, nth(f, c, k)), w.InstrPos(c), "frozen exception: "+reason)
				continue
			}
			if !shared {
				r.OK(rule, core.Site(f, "%s#%d sorts a private slice", k, nth(f, c, k)), w.InstrPos(c), "operand is made locally / a library result / a parameter")
				continue
			}
			r.Check(!shared, rule, core.Site(f, "%s#%d sorts a private slice", k, nth(f, c, k)), w.InstrPos(c), "in-place sort of a slice that shares its backing array with "+why+": every other reader of that state sees the new order")
		}
	}
	return n
}

// nth: index of call c among the calls of f with the same callee key (stable site names).
func nth(f *ssa.Function, c ssa.CallInstruction, key string) int {
	i := 0
	for _, x := range core.Calls(f) {
		if core.CalleeKey(x) == key {
			i++
			if x == c {
				return i
			}
		}
	}
	return 0
}

// ruleApplySends: applyIntent reports success only after the device was written, with the tree it was given.
// (shared by C01 and C03: what the pipeline computed — and a dry run reported — is what is sent.)
func ruleApplySends(w *core.World, r *core.Report, rule string) {
	apply := w.Func("pkg/datastore", "Datastore", "applyIntent")
	if apply == nil {
		return
	}
	sets := core.CallsTo(apply, kTargetSet)
	if len(sets) == 0 {
		r.Viol(rule, core.Site(apply, "target.Set"), w.Pos(apply.Pos()), "applyIntent never writes the device")
		return
	}
	isSet := func(in ssa.Instruction) bool {
		for _, s := range sets {
			if in == ssa.Instruction(s) {
				return true
			}
		}
		return false
	}
	src := core.Param(apply, "source")
	for _, s := range sets {
		a := core.CallArgs(s)
		r.Check(len(a) == 2 && src != nil && core.HasOrigin(a[1], src), rule, core.Site(apply, "target.Set receives the tree it was given"), w.InstrPos(s), "the source handed to the device must be applyIntent's own argument")
	}
	for _, ret := range core.Returns(apply) {
		ev := errorOperand(ret)
		if ev == nil || !core.IsNilConst(ev) {
			continue
		}
		ok, _ := core.AlwaysBefore(isSet, ret)
		r.Check(ok, rule, core.Site(apply, "success only after target.Set"), w.InstrPos(ret), "every success return of applyIntent must have written the device: a shortcut (e.g. 'no updates') drops delete-only changes while the stores are rewritten as if they had been sent")
	}
}

// globalsReachable lists, for the repository functions reachable from roots (without function-value creation
// edges), every use of a package-level variable declared in the repository: "<func> uses <pkg>.<var>".
func globalsReachable(w *core.World, roots ...*ssa.Function) map[string][]ssa.Instruction {
	cg := w.CG()
	reach := cg.Reachable(func(e core.Edge) bool { return e.Kind == "ref" }, roots...)
	out := map[string][]ssa.Instruction{}
	for f := range reach {
		if f.Blocks == nil || f.Pkg == nil || !strings.HasPrefix(f.Pkg.Pkg.Path(), core.Module) || strings.Contains(f.Pkg.Pkg.Path(), "/mocks/") {
			continue
		}
		for _, b := range f.Blocks {
			for _, in := range b.Instrs {
				for _, op := range in.Operands(nil) {
					g, ok := (*op).(*ssa.Global)
					if !ok || g.Pkg == nil || !strings.HasPrefix(g.Pkg.Pkg.Path(), core.Module) {
						continue
					}
					key := core.FuncKey(f) + " uses " + strings.TrimPrefix(strings.TrimPrefix(g.Pkg.Pkg.Path(), core.Module+"/"), "pkg/") + "." + g.Name()
					out[key] = append(out[key], in)
				}
			}
		}
	}
	return out
}

func globalOf(in ssa.Instruction) *ssa.Global {
	for _, op := range in.Operands(nil) {
		if g, ok := (*op).(*ssa.Global); ok {
			return g
		}
	}
	return nil
}

// immutableGlobal: the package variable is assigned only by its package initialiser and holds a value of a type
// that offers no mutation (basic types, error sentinels, *strings.Replacer, *regexp.Regexp, strings).
func immutableGlobal(w *core.World, g *ssa.Global) (bool, string) {
	if g == nil {
		return false, "?"
	}
	elem := g.Type().Underlying().(*types.Pointer).Elem()
	okType := false
	switch t := elem.Underlying().(type) {
	case *types.Basic:
		okType = true
	case *types.Interface:
		okType = types.Identical(elem, types.Universe.Lookup("error").Type())
	case *types.Pointer:
		n := t.Elem().String()
		okType = n == "strings.Replacer" || n == "regexp.Regexp"
	}
	if !okType {
		return false, "variable of type " + elem.String() + " can carry state between validations"
	}
	for _, f := range w.RepoFns {
		if f.Name() == "init" && f.Parent() == nil {
			continue
		}
		for _, b := range f.Blocks {
			for _, in := range b.Instrs {
				if st, ok := in.(*ssa.Store); ok && st.Addr == ssa.Value(g) {
					return false, "assigned in " + core.FuncKey(f)
				}
			}
		}
	}
	return true, "assigned by the package initialiser only, immutable type " + elem.String()
}

func ruleNoGlobalState(w *core.World, r *core.Report, rule string, roots ...*ssa.Function) {
	uses := globalsReachable(w, roots...)
	keys := []string{}
	for k := range uses {
		keys = append(keys, k)
	}
	sort.Strings(keys)
	for _, k := range keys {
		g := globalOf(uses[k][0])
		ok, why := immutableGlobal(w, g)
		r.Check(ok, rule, k, w.InstrPos(uses[k][0]), "package-level state reachable from the validators: "+why)
	}
	if len(keys) == 0 {
		r.OK(rule, "no package variable reachable", "", "")
	}
}
