package rules

import (
	"fmt"
	"go/constant"
	"go/token"
	"go/types"
	"sort"
	"strings"

	"golang.org/x/tools/go/ssa"

	"verif/internal/core"
)

// sharedBacking reports whether the slice value v may share its backing array with state that outlives the
// function: a struct field, a package-level variable, or the result of a repository function that returns such a
// slice (depth-limited). Slices made locally (make, append to nil / to a local, composite literals), results of
// library functions and parameters are not reported.
func sharedBacking(w *core.World, v ssa.Value, depth int, seen map[ssa.Value]bool) (bool, string) {
	for _, o := range core.Origins(v) {
		if seen[o] {
			continue
		}
		seen[o] = true
		switch x := o.(type) {
		case *ssa.UnOp:
			if x.Op != token.MUL {
				continue
			}
			switch a := x.X.(type) {
			case *ssa.FieldAddr:
				return true, "field " + core.FieldKey(a)
			case *ssa.Global:
				return true, "package variable " + a.Name()
			}
		case *ssa.Field:
			return true, "field " + core.FieldKeyVal(x)
		case *ssa.Slice:
			if b, why := sharedBacking(w, x.X, depth, seen); b {
				return true, why
			}
		case *ssa.Call:
			if bi, ok := x.Call.Value.(*ssa.Builtin); ok {
				if bi.Name() == "append" && len(x.Call.Args) > 0 {
					// append may write into (and return) the backing array of its first operand
					if b, why := sharedBacking(w, x.Call.Args[0], depth, seen); b {
						return true, why
					}
				}
				continue
			}
			if depth <= 0 {
				continue
			}
			var callees []*ssa.Function
			if f := x.Call.StaticCallee(); f != nil {
				callees = append(callees, f)
			} else if x.Call.IsInvoke() {
				for _, e := range w.CG().Out[x.Parent()] {
					if e.Site == ssa.Instruction(x) && e.Kind != "ref" {
						callees = append(callees, e.Callee)
					}
				}
			}
			for _, f := range callees {
				if f.Blocks == nil || f.Pkg == nil || !strings.HasPrefix(core.PkgPath(f), core.Module) || strings.Contains(core.PkgPath(f), "/mocks/") {
					continue
				}
				for _, ret := range core.Returns(f) {
					for _, rv := range core.ReturnValues(ret) {
						if !isSliceType(rv) {
							continue
						}
						if b, why := sharedBacking(w, rv, depth-1, seen); b {
							return true, "result of " + core.FuncKey(f) + " (" + why + ")"
						}
					}
				}
			}
		}
	}
	return false, ""
}

func isSliceType(v ssa.Value) bool {
	t := v.Type().Underlying().String()
	return strings.HasPrefix(t, "[]")
}

var inPlaceSorters = []string{"sort.Strings", "sort.Ints", "sort.Slice", "sort.SliceStable", "sort.Sort", "sort.Stable", "slices.Sort", "slices.SortFunc", "slices.SortStableFunc", "slices.Reverse"}

var sortSharedExceptions = map[string]string{
	"utils.XmlRecursiveSortElementsByTagName": "sorting the children of the XML document it is given is this function's purpose (used to compare documents)",
}

// ruleSortShared: in-place sorting (or reversing) of a slice whose backing array is shared state changes what
// every other holder of that state sees — e.g. the schema key names in key-statement order.
func ruleSortShared(w *core.World, r *core.Report, rule string, pkgs ...string) int {
	n := 0
	for _, f := range w.RepoFns {
		if f.Pkg == nil {
			continue
		}
		in := false
		for _, p := range pkgs {
			if core.PkgPath(f) == core.Module+"/"+p {
				in = true
			}
		}
		if !in {
			continue
		}
		for _, c := range core.OwnCalls(f) {
			k := core.CalleeKey(c)
			hit := false
			for _, s := range inPlaceSorters {
				if k == s {
					hit = true
				}
			}
			if !hit || len(c.Common().Args) == 0 {
				continue
			}
			n++
			shared, why := sharedBacking(w, c.Common().Args[0], 3, map[ssa.Value]bool{})
			if reason, ok := sortSharedExceptions[core.FuncKey(f)]; ok && shared {
				r.OK(rule, core.Site(f, "%s#%d sorts a private slice", k, nth(f, c, k)), w.InstrPos(c), "frozen exception: "+reason)
				continue
			}
			if !shared {
				r.OK(rule, core.Site(f, "%s#%d sorts a private slice", k, nth(f, c, k)), w.InstrPos(c), "operand is made locally / a library result / a parameter")
				continue
			}
			r.Check(!shared, rule, core.Site(f, "%s#%d sorts a private slice", k, nth(f, c, k)), w.InstrPos(c), "in-place sort of a slice that shares its backing array with "+why+": every other reader of that state sees the new order")
		}
	}
	return n
}

// nth: index of call c among the calls of f with the same callee key (stable site names).
func nth(f *ssa.Function, c ssa.CallInstruction, key string) int {
	i := 0
	for _, x := range core.Calls(f) {
		if core.CalleeKey(x) == key {
			i++
			if x == c {
				return i
			}
		}
	}
	return 0
}

// ruleApplySends: applyIntent reports success only after the device was written, with the tree it was given.
// (shared by C01 and C03: what the pipeline computed — and a dry run reported — is what is sent.)
func ruleApplySends(w *core.World, r *core.Report, rule string) {
	apply := w.Func("pkg/datastore", "Datastore", "applyIntent")
	if apply == nil {
		return
	}
	sets := core.CallsTo(apply, kTargetSet)
	if len(sets) == 0 {
		r.Viol(rule, core.Site(apply, "target.Set"), w.Pos(apply.Pos()), "applyIntent never writes the device")
		return
	}
	isSet := func(in ssa.Instruction) bool {
		for _, s := range sets {
			if in == ssa.Instruction(s) {
				return true
			}
		}
		return false
	}
	src := core.Param(apply, "source")
	for _, s := range sets {
		a := core.CallArgs(s)
		r.Check(len(a) == 2 && src != nil && core.HasOrigin(a[1], src), rule, core.Site(apply, "target.Set receives the tree it was given"), w.InstrPos(s), "the source handed to the device must be applyIntent's own argument")
	}
	for _, ret := range core.Returns(apply) {
		ev := errorOperand(ret)
		if ev == nil || !core.IsNilConst(ev) {
			continue
		}
		ok, _ := core.AlwaysBefore(isSet, ret)
		r.Check(ok, rule, core.Site(apply, "success only after target.Set"), w.InstrPos(ret), "every success return of applyIntent must have written the device: a shortcut (e.g. 'no updates') drops delete-only changes while the stores are rewritten as if they had been sent")
	}
}

// globalsReachable lists, for the repository functions reachable from roots (without function-value creation
// edges), every use of a package-level variable declared in the repository: "<func> uses <pkg>.<var>".
func globalsReachable(w *core.World, roots ...*ssa.Function) map[string][]ssa.Instruction {
	cg := w.CG()
	reach := cg.Reachable(func(e core.Edge) bool { return e.Kind == "ref" }, roots...)
	out := map[string][]ssa.Instruction{}
	for f := range reach {
		if f.Blocks == nil || f.Pkg == nil || !strings.HasPrefix(core.PkgPath(f), core.Module) || strings.Contains(core.PkgPath(f), "/mocks/") {
			continue
		}
		for _, b := range f.Blocks {
			for _, in := range b.Instrs {
				for _, op := range in.Operands(nil) {
					g, ok := (*op).(*ssa.Global)
					if !ok || g.Pkg == nil || !strings.HasPrefix(g.Pkg.Pkg.Path(), core.Module) {
						continue
					}
					key := core.FuncKey(f) + " uses " + strings.TrimPrefix(strings.TrimPrefix(g.Pkg.Pkg.Path(), core.Module+"/"), "pkg/") + "." + g.Name()
					out[key] = append(out[key], in)
				}
			}
		}
	}
	return out
}

func globalOf(in ssa.Instruction) *ssa.Global {
	for _, op := range in.Operands(nil) {
		if g, ok := (*op).(*ssa.Global); ok {
			return g
		}
	}
	return nil
}

// immutableGlobal: the package variable is assigned only by its package initialiser and holds a value of a type
// that offers no mutation (basic types, error sentinels, *strings.Replacer, *regexp.Regexp, strings).
func immutableGlobal(w *core.World, g *ssa.Global) (bool, string) {
	if g == nil {
		return false, "?"
	}
	elem := g.Type().Underlying().(*types.Pointer).Elem()
	okType := false
	switch t := elem.Underlying().(type) {
	case *types.Basic:
		okType = true
	case *types.Interface:
		okType = types.Identical(elem, types.Universe.Lookup("error").Type())
	case *types.Pointer:
		n := t.Elem().String()
		okType = n == "strings.Replacer" || n == "regexp.Regexp"
	case *types.Map, *types.Slice:
		// a lookup table: acceptable when nothing in the repository ever writes an element of it
		okType = !elementsWritten(w, g)
	}
	if !okType {
		return false, "variable of type " + elem.String() + " can carry state between validations"
	}
	for _, f := range w.RepoFns {
		if f.Name() == "init" && f.Parent() == nil {
			continue
		}
		for _, b := range f.Blocks {
			for _, in := range b.Instrs {
				if st, ok := in.(*ssa.Store); ok && st.Addr == ssa.Value(g) {
					return false, "assigned in " + core.FuncKey(f)
				}
			}
		}
	}
	return true, "assigned by the package initialiser only, immutable type " + elem.String()
}

func ruleNoGlobalState(w *core.World, r *core.Report, rule string, roots ...*ssa.Function) {
	uses := globalsReachable(w, roots...)
	keys := []string{}
	for k := range uses {
		keys = append(keys, k)
	}
	sort.Strings(keys)
	for _, k := range keys {
		g := globalOf(uses[k][0])
		ok, why := immutableGlobal(w, g)
		r.Check(ok, rule, k, w.InstrPos(uses[k][0]), "package-level state reachable from the validators: "+why)
	}
	if len(keys) == 0 {
		r.OK(rule, "no package variable reachable", "", "")
	}
}

// ruleCaseAlternativesLoaded (C01, C08): when the winning case of a choice passes to a case that only OTHER intents
// contribute to, that case's content has to be in the tree to be sent; the tree only holds what is read for it.
func ruleCaseAlternativesLoaded(w *core.World, r *core.Report, rule string) {
	low := w.Func("pkg/datastore", "Datastore", "lowlevelTransactionSet")
	if low == nil {
		return
	}
	fl := w.NewFlow()
	nSrc := 0
	for _, f := range w.RepoFns {
		for _, c := range core.OwnCalls(f) {
			if core.CalleeIs(c, "tree.choiceCasesResolver.GetElementNames", "tree.choiceCasesResolvers.GetChoiceElementNeighbors", "tree.choiceCasesResolvers.GetSkipElements", "tree.choiceCasesResolver.GetSkipElements") {
				if v := c.Value(); v != nil {
					fl.AddSource(v)
					nSrc++
				}
			}
		}
	}
	fl.AddField("tree.choiceCasesResolver.elementToCaseMapping")
	fl.Run()
	reached := false
	nSink := 0
	for _, f := range w.RepoFns {
		if strings.Contains(core.FuncKey(f), "mocks/") {
			continue
		}
		for _, c := range core.OwnCalls(f) {
			if !core.CalleeIs(c, "tree.TreeCacheClient.Read", "tree.TreeCacheClient.ReadCurrentUpdatesHighestPriorities", "tree.TreeCacheClientImpl.Read", "tree.TreeCacheClientImpl.ReadCurrentUpdatesHighestPriorities", "cache.Client.Read", "cache.Client.ReadCh") {
				continue
			}
			nSink++
			for _, a := range core.CallArgs(c) {
				if fl.Reaches(a) {
					reached = true
				}
			}
		}
	}
	r.Extra["case_alternatives_sources"] = nSrc
	r.Extra["case_alternatives_read_sites"] = nSink
	r.Check(reached, rule, core.Site(low, "content of sibling cases is read"), w.Pos(low.Pos()), "no read of stored content takes its paths from the members of a choice: when the winning case passes to a case held only by other intents (the ruling intent is deleted, or re-prioritised below them), that case's values are not in the tree and are never sent; the device is left without the case (or, for NETCONF, with the losing one)")
}

// ruleDecimalSign (C12): a decimal64 is (digits, precision). A rendering that formats digits/10^p and digits%10^p
// separately loses the sign of every value in (-1, 0): the quotient is 0 and the remainder is made absolute.
// Necessary condition checked: wherever an integer formatter receives a value that depends on Decimal64.Digits, it
// either receives the whole Digits (no arithmetic in between) or the function tests the sign of Digits itself.
func ruleDecimalSign(w *core.World, r *core.Report, rule string) {
	isDigits := func(v ssa.Value) bool {
		if core.FieldOf(v) == "github.com/sdcio/sdc-protos/sdcpb.Decimal64.Digits" {
			if _, isAddr := v.(*ssa.FieldAddr); !isAddr {
				return true
			}
		}
		if c, ok := v.(*ssa.Call); ok && core.CalleeIs(c, "github.com/sdcio/sdc-protos/sdcpb.Decimal64.GetDigits") {
			return true
		}
		return false
	}
	formatters := []string{"strconv.FormatInt", "strconv.Itoa", "fmt.Sprintf", "fmt.Sprint", "fmt.Fprintf", "strconv.AppendInt"}
	n := 0
	for _, f := range w.RepoFns {
		if f.Pkg == nil || strings.Contains(core.PkgPath(f), "/mocks/") || strings.HasSuffix(core.PkgPath(f), "/tests/sdcioygot") {
			continue
		}
		var digits []ssa.Value
		for _, b := range f.Blocks {
			for _, in := range b.Instrs {
				if v, ok := in.(ssa.Value); ok && isDigits(v) {
					digits = append(digits, v)
				}
			}
		}
		if len(digits) == 0 {
			continue
		}
		signTested := false
		for _, b := range f.Blocks {
			for _, in := range b.Instrs {
				bo, ok := in.(*ssa.BinOp)
				if !ok {
					continue
				}
				switch bo.Op {
				case token.LSS, token.GTR, token.LEQ, token.GEQ:
				default:
					continue
				}
				whole := func(v ssa.Value) bool {
					for _, o := range core.Origins(v) {
						if isDigits(o) {
							return true
						}
					}
					return false
				}
				zero := func(v ssa.Value) bool { c, ok := core.ConstInt(v); return ok && c == 0 }
				if (whole(bo.X) && zero(bo.Y)) || (whole(bo.Y) && zero(bo.X)) {
					signTested = true
				}
			}
		}
		for _, c := range core.OwnCalls(f) {
			if !core.CalleeIs(c, formatters...) {
				continue
			}
			for ai, a := range c.Common().Args {
				sl := core.DataSlice(f, []ssa.Value{a})
				dep := false
				for _, d := range digits {
					if sl.HasValue(d) {
						dep = true
					}
				}
				if !dep {
					continue
				}
				// whole value: every Digits-dependent operand reaches the formatter without integer arithmetic
				arith := false
				for v := range sl.Values {
					if bo, ok := v.(*ssa.BinOp); ok && (bo.Op == token.QUO || bo.Op == token.REM) {
						sl2 := core.DataSlice(f, []ssa.Value{bo.X})
						for _, d := range digits {
							if sl2.HasValue(d) {
								arith = true
							}
						}
					}
				}
				n++
				r.Check(!arith || signTested, rule, core.Site(f, "%s arg %d renders decimal digits", core.CalleeKey(c), ai), w.InstrPos(c), "the digits of a decimal64 are split by integer division / remainder before formatting and the sign of the whole number is never tested: values in (-1,0) lose their sign")
			}
		}
	}
	r.Extra["decimal_render_sites"] = n
}

// ruleOwnerReadComplete (C02, C09): the stored version of an intent is loaded completely. In ReadUpdatesOwner the
// paths handed to Read are the whole per-priority path list of the index, or - when the list is read in chunks -
// the chunk loop runs while 'index < len(list)' (not 'index+size <= len(list)', which never reads the remainder).
func ruleOwnerReadComplete(w *core.World, r *core.Report, rule string) {
	f := w.Func("pkg/tree", "TreeCacheClientImpl", "ReadUpdatesOwner")
	if f == nil {
		return
	}
	reads := core.CallsTo(f, "tree.TreeCacheClientImpl.Read", "tree.TreeCacheClient.Read", "cache.Client.Read")
	if len(reads) == 0 {
		r.Undecided(rule, core.Site(f, "Read"), w.Pos(f.Pos()), "ReadUpdatesOwner does not read")
		return
	}
	for i, c := range reads {
		a := core.CallArgs(c)
		paths := a[len(a)-1]
		if len(a) >= 3 && strings.HasPrefix(a[2].Type().String(), "[][]string") {
			paths = a[2]
		}
		whole, chunked := false, false
		var sl *ssa.Slice
		for _, o := range core.Origins(paths) {
			switch x := o.(type) {
			case *ssa.Call:
				if core.CalleeIs(x, "tree.PathSlices.ToStringSlice") {
					whole = true
				}
			case *ssa.Slice:
				chunked = true
				sl = x
			}
		}
		switch {
		case chunked:
			// the loop that contains the read: its condition must compare the bare index with len(list)
			ok := false
			detail := "no loop condition 'index < len(list)' guards the chunked read"
			for _, g := range core.GuardsOf(c) {
				bo, isB := g.If.Cond.(*ssa.BinOp)
				if !isB || !g.CondTrue() {
					continue
				}
				lc, isCall := bo.Y.(*ssa.Call)
				if !isCall {
					continue
				}
				if bi, isBi := lc.Call.Value.(*ssa.Builtin); !isBi || bi.Name() != "len" {
					continue
				}
				if _, isPhi := bo.X.(*ssa.Phi); isPhi && bo.Op == token.LSS {
					ok = true
				} else {
					detail = "the chunk loop runs while '" + bo.X.String() + " " + bo.Op.String() + " len(list)': the last len%size paths are never read"
				}
			}
			// a read of the remainder after the loop also completes it
			for _, c2 := range reads {
				if c2 == c {
					continue
				}
				for _, o := range core.Origins(core.CallArgs(c2)[len(core.CallArgs(c2))-1]) {
					if s2, isS := o.(*ssa.Slice); isS && s2.High == nil && s2 != sl {
						ok = true
					}
				}
			}
			r.Check(ok, rule, core.Site(f, "Read#%d covers the whole path list", i), w.InstrPos(c), detail)
		case whole:
			r.OK(rule, core.Site(f, "Read#%d covers the whole path list", i), w.InstrPos(c), "the complete path list of the priority is read")
		default:
			r.Viol(rule, core.Site(f, "Read#%d covers the whole path list", i), w.InstrPos(c), "the paths that are read do not come from the owner's path list of the index")
		}
	}
}

// elementsWritten: some function stores into an element of the map / slice held by package variable g (m[k] = v,
// s[i] = v, delete, append-assign), other than the package initialiser that builds the literal.
func elementsWritten(w *core.World, g *ssa.Global) bool {
	for _, f := range w.RepoFns {
		if (f.Name() == "init" || strings.HasPrefix(f.Name(), "init#")) && f.Parent() == nil {
			continue
		}
		for _, b := range f.Blocks {
			for _, in := range b.Instrs {
				fromG := func(v ssa.Value) bool {
					for _, o := range append(core.Origins(v), v) {
						if u, ok := o.(*ssa.UnOp); ok && u.X == ssa.Value(g) {
							return true
						}
					}
					return false
				}
				switch x := in.(type) {
				case *ssa.MapUpdate:
					if fromG(x.Map) {
						return true
					}
				case *ssa.Store:
					if ia, ok := x.Addr.(*ssa.IndexAddr); ok && fromG(ia.X) {
						return true
					}
				case *ssa.Call:
					if bi, ok := x.Call.Value.(*ssa.Builtin); ok && (bi.Name() == "delete" || bi.Name() == "clear") && len(x.Call.Args) > 0 && fromG(x.Call.Args[0]) {
						return true
					}
				}
			}
		}
	}
	return false
}

// dispatchTable recognises the table form of a switch: call c invokes a function value looked up in a package-level
// map that only the package initialiser fills (constant string keys, functions or method expressions as values) and
// nothing ever writes again. It returns the key operand of the lookup and the key -> function table.
func dispatchTable(w *core.World, c ssa.CallInstruction) (ssa.Value, map[string]*ssa.Function) {
	cc := c.Common()
	if cc.IsInvoke() || cc.StaticCallee() != nil {
		return nil, nil
	}
	var lk *ssa.Lookup
	for _, o := range append(core.Origins(cc.Value), cc.Value) {
		switch x := o.(type) {
		case *ssa.Lookup:
			lk = x
		case *ssa.Extract:
			if l, ok := x.Tuple.(*ssa.Lookup); ok && x.Index == 0 {
				lk = l
			}
		}
	}
	if lk == nil {
		return nil, nil
	}
	var g *ssa.Global
	for _, o := range append(core.Origins(lk.X), lk.X) {
		if u, ok := o.(*ssa.UnOp); ok && u.Op == token.MUL {
			if gg, ok := u.X.(*ssa.Global); ok {
				g = gg
			}
		}
	}
	if g == nil || g.Pkg == nil {
		return nil, nil
	}
	if ok, _ := immutableGlobal(w, g); !ok {
		return nil, nil
	}
	ini := g.Pkg.Func("init")
	if ini == nil {
		return nil, nil
	}
	var mk ssa.Value
	for _, b := range ini.Blocks {
		for _, in := range b.Instrs {
			if st, ok := in.(*ssa.Store); ok && st.Addr == ssa.Value(g) {
				if mk != nil {
					return nil, nil
				}
				mk = st.Val
			}
		}
	}
	if _, ok := mk.(*ssa.MakeMap); !ok {
		return nil, nil
	}
	table := map[string]*ssa.Function{}
	for _, b := range ini.Blocks {
		for _, in := range b.Instrs {
			mu, ok := in.(*ssa.MapUpdate)
			if !ok || mu.Map != mk {
				continue
			}
			k, isC := constKey(mu.Key)
			if !isC {
				return nil, nil
			}
			var fn *ssa.Function
			switch x := mu.Value.(type) {
			case *ssa.Function:
				fn = x
			case *ssa.MakeClosure:
				fn, _ = x.Fn.(*ssa.Function)
			case *ssa.ChangeType:
				fn, _ = x.X.(*ssa.Function)
			}
			if fn == nil {
				return nil, nil
			}
			if fn.Synthetic != "" {
				// thunk of a method expression: the method it forwards to
				for _, tc := range core.OwnCalls(fn) {
					if t := tc.Common().StaticCallee(); t != nil {
						fn = t
					}
				}
			}
			if _, dup := table[k]; dup {
				return nil, nil
			}
			table[k] = fn
		}
	}
	return lk.Index, table
}

// constKey renders a constant map key: the string itself, or the exact value of any other constant.
func constKey(v ssa.Value) (string, bool) {
	if cv, ok := v.(*ssa.ChangeType); ok {
		v = cv.X
	}
	c, ok := v.(*ssa.Const)
	if !ok || c.Value == nil {
		return "", false
	}
	if c.Value.Kind() == constant.String {
		return constant.StringVal(c.Value), true
	}
	return c.Value.ExactString(), true
}

// dispatchedCall is one way a function reaches one of a set of target functions: by a call written out, or through a
// dispatch table (see dispatchTable), possibly by way of a thin wrapper that only forwards to the target.
type dispatchedCall struct {
	Call    ssa.CallInstruction
	Target  *ssa.Function
	Args    []ssa.Value   // arguments without the receiver
	KeyV    ssa.Value     // table form: the key operand of the lookup
	Key     string        // table form: the constant the target is filed under
	Wrapper *ssa.Function // table form: the forwarding wrapper, if any
}

func dispatchedCalls(w *core.World, fn *ssa.Function, targets []*ssa.Function) []dispatchedCall {
	var out []dispatchedCall
	isTarget := func(f *ssa.Function) bool {
		for _, t := range targets {
			if t == f {
				return true
			}
		}
		return false
	}
	for _, c := range core.Calls(fn) {
		if sc := c.Common().StaticCallee(); sc != nil {
			if isTarget(sc) {
				out = append(out, dispatchedCall{Call: c, Target: sc, Args: core.CallArgs(c)})
			}
			continue
		}
		keyV, table := dispatchTable(w, c)
		if table == nil {
			continue
		}
		keys := []string{}
		for k := range table {
			keys = append(keys, k)
		}
		sort.Strings(keys)
		for _, k := range keys {
			f := table[k]
			args := c.Common().Args
			if f.Signature.Recv() != nil && len(args) == len(f.Params) && len(args) > 0 {
				args = args[1:]
			} else if f.Signature.Recv() == nil && len(f.Params) > 0 && len(args) == len(f.Params) {
				// a plain function / closure filed in the table that takes the receiver of the targets as its first parameter
				for _, t := range targets {
					if t.Signature.Recv() != nil && types.Identical(f.Params[0].Type(), t.Signature.Recv().Type()) {
						args = args[1:]
						break
					}
				}
			}
			if isTarget(f) {
				out = append(out, dispatchedCall{Call: c, Target: f, Args: args, KeyV: keyV, Key: k})
				continue
			}
			// a thin wrapper: its only repository call is the target and every return hands that call's results on
			var fwd ssa.CallInstruction
			n := 0
			for _, wc := range core.OwnCalls(f) {
				if isRepoCallee(wc) {
					n++
					if sc := wc.Common().StaticCallee(); sc != nil && isTarget(sc) {
						fwd = wc
					}
				}
			}
			if fwd != nil && n == 1 {
				out = append(out, dispatchedCall{Call: c, Target: fwd.Common().StaticCallee(), Args: args, KeyV: keyV, Key: k, Wrapper: f})
			}
		}
	}
	return out
}

// storedInputs: what the caller hands to call c that the callee stores into the field fieldKey - the argument
// itself when the callee stores a parameter, or, when the parameter is a struct passed by value, what the caller put
// into that field of its local struct. This keeps a rule that is about "the value / the marker given to SetValue"
// independent of how the callee's parameter list is cut.
func storedInputs(c ssa.CallInstruction, fieldKey string) []ssa.Value {
	callee := c.Common().StaticCallee()
	if callee == nil {
		return nil
	}
	args := c.Common().Args
	argOf := func(p *ssa.Parameter) ssa.Value {
		for i, q := range callee.Params {
			if q == p && i < len(args) {
				return args[i]
			}
		}
		return nil
	}
	var out []ssa.Value
	for _, st := range core.StoresToField(callee, fieldKey) {
		if st.Parent() != callee {
			continue
		}
		for _, o := range append(core.Origins(st.Val), st.Val) {
			switch x := o.(type) {
			case *ssa.Parameter:
				if a := argOf(x); a != nil {
					out = append(out, a)
				}
			case *ssa.Field:
				if p, ok := x.X.(*ssa.Parameter); ok {
					if a := argOf(p); a != nil {
						out = append(out, core.LocalFieldStores(a, x.Field)...)
					}
				}
			case *ssa.UnOp:
				// load of a field of the local copy of a struct parameter
				fa, ok := x.X.(*ssa.FieldAddr)
				if !ok {
					continue
				}
				al, ok := fa.X.(*ssa.Alloc)
				if !ok {
					continue
				}
				for _, ref := range *al.Referrers() {
					if s2, isStore := ref.(*ssa.Store); isStore && s2.Addr == ssa.Value(al) {
						if p, isP := s2.Val.(*ssa.Parameter); isP {
							if a := argOf(p); a != nil {
								out = append(out, core.LocalFieldStores(a, fa.Field)...)
							}
						}
					}
				}
			}
		}
	}
	return out
}

// ruleVerdictGate (C04; the full effect list is C03.VALIDATION-GUARD): the accept / reject decision IS the verdict of
// the validation of the resulting configuration: the device is written only on the false outcome of HasErrors() called
// on the value RootEntry.Validate returned - not on a filtered copy, a per-intent subset or a different result object.
func ruleVerdictGate(w *core.World, r *core.Report, rule string) {
	for _, n := range []string{"lowlevelTransactionSet", "replaceIntent"} {
		f := w.Func("pkg/datastore", "Datastore", n)
		if f == nil {
			continue
		}
		valCalls := core.CallsTo(f, "tree.RootEntry.Validate")
		if len(valCalls) != 1 {
			r.Undecided(rule, core.Site(f, "validate"), w.Pos(f.Pos()), fmt.Sprintf("expected exactly one RootEntry.Validate call, found %d", len(valCalls)))
			continue
		}
		for _, c := range core.CallsTo(f, kApplyIntent) {
			ok := false
			core.WithHost(f, func() { ok = guardedByHasErrorsOf(c, valCalls[0], false) })
			r.Check(ok, rule, core.Site(f, "device written only when the validation found no error"), w.InstrPos(c), "the gate must test HasErrors() of the complete validation result (every owner's findings count: a value that becomes active because another intent was removed is attributed to its own owner)")
		}
	}
}

// ruleLeafrefPathFresh (C04, C17): leafref resolution rewrites the parsed path in place (the key predicate
// [k=current()/../x] is replaced by the value found for THIS instance and marked as resolved). The parsed path must
// therefore belong to one resolution only: what tree.newLrefPath returns is not kept in any struct field (a per-tree or
// process-wide cache of parsed statements) other than the fields of the path's own elements.
func ruleLeafrefPathFresh(w *core.World, r *core.Report, rule string) {
	fl := w.NewFlow()
	n := 0
	for _, f := range w.RepoFns {
		for _, c := range core.OwnCallsTo(f, "tree.newLrefPath") {
			if v := c.Value(); v != nil {
				fl.AddSource(v)
				n++
			}
		}
	}
	if n == 0 {
		r.Undecided(rule, "tree.newLrefPath", "", "the constructor of the parsed leafref path is not called anywhere")
		return
	}
	fl.Run()
	var bad []string
	for k := range fl.Fields {
		if strings.HasPrefix(k, "tree.lrefPathElem.") || strings.HasPrefix(k, "tree.lrefPathElemKeyValue.") {
			continue
		}
		bad = append(bad, k)
	}
	// ... nor in a map that is a field / package variable, nor in a sync.Map
	for _, f := range w.RepoFns {
		for _, b := range f.Blocks {
			for _, in := range b.Instrs {
				switch x := in.(type) {
				case *ssa.MapUpdate:
					if !fl.Reaches(x.Value) {
						continue
					}
					for _, o := range append(core.Origins(x.Map), x.Map) {
						if fk := core.FieldOf(o); fk != "" && !strings.HasPrefix(fk, "tree.lrefPathElem") {
							bad = append(bad, "map "+fk)
						}
						if u, ok := o.(*ssa.UnOp); ok {
							if g, ok := u.X.(*ssa.Global); ok {
								bad = append(bad, "map "+g.Name())
							}
						}
					}
				case ssa.CallInstruction:
					if k := core.CalleeKey(x); k == "sync.Map.Store" || k == "sync.Map.LoadOrStore" || k == "sync.Map.Swap" || k == "sync.Map.CompareAndSwap" {
						for _, a := range x.Common().Args {
							if fl.Reaches(a) {
								bad = append(bad, "a sync.Map ("+core.FuncKey(f)+")")
							}
						}
					}
				}
			}
		}
	}
	sort.Strings(bad)
	r.Check(len(bad) == 0, rule, "parsed leafref path is used by one resolution only", "", "the parsed path is kept in "+strings.Join(bad, ", ")+": the key values resolved for one instance are seen by every other instance (and written concurrently by the validation goroutines)")
}

// ruleCleanupOnlyIdFailures (C06, C07): the guard's cleanup calls CleanupTransaction(id) and drops its error, and
// CleanupTransaction decides through GetTransaction(id). Both can therefore fail only for the two reasons that mean
// "there is nothing of yours to clean up": no open transaction, or another id. Any further refusal in them (a state
// check written for Confirm / Cancel) leaves the transaction registered after a failed TransactionSet: every later
// request is refused.
func ruleCleanupOnlyIdFailures(w *core.World, r *core.Report, rule string) {
	for _, n := range []string{"GetTransaction", "CleanupTransaction"} {
		f := w.Func("pkg/datastore/types", "TransactionManager", n)
		if f == nil {
			continue
		}
		id := core.Param(f, "id")
		for i, ret := range core.EffectiveReturns(f) {
			ev := errorOperand(ret)
			if ev == nil || core.IsNilConst(ev) {
				continue
			}
			ok := false
			for _, a := range core.GuardAtoms(ret) {
				if x, nilOnTrue, isNil := core.NilTest(a.Cond); isNil {
					if nilOnTrue == a.True && core.FieldOf(x) == kTMSlot {
						ok = true // no open transaction
					}
					// the error of the id test itself, handed on
					if nilOnTrue != a.True && isErrorType(x.Type()) {
						for _, oc := range core.OriginCalls(x) {
							if core.CalleeIs(oc, kGetTx) {
								ok = true
							}
						}
					}
				}
				l, rr, eqOnTrue, isEq := core.EqTest(a.Cond)
				if isEq && eqOnTrue != a.True && id != nil {
					for _, pair := range [][2]ssa.Value{{l, rr}, {rr, l}} {
						if core.FieldOf(pair[0]) == "datastore/types.Transaction.transactionId" && core.HasOrigin(pair[1], id) {
							ok = true // another id
						}
					}
				}
			}
			r.Check(ok, rule, core.Site(f, "failing return#%d is 'no transaction' or 'other id'", i), w.InstrPos(ret), "the cleanup after a failed TransactionSet ignores this error: a refusal for any other reason leaves the transaction registered and the datastore locked for every later request")
		}
	}
}

// rulePatternAnchored (C04, C12): YANG patterns are XSD regular expressions, which match the WHOLE value (RFC 7950
// 9.4.5); Go's regexp finds a match anywhere. Every regexp.MatchString / Compile / MustCompile whose expression comes
// from a schema pattern (sdcpb.SchemaPattern) must be handed the anchored form: the argument is built by a
// concatenation that puts a constant containing '^' in front and one containing '$' behind the pattern.
func rulePatternAnchored(w *core.World, r *core.Report, rule string) {
	n := 0
	for _, f := range w.RepoFns {
		for _, c := range core.OwnCalls(f) {
			if !core.CalleeIs(c, "regexp.MatchString", "regexp.Compile", "regexp.MustCompile", "regexp.Match") {
				continue
			}
			arg := c.Common().Args[0]
			fromSchema := false
			hasHead, hasTail := false, false
			seen := map[ssa.Value]bool{}
			var walk func(v ssa.Value, d int)
			walk = func(v ssa.Value, d int) {
				if v == nil || seen[v] || d > 8 {
					return
				}
				seen[v] = true
				for _, o := range append(core.Origins(v), v) {
					switch x := o.(type) {
					case *ssa.BinOp:
						if x.Op == token.ADD {
							walk(x.X, d+1)
							walk(x.Y, d+1)
						}
					case *ssa.Const:
						if t, ok := core.ConstString(x); ok {
							if strings.Contains(t, "^") {
								hasHead = true
							}
							if strings.Contains(t, "$") {
								hasTail = true
							}
						}
					case *ssa.Call:
						if strings.HasSuffix(core.CalleeKey(x), "sdcpb.SchemaPattern.GetPattern") {
							fromSchema = true
						}
						if g := x.Call.StaticCallee(); g != nil && g.Blocks != nil && strings.HasPrefix(core.FuncKey(g), "utils.") && d < 6 {
							// a helper of the repository that builds the expression: its result, with its parameters bound
							for _, ret := range core.Returns(g) {
								for _, rv := range core.ReturnValues(ret) {
									walk(rv, d+1)
								}
							}
							for _, a := range x.Call.Args {
								walk(a, d+1)
							}
						}
					}
					if strings.HasSuffix(core.FieldOf(o), "sdcpb.SchemaPattern.Pattern") {
						fromSchema = true
					}
				}
			}
			walk(arg, 0)
			if !fromSchema {
				continue
			}
			n++
			r.Check(hasHead && hasTail, rule, core.Site(f, "schema pattern matched against the whole value"), w.InstrPos(c), "the YANG pattern is handed to Go's regexp as it is: a value that merely CONTAINS a match is accepted")
		}
	}
	if n == 0 {
		r.Undecided(rule, "regexp calls on schema patterns", "", "no regexp call takes its expression from sdcpb.SchemaPattern")
	}
}

// structTable recognises a package-level slice literal of structs (var t = []row{{...}, {...}}): it returns, per
// element, the values stored into each field by the package initialiser (nil when g is not such a table or anything
// else in the repository assigns it).
func structTable(w *core.World, g *ssa.Global) []map[int]ssa.Value {
	if g == nil || g.Pkg == nil {
		return nil
	}
	if ok, _ := immutableGlobal(w, g); !ok {
		return nil
	}
	ini := g.Pkg.Func("init")
	if ini == nil {
		return nil
	}
	var arr *ssa.Alloc
	for _, b := range ini.Blocks {
		for _, in := range b.Instrs {
			st, ok := in.(*ssa.Store)
			if !ok || st.Addr != ssa.Value(g) {
				continue
			}
			if sl, ok := st.Val.(*ssa.Slice); ok {
				arr, _ = sl.X.(*ssa.Alloc)
			}
		}
	}
	if arr == nil {
		return nil
	}
	rows := map[int64]map[int]ssa.Value{}
	max := int64(-1)
	for _, ref := range *arr.Referrers() {
		ia, ok := ref.(*ssa.IndexAddr)
		if !ok {
			continue
		}
		idx, isC := core.ConstInt(ia.Index)
		if !isC {
			return nil
		}
		if idx > max {
			max = idx
		}
		if rows[idx] == nil {
			rows[idx] = map[int]ssa.Value{}
		}
		for _, r2 := range *ia.Referrers() {
			fa, ok := r2.(*ssa.FieldAddr)
			if !ok {
				continue
			}
			for _, r3 := range *fa.Referrers() {
				if st, ok := r3.(*ssa.Store); ok && st.Addr == ssa.Value(fa) {
					rows[idx][fa.Field] = st.Val
				}
			}
		}
	}
	out := make([]map[int]ssa.Value, max+1)
	for i := range out {
		out[i] = rows[int64(i)]
	}
	return out
}

// funcOfTableValue: the function a table cell denotes (function, closure, method expression thunk -> the method).
func funcOfTableValue(v ssa.Value) *ssa.Function {
	var fn *ssa.Function
	switch x := v.(type) {
	case *ssa.Function:
		fn = x
	case *ssa.MakeClosure:
		fn, _ = x.Fn.(*ssa.Function)
	case *ssa.ChangeType:
		fn, _ = x.X.(*ssa.Function)
	}
	if fn != nil && fn.Synthetic != "" {
		for _, tc := range core.OwnCalls(fn) {
			if t := tc.Common().StaticCallee(); t != nil {
				fn = t
			}
		}
	}
	return fn
}

// ruleJoinAccumulates (C03, C04): the functions that fold the per-intent messages into one error carry their
// accumulator round the loop: every loop-carried value the result is computed from (the phi of the accumulator at the
// loop head) is, on the edge that comes back from the loop body, computed from itself. An accumulator that is
// overwritten per iteration keeps only what the LAST intent of the map iteration contributed - nil, if that one has
// no errors, although HasErrors() is true.
func ruleJoinAccumulates(w *core.World, r *core.Report, rule string) {
	for _, name := range []string{"JoinErrors", "JoinWarnings"} {
		f := w.Func("pkg/types", "ValidationResults", name)
		if f == nil {
			continue
		}
		ret := core.ReturnSlice(f, -1)
		n := 0
		for _, b := range f.Blocks {
			for _, in := range b.Instrs {
				phi, ok := in.(*ssa.Phi)
				if !ok || !ret.HasValue(phi) {
					continue
				}
				for i, e := range phi.Edges {
					if i >= len(b.Preds) {
						continue
					}
					pred := b.Preds[i]
					if len(pred.Instrs) == 0 {
						continue
					}
					// an edge from inside the loop: the head is reachable again from its predecessor
					if !blockReaches(b, pred) {
						continue
					}
					n++
					sl := core.DataSlice(f, []ssa.Value{e})
					r.Check(e == ssa.Value(phi) || sl.HasValue(phi), rule, core.Site(f, "accumulator %s carried round the loop", phi.Comment), w.InstrPos(phi), "the value kept for the next iteration must be computed from the value kept so far (errors.Join(result, ...)); overwritten, only the last intent's messages survive")
				}
			}
		}
		_ = n
	}
}

// blockReaches: some path leads from a to b (a == b counts only through a cycle).
func blockReaches(a, b *ssa.BasicBlock) bool {
	seen := map[*ssa.BasicBlock]bool{}
	work := append([]*ssa.BasicBlock{}, a.Succs...)
	for len(work) > 0 {
		x := work[len(work)-1]
		work = work[:len(work)-1]
		if x == b {
			return true
		}
		if seen[x] {
			continue
		}
		seen[x] = true
		work = append(work, x.Succs...)
	}
	return false
}

// lostReceiverWrites lists the stores a method with a VALUE receiver makes to a field of that receiver: they change the
// method's private copy and are lost when it returns. (SSA: the receiver parameter is spilled to a local Alloc whose
// only other store is the parameter itself; the store goes to a FieldAddr of that Alloc.)
func lostReceiverWrites(f *ssa.Function) []*ssa.Store {
	if f.Signature == nil || f.Signature.Recv() == nil || len(f.Params) == 0 {
		return nil
	}
	if _, isPtr := f.Signature.Recv().Type().Underlying().(*types.Pointer); isPtr {
		return nil
	}
	if _, isStruct := f.Signature.Recv().Type().Underlying().(*types.Struct); !isStruct {
		return nil
	}
	recv := f.Params[0]
	var spill *ssa.Alloc
	for _, ref := range *recv.Referrers() {
		if st, ok := ref.(*ssa.Store); ok && st.Val == ssa.Value(recv) {
			if a, ok := st.Addr.(*ssa.Alloc); ok {
				spill = a
			}
		}
	}
	if spill == nil {
		return nil
	}
	var out []*ssa.Store
	for _, ref := range *spill.Referrers() {
		fa, ok := ref.(*ssa.FieldAddr)
		if !ok {
			continue
		}
		for _, r2 := range *fa.Referrers() {
			if st, ok := r2.(*ssa.Store); ok && st.Addr == ssa.Value(fa) {
				out = append(out, st)
			}
		}
	}
	return out
}

// ruleSameGetter (C09, C12, C15): utils.EqualTypedValues compares like with like: an == / != whose two operands are
// results of argument-less getters of the same receiver type (v1.X.GetPrefix() == v2.X.GetPrefix()) calls the SAME
// getter on both sides. Comparing one value's prefix with the other's module makes two identical values unequal.
func ruleSameGetter(w *core.World, r *core.Report, rule string) {
	f := w.Func("pkg/utils", "", "EqualTypedValues")
	if f == nil {
		return
	}
	getter := func(v ssa.Value) *ssa.Call {
		c, ok := v.(*ssa.Call)
		if !ok || c.Call.IsInvoke() {
			return nil
		}
		g := c.Call.StaticCallee()
		if g == nil || g.Signature.Recv() == nil || len(c.Call.Args) != 1 {
			return nil
		}
		return c
	}
	n := 0
	core.WithHost(f, func() {
		for _, b := range core.Blocks(f) {
			for _, in := range b.Instrs {
				bo, ok := in.(*ssa.BinOp)
				if !ok || (bo.Op != token.EQL && bo.Op != token.NEQ) {
					continue
				}
				x, y := getter(bo.X), getter(bo.Y)
				if x == nil || y == nil {
					continue
				}
				gx, gy := x.Call.StaticCallee(), y.Call.StaticCallee()
				if !types.Identical(gx.Signature.Recv().Type(), gy.Signature.Recv().Type()) {
					continue
				}
				n++
				r.Check(gx == gy, rule, core.Site(f, "%s compared with itself", gx.Name()), w.InstrPos(bo), fmt.Sprintf("the comparison pairs %s of one value with %s of the other: identical values whose two attributes differ compare unequal", gx.Name(), gy.Name()))
			}
		}
	})
	r.Extra["same_getter_comparisons"] = n
}

// ruleElemAppendOwned (C11, C13): append never aliases the elements of two paths. Wherever a value is stored into the
// Elem field of an sdcpb.Path (assignment or composite literal) and that value comes from append(<elements of a path
// P>, ...), P is the very path that receives it (np.Elem = append(np.Elem, ...) on the function's own clone). The
// append of another path's elements shares P's backing array when it has spare capacity: sibling paths built from one
// parent then all end in the element appended last.
func ruleElemAppendOwned(w *core.World, r *core.Report, rule string) {
	const elemField = "github.com/sdcio/sdc-protos/sdcpb.Path.Elem"
	n := 0
	for _, f := range w.RepoFns {
		if f.Pkg == nil {
			continue
		}
		pp := core.PkgPath(f)
		if !(strings.HasPrefix(pp, core.Module+"/pkg/utils") || strings.HasPrefix(pp, core.Module+"/pkg/tree") || strings.HasPrefix(pp, core.Module+"/pkg/datastore") || strings.HasPrefix(pp, core.Module+"/pkg/schema")) || strings.Contains(pp, "/mocks/") {
			continue
		}
		for _, b := range f.Blocks {
			for _, in := range b.Instrs {
				st, ok := in.(*ssa.Store)
				if !ok {
					continue
				}
				fa, ok := st.Addr.(*ssa.FieldAddr)
				if !ok || core.FieldKey(fa) != elemField {
					continue
				}
				for _, o := range core.Origins(st.Val) {
					ac, ok := o.(*ssa.Call)
					if !ok {
						continue
					}
					bi, isB := ac.Call.Value.(*ssa.Builtin)
					if !isB || bi.Name() != "append" || len(ac.Call.Args) == 0 {
						continue
					}
					if sl, isSl := ac.Call.Args[0].(*ssa.Slice); isSl && sl.Max != nil {
						continue // x[:n:n]: the append cannot write into x's backing array
					}
					// the path whose elements are appended to
					var src ssa.Value
					for _, ao := range append(core.Origins(ac.Call.Args[0]), ac.Call.Args[0]) {
						switch x := ao.(type) {
						case *ssa.UnOp:
							if xfa, ok := x.X.(*ssa.FieldAddr); ok && core.FieldKey(xfa) == elemField {
								src = xfa.X
							}
						case *ssa.Call:
							if core.CalleeIs(x, "github.com/sdcio/sdc-protos/sdcpb.Path.GetElem") {
								src = core.CallRecv(x)
							}
						}
					}
					if src == nil {
						continue
					}
					n++
					r.Check(src == fa.X || core.SameObject(src, fa.X), rule, core.Site(f, "append to the elements of the path that is assigned"), w.InstrPos(st), "the elements of ANOTHER path are appended to and become the Elem of this one: with spare capacity both share the backing array, and the next append through the other path overwrites this path's last element")
				}
			}
		}
	}
	r.Extra["elem_appends"] = n
}
