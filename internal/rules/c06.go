package rules

import (
	"fmt"
	"go/types"
	"strings"

	"golang.org/x/tools/go/ssa"

	"verif/internal/core"
)

func init() { Registry["C06"] = c06 }

const (
	kTM            = "datastore/types.TransactionManager"
	kTMSlot        = "datastore/types.TransactionManager.transaction"
	kGetTx         = "datastore/types.TransactionManager.GetTransaction"
	kCleanupTx     = "datastore/types.TransactionManager.CleanupTransaction"
	kRegisterTx    = "datastore/types.TransactionManager.RegisterTransaction"
	kTxConfirm     = "datastore/types.Transaction.Confirm"
	kTxGetRollback = "datastore/types.Transaction.GetRollbackTransaction"
	kRollbackIface = "datastore/types.RollbackInterface.TransactionRollback"
	kTimerStop     = "datastore/types.TransactionCancelTimer.Stop"
	kTimerStart    = "datastore/types.TransactionCancelTimer.Start"
	kStartTimer    = "datastore/types.Transaction.StartRollbackTimer"
	kGuardDone     = "datastore/types.TransactionGuard.Done"
	kGuardSuccess  = "datastore/types.TransactionGuard.Success"
	kTimerRunning  = "datastore/types.Transaction.IsRollbackTimerRunning"
)

// idChecked: instruction x of fn (a TransactionManager method with parameter id)
// executes only after the id was found to match: on the err==nil outcome of
// GetTransaction(id), or on the equal outcome of a comparison of the open
// transaction's id with the parameter.
func idChecked(x ssa.Instruction, fn *ssa.Function, id *ssa.Parameter) bool {
	for _, c := range core.CallsTo(fn, kGetTx) {
		args := core.CallArgs(c)
		if len(args) == 1 && core.HasOrigin(args[0], id) {
			if cc, ok := c.(*ssa.Call); ok && core.GuardedByErrNil(x, cc) {
				return true
			}
		}
	}
	return core.GuardedByEq(x, true,
		func(v ssa.Value) bool { return core.FieldOf(v) == "datastore/types.Transaction.transactionId" },
		func(v ssa.Value) bool { return core.HasOrigin(v, id) })
}

// callbackInvocationsOf: the calls through which closure a runs when it is only handed as a callback to virtually
// inlined helpers (nil otherwise).
func callbackInvocationsOf(a *ssa.Function) []*ssa.Call {
	par := a.Parent()
	if par == nil {
		return nil
	}
	isA := func(v ssa.Value) bool {
		if v == ssa.Value(a) {
			return true
		}
		mc, ok := v.(*ssa.MakeClosure)
		return ok && mc.Fn == ssa.Value(a)
	}
	var out []*ssa.Call
	for _, b := range par.Blocks {
		for _, in := range b.Instrs {
			if mc, ok := in.(*ssa.MakeClosure); ok && mc.Fn == ssa.Value(a) {
				continue
			}
			uses := false
			for _, op := range in.Operands(nil) {
				if op != nil && *op != nil && isA(*op) {
					uses = true
				}
			}
			if !uses {
				continue
			}
			s, ok := in.(*ssa.Call)
			if !ok {
				return nil
			}
			h := core.InlinedCallee(s)
			if h == nil {
				return nil
			}
			found := false
			for i, arg := range s.Call.Args {
				if !isA(arg) || i >= len(h.Params) {
					continue
				}
				p := h.Params[i]
				if p.Referrers() == nil {
					continue
				}
				for _, pr := range *p.Referrers() {
					switch pc := pr.(type) {
					case *ssa.Call:
						if pc.Call.Value != ssa.Value(p) {
							return nil
						}
						out = append(out, pc)
						found = true
					case *ssa.DebugRef:
					default:
						return nil
					}
				}
			}
			if !found {
				return nil
			}
		}
	}
	return out
}

func c06(w *core.World, r *core.Report) {
	types_ := "pkg/datastore/types"
	confirm := w.Func(types_, "TransactionManager", "Confirm")
	cancel := w.Func(types_, "TransactionManager", "Cancel")
	cleanup := w.Func(types_, "TransactionManager", "CleanupTransaction")
	getTx := w.Func(types_, "TransactionManager", "GetTransaction")
	register := w.Func(types_, "TransactionManager", "RegisterTransaction")
	txset := w.Func("pkg/datastore", "Datastore", "TransactionSet")
	low := w.Func("pkg/datastore", "Datastore", "lowlevelTransactionSet")
	if confirm == nil || cancel == nil || cleanup == nil || getTx == nil || register == nil || txset == nil || low == nil {
		return
	}

	// ---- ID-BEFORE-EFFECT
	r.Rule("ID-BEFORE-EFFECT", 6, "in TransactionManager.Confirm, Cancel and CleanupTransaction every effect on the open transaction (Transaction.Confirm, GetRollbackTransaction, timer Stop, RollbackInterface.TransactionRollback, a store to the transaction slot, a call to another id-taking manager method) executes only on the success outcome of an id test (err==nil of GetTransaction(id) or transactionId==id), and GetTransaction hands out the open transaction only on the equal outcome of transactionId vs id. Decides: a Confirm/Cancel naming another id cannot touch the open transaction.")
	effectKeys := []string{kTxConfirm, kTxGetRollback, kRollbackIface, kTimerStop, kStartTimer}
	for _, fn := range []*ssa.Function{confirm, cancel, cleanup} {
		id := core.Param(fn, "id")
		if id == nil {
			w.NoteUnresolved("parameter id of " + core.FuncKey(fn))
			continue
		}
		core.WithHost(fn, func() {
			for _, c := range core.Calls(fn) {
				isEffect := core.CalleeIs(c, effectKeys...)
				delegates := core.CalleeIs(c, kCleanupTx, "datastore/types.TransactionManager.Confirm", "datastore/types.TransactionManager.Cancel")
				if !isEffect && !delegates {
					continue
				}
				site := core.Site(fn, "call %s", core.CalleeKey(c))
				if delegates {
					// delegation to a method that checks the id itself is fine when the same id is passed
					args := core.CallArgs(c)
					same := false
					for _, a := range args {
						if core.HasOrigin(a, id) {
							same = true
						}
					}
					if same || idChecked(c, fn, id) {
						r.OK("ID-BEFORE-EFFECT", site, w.InstrPos(c), "delegates with the caller's id (callee checked separately)")
					} else {
						r.Viol("ID-BEFORE-EFFECT", site, w.InstrPos(c), "delegates with a different id and without a preceding id test")
					}
					continue
				}
				r.Check(idChecked(c, fn, id), "ID-BEFORE-EFFECT", site, w.InstrPos(c), "effect on the open transaction must be reachable only after the id matched")
			}
			for _, st := range core.StoresToField(fn, kTMSlot) {
				r.Check(idChecked(st, fn, id), "ID-BEFORE-EFFECT", core.Site(fn, "store transaction slot"), w.InstrPos(st), "clearing/replacing the open transaction must be reachable only after the id matched")
			}
			// closures of the method (deferred handlers) run whatever the id test said: they must not touch the slot or
			// the transaction unless they test the id themselves
			var anon func(a *ssa.Function)
			anon = func(a *ssa.Function) {
				// a closure that is handed as a callback to a helper which is part of the method (resolve(id, func(trans)
				// error {...})) runs where the helper calls it: its effects are judged at those calls
				if invs := callbackInvocationsOf(a); len(invs) > 0 {
					for _, c := range core.OwnCalls(a) {
						if !core.CalleeIs(c, effectKeys...) {
							continue
						}
						ok := true
						for _, pc := range invs {
							if !idChecked(pc, fn, id) {
								ok = false
							}
						}
						r.Check(ok, "ID-BEFORE-EFFECT", core.Site(fn, "call %s in a callback", core.CalleeKey(c)), w.InstrPos(c), "the callback that touches the open transaction is invoked at a point the id test does not guard")
					}
					for _, st := range core.StoresToField(a, kTMSlot) {
						ok := true
						for _, pc := range invs {
							if !idChecked(pc, fn, id) {
								ok = false
							}
						}
						r.Check(ok, "ID-BEFORE-EFFECT", core.Site(fn, "store transaction slot in a callback"), w.InstrPos(st), "the callback that clears the open transaction is invoked at a point the id test does not guard")
					}
					for _, b := range a.AnonFuncs {
						anon(b)
					}
					return
				}
				for _, st := range core.StoresToField(a, kTMSlot) {
					r.Check(idChecked(st, a, id), "ID-BEFORE-EFFECT", core.Site(fn, "store transaction slot in a closure"), w.InstrPos(st), "a deferred handler / closure of the method clears the open transaction without the id having matched (it also runs on the early return of a mismatch)")
				}
				for _, c := range core.OwnCalls(a) {
					if core.CalleeIs(c, effectKeys...) {
						r.Check(idChecked(c, a, id), "ID-BEFORE-EFFECT", core.Site(fn, "call %s in a closure", core.CalleeKey(c)), w.InstrPos(c), "a deferred handler / closure of the method touches the open transaction without the id having matched")
					}
				}
				for _, b := range a.AnonFuncs {
					anon(b)
				}
			}
			for _, a := range fn.AnonFuncs {
				anon(a)
			}
		})
	}
	// GetTransaction: non-nil transaction returned only when ids are equal
	{
		id := core.Param(getTx, "id")
		n := 0
		for _, ret := range core.EffectiveReturns(getTx) {
			if len(ret.Results) < 1 || core.IsNilConst(core.ReturnValues(ret)[0]) {
				continue
			}
			n++
			ok := id != nil && core.GuardedByEq(ret, true,
				func(v ssa.Value) bool { return core.FieldOf(v) == "datastore/types.Transaction.transactionId" },
				func(v ssa.Value) bool { return core.HasOrigin(v, id) })
			r.Check(ok, "ID-BEFORE-EFFECT", core.Site(getTx, "return transaction"), w.InstrPos(ret), "the open transaction is handed out only on the transactionId==id outcome")
			// and with a nil error
			ev := errorOperand(ret)
			r.Check(ev != nil && core.IsNilConst(ev), "ID-BEFORE-EFFECT", core.Site(getTx, "return transaction error"), w.InstrPos(ret), "success return carries a nil error")
		}
		for _, ret := range core.EffectiveReturns(getTx) {
			if len(ret.Results) >= 1 && core.IsNilConst(core.ReturnValues(ret)[0]) {
				ev := errorOperand(ret)
				r.Check(ev != nil && mayBeNonNil(w, ev, 0) && !core.IsNilConst(ev), "ID-BEFORE-EFFECT", core.Site(getTx, "return mismatch"), w.InstrPos(ret), "a mismatch must be reported with a non-nil error (callers test err)")
			}
		}
		if n == 0 {
			r.Viol("ID-BEFORE-EFFECT", core.Site(getTx, "return transaction"), w.Pos(getTx.Pos()), "GetTransaction never returns the transaction")
		}
	}

	// ---- EXCLUSIVE
	r.Rule("EXCLUSIVE", 3, "every store of a non-nil value to TransactionManager.transaction anywhere in the repository is in RegisterTransaction, after tmMutex.Lock, on the false outcome of transactionOngoing(), and transactionOngoing() is 'slot != nil'; RegisterTransaction returns a nil guard with a non-nil error when a transaction is ongoing. Decides: a second transaction cannot be registered while one is open.")
	nStores := 0
	for _, f := range w.RepoFns {
		if core.IsInlined(f) {
			continue // an unexported setter of the slot: its store is judged in the functions it is inlined into
		}
		for _, st := range core.StoresToField(f, kTMSlot) {
			if core.IsNilConst(st.Val) {
				continue
			}
			nStores++
			site := core.Site(f, "store transaction slot (non-nil)")
			if f != register {
				r.Viol("EXCLUSIVE", site, w.InstrPos(st), "the open-transaction slot is written outside RegisterTransaction")
				continue
			}
			core.WithHost(f, func() {
				r.Check(guardedBySlot(st, false), "EXCLUSIVE", site+" guard", w.InstrPos(st), "must execute only when the slot was found empty (slot == nil, directly or through a predicate such as transactionOngoing())")
				r.Check(lockedBefore(st, "datastore/types.TransactionManager.tmMutex"), "EXCLUSIVE", site+" lock", w.InstrPos(st), "must execute with tmMutex held (Lock before, Unlock deferred)")
			})
		}
	}
	if nStores == 0 {
		r.Viol("EXCLUSIVE", core.Site(register, "store transaction slot (non-nil)"), w.Pos(register.Pos()), "RegisterTransaction never registers the transaction")
	}
	{
		// occupied branch of RegisterTransaction returns (nil, non-nil error)
		n := 0
		for _, ret := range core.Returns(register) {
			if !guardedBySlot(ret, true) {
				continue
			}
			n++
			ev := errorOperand(ret)
			r.Check(len(ret.Results) == 2 && core.IsNilConst(core.ReturnValues(ret)[0]) && ev != nil && !core.IsNilConst(ev) && mayBeNonNil(w, ev, 0),
				"EXCLUSIVE", core.Site(register, "return while ongoing"), w.InstrPos(ret), "while a transaction is open RegisterTransaction must return no guard and a non-nil error")
		}
		if n == 0 {
			r.Viol("EXCLUSIVE", core.Site(register, "return while ongoing"), w.Pos(register.Pos()), "no return is guarded by the slot being occupied")
		}
	}

	// ---- WHO-MAY-RELEASE
	r.Rule("WHO-MAY-RELEASE", 4, "who-may-call: the functions that clear the open-transaction slot (store nil to TransactionManager.transaction, directly or through callees) are entered from outside package datastore/types only by Datastore.TransactionConfirm (Confirm), Datastore.TransactionCancel (Cancel) and by TransactionSet's deferred guard.Done(); the timer callback is the only other path. Decides: a further TransactionSet (or any other RPC) cannot release or replace an open transaction.")
	{
		cg := w.CG()
		clears := map[*ssa.Function]bool{}
		var work []*ssa.Function
		for _, f := range w.RepoFns {
			for _, st := range core.StoresToField(f, kTMSlot) {
				if core.IsNilConst(st.Val) && !clears[f] {
					clears[f] = true
					work = append(work, f)
				}
			}
		}
		typesPkg := core.Module + "/pkg/datastore/types"
		inTypes := func(f *ssa.Function) bool {
			for f.Parent() != nil {
				f = f.Parent()
			}
			return f.Pkg != nil && core.PkgPath(f) == typesPkg
		}
		for len(work) > 0 {
			f := work[0]
			work = work[1:]
			for _, e := range cg.In[f] {
				if e.Kind == "ref" || !inTypes(e.Caller) {
					continue
				}
				if !clears[e.Caller] {
					clears[e.Caller] = true
					work = append(work, e.Caller)
				}
			}
		}
		allowed := map[string]string{
			"datastore.Datastore.TransactionConfirm -> datastore/types.TransactionManager.Confirm": "call",
			"datastore.Datastore.TransactionCancel -> datastore/types.TransactionManager.Cancel":   "call",
			"datastore.Datastore.TransactionSet -> datastore/types.TransactionGuard.Done":          "defer",
			// arms the timer whose expiry (not the call) releases the transaction
			"datastore.Datastore.lowlevelTransactionSet -> datastore/types.Transaction.StartRollbackTimer": "call",
		}
		n := 0
		for f := range clears {
			for _, e := range cg.In[f] {
				if e.Kind == "ref" || inTypes(e.Caller) || strings.Contains(core.FuncKey(e.Caller), "mocks/") {
					continue
				}
				n++
				// a caller that is an unexported helper inlined into one function counts as that function
				// (a closure counts as the function it is written in)
				caller := e.Caller
				for caller.Parent() != nil {
					caller = caller.Parent()
				}
				key := core.HostKey(caller) + " -> " + core.FuncKey(f)
				how, ok := allowed[key]
				if ok && how == "defer" {
					_, ok = e.Site.(*ssa.Defer)
				}
				r.Check(ok, "WHO-MAY-RELEASE", key, w.InstrPos(e.Site), "only confirm, cancel, the timer and TransactionSet's own deferred guard may release the open transaction")
			}
		}
		if n == 0 {
			r.Viol("WHO-MAY-RELEASE", "callers", w.Pos(register.Pos()), "no caller releases a transaction")
		}
	}

	// ---- ARMED-OR-RELEASED
	r.Rule("ARMED-OR-RELEASED", 5, "never-wedge, structural part: in TransactionSet (a) a failed RegisterTransaction returns without waiting (no CFG cycle contains the call), (b) 'defer guard.Done()' is the first call on the success edge of RegisterTransaction, (c) guard.Success() — which keeps the transaction registered — executes only on the true outcome of Transaction.IsRollbackTimerRunning() of the registered transaction and on the err==nil outcome of lowlevelTransactionSet, (d) IsRollbackTimerRunning / TransactionCancelTimer.IsRunning report 'done != nil' under doneMutex, (e) the guard's cleanup closure reaches CleanupTransaction and Done() invokes it, (f) no method of package datastore/types writes a field of a value receiver (Success() must change the guard Done() reads). Decides: every return of TransactionSet either leaves a running rollback timer or unregisters the transaction.")
	armedOrReleased(w, r, txset, register)
	// (f) what Success() changes is what Done() looks at: a method of package datastore/types that writes a field of
	// its receiver has a pointer receiver (with a value receiver the write goes to the method's own copy)
	for _, f := range w.RepoFns {
		if f.Pkg == nil || core.PkgPath(f) != core.Module+"/pkg/datastore/types" || f.Parent() != nil {
			continue
		}
		for _, st := range lostReceiverWrites(f) {
			r.Viol("ARMED-OR-RELEASED", core.Site(f, "write to a field of a value receiver"), w.InstrPos(st), "the method changes its own copy of the receiver: the change (guard.Success() disarming the cleanup) is lost, so the cleanup always runs and a successfully applied transaction is unregistered while its rollback timer is armed")
		}
	}

	// ---- SLOT-CLEARED-ON-EXPIRY
	r.Rule("SLOT-CLEARED-ON-EXPIRY", 1, "in every TransactionManager method reachable from the timer callback (Transaction.rollback) that calls RollbackInterface.TransactionRollback, every path from that call to a function exit clears the transaction slot (store nil, or CleanupTransaction) — whatever the rollback returned. Decides: after the timeout the datastore accepts a new transaction even if the automatic rollback failed.")
	{
		tcbs := timerCallbacks(w)
		if len(tcbs) == 0 {
			w.NoteUnresolved("timer callback (function handed to types.NewTransactionCancelTimer)")
		}
		if len(tcbs) > 0 {
			reach := w.CG().Reachable(func(e core.Edge) bool { return e.Kind == "ref" || e.Kind == "dynamic-sig" }, tcbs...)
			for _, f := range w.RepoFns {
				if !reach[f] || f.Signature.Recv() == nil || core.TypeKey(f.Signature.Recv().Type()) != kTM {
					continue
				}
				if core.IsInlined(f) {
					continue // judged as part of the method it is inlined into
				}
				for _, c := range core.CallsTo(f, kRollbackIface) {
					after, tr := core.AlwaysAfterIn(f, c, func(in ssa.Instruction) bool {
						if st, ok := in.(*ssa.Store); ok {
							if fa, ok := st.Addr.(*ssa.FieldAddr); ok && core.FieldKey(fa) == kTMSlot && core.IsNilConst(st.Val) {
								return true
							}
						}
						if cc, ok := in.(ssa.CallInstruction); ok && core.CalleeIs(cc, kCleanupTx) {
							return true
						}
						return false
					})
					r.Check(after, "SLOT-CLEARED-ON-EXPIRY", core.Site(f, "after TransactionRollback"), w.InstrPos(c), fmt.Sprintf("the slot must be cleared on every path after the automatic rollback, also when it failed (path without: blocks %v)", tr))
				}
			}
		}
	}

	// ---- TIMER-ON-SUCCESS
	r.Rule("TIMER-ON-SUCCESS", 3, "in lowlevelTransactionSet StartRollbackTimer executes only after applyIntent and every cache.Client.Modify of the function returned err==nil (set-dominance + error guards), only when !IsRollback(), and its error is returned.")
	for _, c := range core.CallsTo(low, kStartTimer) {
		site := core.Site(low, "call StartRollbackTimer")
		for _, a := range core.CallsTo(low, kApplyIntent) {
			ac := a.(*ssa.Call)
			r.Check(core.GuardedByErrNil(c, ac), "TIMER-ON-SUCCESS", site+" after applyIntent ok", w.InstrPos(c), "timer must start only when the device accepted the change")
		}
		for i, m := range core.CallsTo(low, kModify) {
			mc := m.(*ssa.Call)
			// the Modify inside the per-intent loop is before the timer on every path that executes it
			okm := !core.CanFollow(c, m) && (core.GuardedByErrNil(c, mc) || modifyErrLeaves(low, mc))
			r.Check(okm, "TIMER-ON-SUCCESS", fmt.Sprintf("%s after Modify#%d ok", site, i), w.InstrPos(c), "timer must start only after the store writes succeeded and never before them")
		}
		r.Check(core.GuardedByBoolCall(c, false, "datastore/types.Transaction.IsRollback"), "TIMER-ON-SUCCESS", site+" not for rollbacks", w.InstrPos(c), "a rollback transaction must not arm a rollback of itself")
		cc := c.(*ssa.Call)
		returned := false
		for _, ret := range core.Returns(low) {
			if ev := errorOperand(ret); ev != nil {
				for _, oc := range core.OriginCalls(ev) {
					if oc == cc {
						returned = true
					}
				}
			}
		}
		r.Check(returned, "TIMER-ON-SUCCESS", site+" error returned", w.InstrPos(c), "a timer that failed to start must fail the transaction (otherwise nothing ends it)")
	}

	ruleTryLockPair(w, r)

	// ---- CLEANUP-ALWAYS (shared with C07)
	r.Rule("CLEANUP-ALWAYS", 2, "(shared with C07) the cleanup of a failed TransactionSet cannot be refused: GetTransaction / CleanupTransaction fail only with 'no open transaction' or 'another id'.")
	ruleCleanupOnlyIdFailures(w, r, "CLEANUP-ALWAYS")

	// ---- LOCK-ORDER (shared with C16): a callback run with a mutex held that the callback's own call chain takes again
	// (timer fired -> Rollback -> GetRollbackTransaction -> timer.Stop) wedges the datastore for good
	{
		roles := roleFns(w)
		lw := w.Locks(func(e core.Edge) bool {
			return roles[e.Caller] == "<guard cleanup>" && e.Callee != nil && core.FuncKey(e.Callee) == kCleanupTx
		})
		ruleLockOrder(w, r, lw)
	}
}

func ruleTryLockPair(w *core.World, r *core.Report) {
	r.Rule("TRYLOCK-PAIR", 3, "every sync.Mutex.TryLock in pkg/datastore: the failure edge returns ErrDatastoreLocked, and on the success edge 'defer Unlock()' of the same mutex field is registered before any other call. Decides: no path keeps dmutex after the RPC returned.")
	for _, f := range w.RepoFns {
		if f.Pkg == nil || core.PkgPath(f) != core.Module+"/pkg/datastore" {
			continue
		}
		for _, c := range core.OwnCallsTo(f, "sync.Mutex.TryLock") {
			cls := core.FieldOf(core.CallRecv(c))
			// judged in the function that keeps the lock: f itself, or - when TryLock sits in a small helper that reports
			// the outcome - every function the helper is part of
			for _, host := range core.Roots(f) {
				core.WithHost(host, func() {
					site := core.Site(host, "TryLock %s", cls)
					var def ssa.CallInstruction
					for _, d := range core.CallsTo(host, "sync.Mutex.Unlock") {
						if _, isDefer := d.(*ssa.Defer); isDefer && core.FieldOf(core.CallRecv(d)) == cls && guardedByThisBool(d, c.(*ssa.Call), true) {
							def = d
						}
					}
					if def == nil {
						r.Viol("TRYLOCK-PAIR", site, w.InstrPos(c), "no 'defer Unlock()' of the same mutex on the success edge of TryLock")
						return
					}
					bad := ""
					for _, o := range core.Calls(host) {
						if o == def || o == c {
							continue
						}
						if guardedByThisBool(o, c.(*ssa.Call), true) && !core.InstrBefore(def, o) {
							bad = core.CalleeKey(o) + " at " + w.InstrPos(o)
							break
						}
					}
					r.Check(bad == "", "TRYLOCK-PAIR", site, w.InstrPos(c), "defer Unlock() must precede every other call on the locked path; found before it: "+bad)
				})
			}
		}
	}
}

// guardedByThisBool: x executes only on outcome want of the boolean call c.
func guardedByThisBool(x ssa.Instruction, c *ssa.Call, want bool) bool {
	for _, g := range core.GuardsOf(x) {
		v, neg := core.StripNot(g.If.Cond)
		val := g.CondTrue()
		if neg {
			val = !val
		}
		if val != want {
			continue
		}
		for _, oc := range core.OriginCalls(v) {
			if oc == c {
				return true
			}
		}
	}
	return false
}

// lockedBefore: a Lock on the mutex field class dominates x and an Unlock of it is deferred before x.
func lockedBefore(x ssa.Instruction, class string) bool {
	fn := x.Parent()
	// must-lockset: the lock is held on every path reaching x (released by a deferred or by an explicit Unlock later)
	for _, h := range core.AnalyzeLocks(fn).HeldBefore(x) {
		if h.Class == class && h.Mode == "W" {
			return true
		}
	}
	locked, deferred := false, false
	for _, c := range core.Calls(fn) {
		if core.FieldOf(core.CallRecv(c)) != class {
			continue
		}
		switch {
		case core.CalleeIs(c, "sync.Mutex.Lock", "sync.RWMutex.Lock"):
			if _, isCall := c.(*ssa.Call); isCall && core.InstrBefore(c, x) {
				locked = true
			}
		case core.CalleeIs(c, "sync.Mutex.Unlock", "sync.RWMutex.Unlock"):
			if _, isDefer := c.(*ssa.Defer); isDefer && core.InstrBefore(c, x) {
				deferred = true
			}
		}
	}
	if locked && deferred {
		return true
	}
	// x sits in a helper that is part of its callers: the lock is held at every call of the helper
	if core.IsInlined(fn) {
		sites := core.InlineSites(fn)
		for _, s := range sites {
			if !lockedBefore(s, class) {
				return false
			}
		}
		return len(sites) > 0
	}
	return false
}

// modifyErrLeaves: the non-nil outcome of the Modify's error test leaves the function (returns) without reaching later code.
func modifyErrLeaves(fn *ssa.Function, m *ssa.Call) bool {
	for _, i := range core.Ifs(fn) {
		v, nilOnTrue, ok := core.NilTest(i.Cond)
		if !ok {
			continue
		}
		hit := false
		for _, oc := range core.OriginCalls(v) {
			if oc == m {
				hit = true
			}
		}
		if !hit {
			continue
		}
		// successor taken when err != nil
		succ := 0
		if nilOnTrue {
			succ = 1
		}
		blk := i.Block().Succs[succ]
		// every path from blk reaches a return without passing another If-join back into the loop: require that the
		// block ends in Return (the repo's idiom `if err != nil { return ... }`).
		if len(blk.Instrs) > 0 {
			if _, isRet := blk.Instrs[len(blk.Instrs)-1].(*ssa.Return); isRet {
				return true
			}
		}
	}
	return false
}

func armedOrReleased(w *core.World, r *core.Report, txset, register *ssa.Function) {
	regs := core.CallsTo(txset, kRegisterTx)
	if len(regs) != 1 {
		r.Undecided("ARMED-OR-RELEASED", core.Site(txset, "RegisterTransaction"), w.Pos(txset.Pos()), fmt.Sprintf("expected one RegisterTransaction call, found %d", len(regs)))
		return
	}
	reg := regs[0].(*ssa.Call)
	// (a) no polling
	r.Check(!core.OnCycle(reg), "ARMED-OR-RELEASED", core.Site(txset, "no-poll RegisterTransaction"), w.InstrPos(reg), "RegisterTransaction must not be retried in a loop while dmutex is held (Confirm/Cancel need that lock)")
	// the registered transaction value
	var tx ssa.Value
	if a := core.CallArgs(reg); len(a) == 2 {
		tx = a[1]
	}
	// (b) defer Done first on success edge
	var def ssa.CallInstruction
	for _, d := range core.CallsTo(txset, kGuardDone) {
		if _, isDefer := d.(*ssa.Defer); isDefer {
			def = d
		}
	}
	if def == nil {
		r.Viol("ARMED-OR-RELEASED", core.Site(txset, "defer guard.Done"), w.Pos(txset.Pos()), "the transaction guard's Done() is not deferred: error returns leave the transaction registered")
	} else {
		okRecv := false
		for _, oc := range core.OriginCalls(core.CallRecv(def)) {
			if oc == reg {
				okRecv = true
			}
		}
		r.Check(okRecv, "ARMED-OR-RELEASED", core.Site(txset, "defer guard.Done receiver"), w.InstrPos(def), "the deferred Done() must be the guard returned by RegisterTransaction")
		bad := ""
		for _, o := range core.Calls(txset) {
			if o == def || o == reg {
				continue
			}
			if !core.CanFollow(reg, o) {
				continue
			}
			// calls on the failure edge of register are exempt
			if guardedByErrNonNil(o, reg) || guardedByNilResult(o, reg) {
				continue
			}
			if !core.InstrBefore(def, o) {
				bad = core.CalleeKey(o) + " at " + w.InstrPos(o)
				break
			}
		}
		r.Check(bad == "", "ARMED-OR-RELEASED", core.Site(txset, "defer guard.Done first"), w.InstrPos(def), "Done() must be deferred before any other call after a successful registration; found before it: "+bad)
	}
	// (c) Success guarded
	succ := core.CallsTo(txset, kGuardSuccess)
	for _, s := range succ {
		site := core.Site(txset, "call guard.Success")
		okTimer := false
		for _, g := range core.GuardsOf(s) {
			v, neg := core.StripNot(g.If.Cond)
			val := g.CondTrue()
			if neg {
				val = !val
			}
			if !val {
				continue
			}
			for _, oc := range core.OriginCalls(v) {
				if core.CalleeIs(oc, kTimerRunning) && tx != nil && core.HasOrigin(core.CallRecv(oc), tx) {
					okTimer = true
				}
				if core.CalleeIs(oc, kTimerRunning) && tx != nil {
					for _, o1 := range core.Origins(core.CallRecv(oc)) {
						for _, o2 := range core.Origins(tx) {
							if o1 == o2 {
								okTimer = true
							}
						}
					}
				}
			}
		}
		r.Check(okTimer, "ARMED-OR-RELEASED", site+" only when armed", w.InstrPos(s), "Success() keeps the transaction registered; it may execute only when the rollback timer of that transaction is running (applied transaction), otherwise nothing will ever clear the slot")
		okLow := false
		for _, l := range core.CallsTo(txset, kLowlevel) {
			if core.GuardedByErrNil(s, l.(*ssa.Call)) {
				okLow = true
			}
		}
		r.Check(okLow, "ARMED-OR-RELEASED", site+" only after pipeline ok", w.InstrPos(s), "Success() only on the err==nil outcome of lowlevelTransactionSet")
	}
	if len(succ) == 0 {
		r.Info("ARMED-OR-RELEASED", core.Site(txset, "call guard.Success"), w.Pos(txset.Pos()), "Success() is never called: every transaction is unregistered on return")
	}
	// (d) state query definitions
	isRunning := w.Func("pkg/datastore/types", "TransactionCancelTimer", "IsRunning")
	timerRunning := w.Func("pkg/datastore/types", "Transaction", "IsRollbackTimerRunning")
	if isRunning != nil {
		ok := false
		for _, ret := range core.Returns(isRunning) {
			for _, res := range ret.Results {
				for _, o := range core.Origins(res) {
					if x, nilOnTrue, isNil := core.NilTest(o); isNil && !nilOnTrue && core.FieldOf(x) == "datastore/types.TransactionCancelTimer.done" {
						ok = true
					}
				}
			}
		}
		r.Check(ok, "ARMED-OR-RELEASED", core.Site(isRunning, "definition"), w.Pos(isRunning.Pos()), "IsRunning() must be 'done != nil'")
		for _, l := range core.LoadsOfField(isRunning, "datastore/types.TransactionCancelTimer.done") {
			r.Check(lockedBefore(l.(ssa.Instruction), "datastore/types.TransactionCancelTimer.doneMutex"), "ARMED-OR-RELEASED", core.Site(isRunning, "reads done under doneMutex"), w.InstrPos(l.(ssa.Instruction)), "the timer state is read under its mutex")
		}
	}
	if timerRunning != nil {
		calls := core.CallsTo(timerRunning, "datastore/types.TransactionCancelTimer.IsRunning")
		okT := len(calls) >= 1
		// result must depend on the IsRunning call and be false when the timer is nil
		for _, ret := range core.Returns(timerRunning) {
			if len(ret.Results) != 1 {
				okT = false
				continue
			}
			dep := false
			for _, o := range core.Origins(ret.Results[0]) {
				if c, isCall := o.(*ssa.Call); isCall && core.CalleeIs(c, "datastore/types.TransactionCancelTimer.IsRunning") {
					dep = true
				}
				if b, isB := core.ConstBool(o); isB && b {
					okT = false // a constant true answer claims "armed" without asking the timer
				}
			}
			_ = dep
		}
		r.Check(okT, "ARMED-OR-RELEASED", core.Site(timerRunning, "definition"), w.Pos(timerRunning.Pos()), "IsRollbackTimerRunning() must ask the timer and never answer a constant true")
	}
	// (e) guard cleanup wiring
	cg := w.CG()
	cleanup := w.Func("pkg/datastore/types", "TransactionManager", "CleanupTransaction")
	done := w.Func("pkg/datastore/types", "TransactionGuard", "Done")
	if cleanup != nil && done != nil {
		ok, chain := cg.Reaches(done, cleanup, func(e core.Edge) bool { return e.Kind == "ref" })
		r.Check(ok, "ARMED-OR-RELEASED", core.Site(done, "reaches CleanupTransaction"), w.Pos(done.Pos()), fmt.Sprintf("guard.Done() must reach TransactionManager.CleanupTransaction through the cleanup closure (chain %v)", chain))
		// the cleanup closure passes the id of the transaction being registered
		for _, f := range register.AnonFuncs {
			for _, c := range core.CallsTo(f, kCleanupTx) {
				args := core.CallArgs(c)
				okArg := len(args) == 1 && core.FieldOf(args[0]) == "datastore/types.Transaction.transactionId"
				r.Check(okArg, "ARMED-OR-RELEASED", core.Site(f, "cleanup id"), w.InstrPos(c), "the cleanup must name the id of the transaction it was created for")
			}
		}
	}
}

func guardedByErrNonNil(x ssa.Instruction, c *ssa.Call) bool {
	for _, g := range core.GuardsOf(x) {
		v, nilOnTrue, ok := core.NilTest(g.If.Cond)
		if !ok || nilOnTrue == g.CondTrue() {
			continue
		}
		if !isErrorType(v.Type()) {
			continue
		}
		for _, oc := range core.OriginCalls(v) {
			if oc == c {
				return true
			}
		}
	}
	return false
}

// guardedByNilResult: x executes only when a non-error pointer result of c was found nil.
func guardedByNilResult(x ssa.Instruction, c *ssa.Call) bool {
	for _, g := range core.GuardsOf(x) {
		v, nilOnTrue, ok := core.NilTest(g.If.Cond)
		if !ok || nilOnTrue != g.CondTrue() {
			continue
		}
		if isErrorType(v.Type()) {
			continue
		}
		for _, oc := range core.OriginCalls(v) {
			if oc == c {
				return true
			}
		}
	}
	return false
}

var _ = types.Typ

// slotTest: is cond a test of the open-transaction slot? occupiedOnTrue tells what its true outcome means. Either a
// nil test of the slot itself, or a call of a predicate of package types whose every return is such a nil test.
func slotTest(cond ssa.Value) (isTest, occupiedOnTrue bool) {
	return slotPred(cond, 0)
}

// slotPred: v is, on every origin, a nil test of the slot or the result of a predicate whose every return is one
// (transactionOngoing(), or transactionOngoing() forwarding to a predicate of a wrapper of the slot).
func slotPred(v ssa.Value, depth int) (bool, bool) {
	v, neg := core.StripNot(v)
	os := core.Origins(v)
	if len(os) == 0 || depth > 3 {
		return false, false
	}
	first, occ := true, false
	for _, o := range os {
		var this bool
		if x, nilOnTrue, ok := core.NilTest(o); ok {
			if core.FieldOf(x) != kTMSlot {
				return false, false
			}
			this = !nilOnTrue
		} else if c, isCall := o.(*ssa.Call); isCall {
			g := c.Call.StaticCallee()
			if g == nil || g.Blocks == nil || g.Signature.Results().Len() != 1 {
				return false, false
			}
			rets := core.Returns(g)
			if len(rets) == 0 {
				return false, false
			}
			for i, ret := range rets {
				ok, o2 := slotPred(ret.Results[0], depth+1)
				if !ok || (i > 0 && o2 != this) {
					return false, false
				}
				this = o2
			}
		} else {
			return false, false
		}
		if !first && this != occ {
			return false, false
		}
		first, occ = false, this
	}
	if neg {
		occ = !occ
	}
	return true, occ
}

// guardedBySlot: x executes only when the slot was found occupied (want=true) / empty (want=false).
func guardedBySlot(x ssa.Instruction, want bool) bool {
	for _, a := range core.GuardAtoms(x) {
		if isTest, occOnTrue := slotTest(a.Cond); isTest && (occOnTrue == a.True) == want {
			return true
		}
	}
	return false
}
