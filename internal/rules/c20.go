package rules

import (
	"fmt"
	"go/token"
	"go/types"
	"strings"

	"golang.org/x/tools/go/ssa"

	"verif/internal/core"
)

func init() { Registry["C20"] = c20 }

// c20Scope: functions that handle input-shaped values (requests, device messages), found by reachability
// from the RPC handlers and the device-message entry points, restricted to the parsing/conversion packages.
func c20Scope(w *core.World) map[*ssa.Function]bool {
	roots := []*ssa.Function{
		w.Func("pkg/server", "Server", "TransactionSet"),
		w.Func("pkg/server", "Server", "TransactionConfirm"),
		w.Func("pkg/server", "Server", "TransactionCancel"),
		w.Func("pkg/server", "Server", "GetData"),
		w.Func("pkg/server", "Server", "Subscribe"),
		w.Func("pkg/server", "Server", "WatchDeviations"),
		w.Func("pkg/server", "Server", "ListIntent"),
		w.Func("pkg/server", "Server", "GetIntent"),
		w.Func("pkg/datastore", "Datastore", "storeSyncMsg"),
		w.Func("pkg/datastore/target", "ncTarget", "Get"),
		w.Func("pkg/datastore/target/netconf", "XML2sdcpbConfigAdapter", "Transform"),
		w.Func("pkg/utils", "", "ParsePath"),
		w.Func("pkg/utils", "", "StripPathElemPrefix"),
		w.Func("pkg/tree", "sharedEntryAttributes", "ImportConfig"),
		w.Func("pkg/utils", "", "ToSchemaNotification"),
	}
	reach := w.CG().Reachable(func(e core.Edge) bool { return e.Kind == "ref" || e.Kind == "dynamic-sig" }, roots...)
	out := map[*ssa.Function]bool{}
	for f := range reach {
		if f.Pkg == nil || f.Blocks == nil {
			continue
		}
		p := core.PkgPath(f)
		if p == core.Module+"/pkg/utils" || p == core.Module+"/pkg/datastore/target/netconf" || strings.HasPrefix(p, core.Module+"/pkg/tree/importer") ||
			p == core.Module+"/pkg/datastore/clients/schema" || p == core.Module+"/pkg/server" || p == core.Module+"/pkg/datastore" || p == core.Module+"/pkg/tree" {
			out[f] = true
		}
	}
	return out
}

func isProtoMsgPtr(t types.Type) bool {
	pt, ok := t.(*types.Pointer)
	if !ok {
		return false
	}
	n, ok := pt.Elem().(*types.Named)
	if !ok || n.Obj().Pkg() == nil {
		return false
	}
	pp := n.Obj().Pkg().Path()
	if pp != "github.com/sdcio/sdc-protos/sdcpb" && pp != "github.com/openconfig/gnmi/proto/gnmi" {
		return false
	}
	_, isStruct := n.Underlying().(*types.Struct)
	return isStruct
}

// inputMsg: protobuf message types whose content is chosen by a client or a device.
var inputMsg = map[string]bool{"Update": true, "Path": true, "PathElem": true, "TypedValue": true, "Notification": true, "TransactionIntent": true,
	"TransactionSetRequest": true, "GetDataRequest": true, "DataStore": true, "SubscribeRequest": true, "Subscription": true, "ScalarArray": true,
	"Decimal64": true, "IdentityRef": true, "WatchDeviationRequest": true, "TransactionConfirmRequest": true, "TransactionCancelRequest": true}

func isInputMsgPtr(t types.Type) bool {
	if !isProtoMsgPtr(t) {
		return false
	}
	return inputMsg[t.(*types.Pointer).Elem().(*types.Named).Obj().Name()]
}

// nilGuarded: instruction x executes only after base (or the same expression evaluated again) was found non-nil.
func nilGuarded(x ssa.Instruction, base ssa.Value) bool {
	for _, g := range core.GuardsOf(x) {
		v, nilOnTrue, ok := core.NilTest(g.If.Cond)
		if !ok || nilOnTrue == g.CondTrue() {
			continue
		}
		if sameExpr(v, base) || core.SameObject(v, base) {
			return true
		}
	}
	return false
}

// guardedByTypeCase: x executes only inside `case *<want>:` of a type switch (or after a comma-ok assertion) over recv's oneof field / over value v.
func guardedByAssert(x ssa.Instruction, match func(ta *ssa.TypeAssert) bool) bool {
	for _, g := range core.GuardsOf(x) {
		if !g.CondTrue() {
			continue
		}
		for _, o := range append(core.Origins(g.If.Cond), g.If.Cond) {
			if ex, ok := o.(*ssa.Extract); ok {
				if ta, ok := ex.Tuple.(*ssa.TypeAssert); ok && ta.CommaOk && match(ta) {
					return true
				}
			}
		}
	}
	return false
}

// emptyAt: x executes only where len(<same expression as base>) == 0 was found true.
func emptyAt(x ssa.Instruction, base ssa.Value) bool {
	for _, a := range core.GuardAtoms(x) {
		l, r, eqOnTrue, ok := core.EqTest(a.Cond)
		if !ok || eqOnTrue != a.True {
			continue
		}
		for _, pair := range [][2]ssa.Value{{l, r}, {r, l}} {
			z, isC := core.ConstInt(pair[1])
			c, isCall := pair[0].(*ssa.Call)
			if !isC || z != 0 || !isCall {
				continue
			}
			if bi, isB := c.Common().Value.(*ssa.Builtin); isB && bi.Name() == "len" && (c.Common().Args[0] == base || sameExpr(c.Common().Args[0], base)) {
				return true
			}
		}
	}
	return false
}

// lenGuarded: x executes only on an outcome of a comparison that involves len(<same expression as base>).
func lenGuarded(x ssa.Instruction, base ssa.Value) bool {
	for _, g := range core.GuardsOf(x) {
		v, _ := core.StripNot(g.If.Cond)
		bo, ok := v.(*ssa.BinOp)
		if !ok {
			continue
		}
		for _, op := range []ssa.Value{bo.X, bo.Y} {
			for _, o := range append(core.Origins(op), op) {
				c, isC := o.(*ssa.Call)
				if !isC {
					continue
				}
				if bi, isB := c.Common().Value.(*ssa.Builtin); isB && bi.Name() == "len" && (sameExpr(c.Common().Args[0], base) || core.SameObject(c.Common().Args[0], base)) {
					return true
				}
			}
		}
	}
	return false
}

var nilableCallees = map[string]string{
	"github.com/beevik/etree.Element.FindElement":     "returns nil when no element matches",
	"github.com/beevik/etree.Element.SelectElement":   "returns nil when no child has that tag",
	"github.com/beevik/etree.Element.FindElementPath": "returns nil when no element matches",
	"github.com/beevik/etree.Document.Root":           "returns nil for an empty document",
	"github.com/beevik/etree.Element.Parent":          "returns nil for the root",
}

// textIndexExceptions: functions whose constant string index is not on request / device text (frozen, with reason).
var textIndexExceptions = map[string]string{
	"tree.sharedEntryAttributes.NavigateLeafRef": "the indexed string is the leafref path-arg of the schema (RFC 7950 9.9.2: a non-empty path), after StripPathElemPrefix and ParsePath accepted it; it is schema text, not request or device input",
}

// assertedFromAny: v is the pointer a type assertion / type-switch case took out of an empty-interface value.
func assertedFromAny(v ssa.Value) *ssa.TypeAssert {
	var ta *ssa.TypeAssert
	switch x := v.(type) {
	case *ssa.TypeAssert:
		if !x.CommaOk {
			ta = x
		}
	case *ssa.Extract:
		if t, ok := x.Tuple.(*ssa.TypeAssert); ok && x.Index == 0 {
			ta = t
		}
	}
	if ta == nil {
		return nil
	}
	if it, ok := ta.X.Type().Underlying().(*types.Interface); !ok || it.NumMethods() != 0 {
		return nil
	}
	if _, isPtr := ta.AssertedType.Underlying().(*types.Pointer); !isPtr {
		return nil
	}
	return ta
}

func c20(w *core.World, r *core.Report) {
	scope := c20Scope(w)
	r.Extra["boundary_scope_functions"] = len(scope)

	r.Rule("OPTIONAL-MSG", 5, "K1: a field selected directly on the result of a protobuf getter of a client/device-controlled message (x.GetA().B) needs a dominating nil test of that getter expression, or — for oneof getters of TypedValue — the enclosing 'case *TypedValue_XVal' of the same value (the wrapper is then non-nil by protobuf decoding). K1p: a possibly-absent sub-message (getter result, not nil-tested) must not be passed to a repository function that selects a field of that parameter without a nil test.")
	r.Rule("CHECKED-ASSERT", 0, "K3: a single-result type assertion on an 'any' value (JSON-decoded data) in the boundary scope must be inside the matching case of a type switch / after a successful comma-ok assertion of the same value to the same type.")
	r.Rule("NILABLE-RESULT", 0, "K4: the result of etree FindElement / SelectElement / Root (nil when nothing matches) is used as a receiver only after a nil test.")
	r.Rule("ERR-BRANCH-USE", 10, "K6 (contradiction rule): on the err != nil outcome of 'v, err := f()' the co-result v is not dereferenced or used as a method receiver (by convention it is nil there).")
	r.Rule("SPLIT-INDEX", 0, "K2: a constant index >= 1 into the result of strings.Split / SplitN / Fields (input-shaped text) is dominated by a test of len() of that result.")

	r.Rule("EMPTY-INDEX", 0, "K9: a constant index into a slice that a repository function (or an interface method of the repository) just returned is dominated by a test of len() of that slice: results of lookups and filters are empty when nothing matches (e.g. GetHighestPrecedence skips variants that are being deleted).")
	r.Rule("RUNNER-UP-NIL", 0, "K10: a runner-up accumulator of a selection loop (a pointer that starts as nil and receives the displaced value of the primary accumulator: secondHighest = highest) is nil for a collection with one element; every dereference of it, and every call that hands it to a function dereferencing that parameter, is dominated by a nil test of it.")
	if nR := c20RunnerUpNil(w, r, scope); nR == 0 {
		r.OK("RUNNER-UP-NIL", "no runner-up accumulator is dereferenced in the boundary scope", "", "")
	}
	r.Rule("PRODUCER-CONCURRENT", 0, "K11: a function of the boundary scope that makes a channel and drains it in a loop starts everything that fills the channel (a closure capturing it, a function handed it) with a go statement: called synchronously before the drain loop the producer blocks for good once the buffer is full (RootEntry.Validate collects the validation results this way; the number of results is input-controlled).")
	if nP := c20ProducerConcurrent(w, r, scope); nP == 0 {
		r.OK("PRODUCER-CONCURRENT", "no make-then-drain function in the boundary scope", "", "")
	}
	r.Rule("TYPED-NIL", 1, "K7: in the boundary scope a function with an interface result does not return a possibly nil POINTER converted to that interface (nil constant of pointer type, or the result of a repository function that has a 'return nil') unless a nil test of the pointer dominates the conversion: the caller's 'x == nil' is false for a typed nil and the next method call dereferences nil.")
	r.Rule("EXPAND-PROGRESS", 3, "K8: the self-recursion of Converter.ConvertNotificationTypedValues on the result of ExpandUpdate makes progress: in ExpandUpdate no store that puts the input update into a result slice is dominated by the JSON decode of the container branch (a JSON blob on a container is replaced by its expansion, never handed back). K8b: for the kinds ExpandUpdate does hand back (leaf, leaf-list: nothing to expand) the conversion step whose nil result leads to ExpandUpdate (found structurally: the callee whose result is nil-tested on the way to that call) has no 'return nil, nil' on the 'schema is a leaf-list / leaf' outcome unless the 'update has no value' outcome dominates it: an update with a JSON value on such a node is converted or refused, never sent round the recursion again.")
	if nT := c20TypedNil(w, r, scope); nT == 0 {
		r.OK("TYPED-NIL", "no possibly-nil pointer is returned as an interface in the boundary scope", "", "")
	}
	c20ExpandProgress(w, r)
	c20ExpandProgressKinds(w, r)

	r.Rule("ASSERTED-MSG", 0, "K12: a field selected on a protobuf message pointer that a type switch / type assertion took out of an 'any' value (case *sdcpb.Decimal64: v.Precision) needs a dominating nil test of that pointer, for the message types that the repository itself can leave nil inside a TypedValue (a oneof wrapper field is assigned the result of a repository function that can return nil: ParseDecimal64 answers (nil, nil) for an empty text): utils.GetSchemaValue boxes the getter result, and the typed nil still matches the case. (Wire-decoded sub-messages are never nil inside a set oneof; getter calls are nil-safe.)")
	// message types the repository can leave nil inside a oneof wrapper of TypedValue -> who does it
	nilableBoxed := map[string]string{}
	for _, f := range w.RepoFns {
		for _, b := range f.Blocks {
			for _, in := range b.Instrs {
				st, ok := in.(*ssa.Store)
				if !ok || !strings.HasPrefix(core.FieldOf(st.Addr), "github.com/sdcio/sdc-protos/sdcpb.TypedValue_") {
					continue
				}
				if _, isPtr := st.Val.Type().Underlying().(*types.Pointer); !isPtr {
					continue
				}
				idx := 0
				if ex, isEx := st.Val.(*ssa.Extract); isEx {
					idx = ex.Index
				}
				for _, oc := range core.OriginCalls(st.Val) {
					if g := oc.Call.StaticCallee(); g != nil && g.Blocks != nil && g.Pkg != nil && strings.HasPrefix(core.PkgPath(g), core.Module) && mayReturnNilPtr(g, idx) && !nilGuarded(st, st.Val) {
						nilableBoxed[st.Val.Type().String()] = core.FuncKey(f) + " stores the result of " + core.FuncKey(g)
					}
				}
			}
		}
	}
	r.Extra["k12_nilable_boxed_types"] = nilableBoxed
	nK1, nK3, nK4, nK6, nK2, nK12 := 0, 0, 0, 0, 0, 0
	// derefParams: functions that select a field of a protobuf-message parameter without a nil guard
	type pkey struct {
		f   *ssa.Function
		idx int
	}
	derefs := map[pkey]ssa.Instruction{}
	for _, f := range w.RepoFns {
		if f.Pkg == nil || !strings.HasPrefix(core.PkgPath(f), core.Module+"/pkg/") {
			continue
		}
		for _, b := range f.Blocks {
			for _, in := range b.Instrs {
				fa, ok := in.(*ssa.FieldAddr)
				if !ok || !isInputMsgPtr(fa.X.Type()) {
					continue
				}
				p, isP := fa.X.(*ssa.Parameter)
				if !isP || nilGuarded(fa, p) {
					continue
				}
				for i, q := range f.Params {
					if q == p {
						if _, seen := derefs[pkey{f, i}]; !seen {
							derefs[pkey{f, i}] = fa
						}
					}
				}
			}
		}
	}

	for f := range scope {
		for _, b := range f.Blocks {
			for _, in := range b.Instrs {
				switch x := in.(type) {
				case *ssa.FieldAddr:
					// K12: a protobuf message pointer taken out of an 'any' by a type switch / assertion
					if ta := assertedFromAny(x.X); ta != nil && isInputMsgPtr(x.X.Type()) && nilableBoxed[x.X.Type().String()] != "" {
						nK12++
						r.Check(nilGuarded(x, x.X), "ASSERTED-MSG", core.Site(f, "(%s).%s", shortSrc(ta.AssertedType.String()), shortSrc(core.FieldKey(x))), w.InstrPos(x), "the pointer comes out of an 'any' that utils.GetSchemaValue (and the other boxing helpers) fill from protobuf getters: for an absent sub-message it is a typed nil, which matches the case and is dereferenced here (an empty decimal64 value crashes the request path)")
						continue
					}
					c, isCall := x.X.(*ssa.Call)
					if !isCall || !isInputMsgPtr(x.X.Type()) {
						continue
					}
					k := core.CalleeKey(c)
					if !strings.Contains(k, ".Get") {
						continue
					}
					nK1++
					site := core.Site(f, "%s().%s", shortSrc(k), shortSrc(core.FieldKey(x)))
					ok := nilGuarded(x, c)
					if !ok && strings.HasSuffix(k, "Val") {
						// oneof getter inside its own case
						kind := k[strings.LastIndex(k, ".Get")+4:]
						recv := core.CallRecv(c)
						ok = guardedByAssert(x, func(ta *ssa.TypeAssert) bool {
							return strings.HasSuffix(ta.AssertedType.String(), "TypedValue_"+kind) && (core.FieldOf(ta.X) != "" && core.SameObject(core.FieldBase(ta.X), recv) || strings.HasSuffix(core.CalleeKey2(ta.X), "GetValue"))
						})
					}
					r.Check(ok, "OPTIONAL-MSG", site, w.InstrPos(x), "field of a possibly absent sub-message selected without a nil test (a request / device message that omits it crashes the server)")
				case ssa.CallInstruction:
					callee := x.Common().StaticCallee()
					// K1p
					if callee != nil {
						args := x.Common().Args
						for i, a := range args {
							d, isD := derefs[pkey{callee, i}]
							if !isD {
								continue
							}
							gc, isCall := a.(*ssa.Call)
							if !isCall || !isInputMsgPtr(a.Type()) || !strings.Contains(core.CalleeKey(gc), ".Get") {
								continue
							}
							nK1++
							site := core.Site(f, "passes %s() to %s", shortSrc(core.CalleeKey(gc)), core.FuncKey(callee))
							okp := nilGuarded(x, gc)
							if gk := core.CalleeKey(gc); !okp && strings.HasSuffix(gk, "Val") {
								// oneof getter inside its own case: the wrapper, hence the sub-message, is set
								kind := gk[strings.LastIndex(gk, ".Get")+4:]
								recv := core.CallRecv(gc)
								okp = guardedByAssert(x, func(ta *ssa.TypeAssert) bool {
									return strings.HasSuffix(ta.AssertedType.String(), "TypedValue_"+kind) && (core.FieldOf(ta.X) != "" && core.SameObject(core.FieldBase(ta.X), recv) || strings.HasSuffix(core.CalleeKey2(ta.X), "GetValue"))
								})
							}
							r.Check(okp, "OPTIONAL-MSG", site, w.InstrPos(x), fmt.Sprintf("a possibly absent sub-message is handed to a function that selects a field of it without a nil test (%s)", w.InstrPos(d)))
						}
					}
					// K4
					if rv := core.CallRecv(x); rv != nil {
						if src, isCall := rv.(*ssa.Call); isCall {
							if why, isNilable := nilableCallees[core.CalleeKey(src)]; isNilable {
								nK4++
								r.Check(nilGuarded(x, src), "NILABLE-RESULT", core.Site(f, "%s on result of %s", shortSrc(core.CalleeKey(x)), shortSrc(core.CalleeKey(src))), w.InstrPos(x), why)
							}
						}
						// the result stored in a variable first
						orig := core.Origins(rv)
						for _, oc := range core.OriginCalls(rv) {
							if oc == rv || len(orig) != 1 {
								continue // merged with other values (e.g. replaced when nil): not decidable here, not armed
							}
							if why, isNilable := nilableCallees[core.CalleeKey(oc)]; isNilable {
								nK4++
								r.Check(nilGuarded(x, rv) || nilGuarded(x, oc), "NILABLE-RESULT", core.Site(f, "%s on result of %s", shortSrc(core.CalleeKey(x)), shortSrc(core.CalleeKey(oc))), w.InstrPos(x), why)
							}
						}
					}
				case *ssa.TypeAssert:
					if x.CommaOk {
						continue
					}
					it, isI := x.X.Type().Underlying().(*types.Interface)
					if !isI || it.NumMethods() != 0 {
						continue
					}
					// sync.Map values and the like are not input shaped: only values that come from parameters / JSON decoding
					src := "other"
					for _, o := range append(core.Origins(x.X), x.X) {
						switch oo := o.(type) {
						case *ssa.Parameter:
							src = "param"
						case *ssa.Lookup, *ssa.Next, *ssa.Index, *ssa.IndexAddr:
							src = "collection"
							_ = oo
						case *ssa.Call:
							if strings.Contains(core.CalleeKey(oo), "sync.Map") {
								src = "sync.Map"
							}
						}
					}
					if src == "sync.Map" || src == "other" {
						continue
					}
					nK3++
					ok := guardedByAssert(x, func(ta *ssa.TypeAssert) bool {
						return types.Identical(ta.AssertedType, x.AssertedType) && (ta.X == x.X || core.SameObject(ta.X, x.X))
					})
					r.Check(ok, "CHECKED-ASSERT", core.Site(f, "%s.(%s)", x.X.Name(), shortSrc(x.AssertedType.String())), w.InstrPos(x), "unchecked type assertion on decoded input: any other JSON type panics")
				case *ssa.IndexAddr, *ssa.Index:
					var base, idx ssa.Value
					if ia, ok := x.(*ssa.IndexAddr); ok {
						base, idx = ia.X, ia.Index
					} else if ix, ok := x.(*ssa.Index); ok {
						base, idx = ix.X, ix.Index
					}
					n, isC := core.ConstInt(idx)
					if isC && n >= 0 && emptyAt(x.(ssa.Instruction), base) {
						// contradiction: indexed on the very branch that found the slice empty
						r.Viol("EMPTY-INDEX", core.Site(f, "index %d on the len()==0 branch", n), w.InstrPos(x.(ssa.Instruction)), "the slice was just found empty on this branch: the index panics instead of reporting the problem")
					}
					if isC && n >= 0 {
						// K9: a constant index into what a repository function just returned
						if _, isSlice := base.Type().Underlying().(*types.Slice); isSlice {
							var from *ssa.Call
							core.WithoutInlining(func() {
								for _, oc := range core.OriginCalls(base) {
									if isRepoCallee(oc) {
										from = oc
									}
								}
							})
							if from != nil {
								in9 := x.(ssa.Instruction)
								r.Check(lenGuarded(in9, base), "EMPTY-INDEX", core.Site(f, "index %d into the result of %s", n, shortSrc(core.CalleeKey(from))), w.InstrPos(in9), "the callee can hand back an empty slice (nothing matched): indexing it panics")
							}
						}
					}
					if !isC || n < 1 {
						continue
					}
					fromSplit := false
					for _, oc := range core.OriginCalls(base) {
						if core.CalleeIs(oc, "strings.Split", "strings.SplitN", "strings.Fields", "strings.SplitAfter") {
							fromSplit = true
						}
					}
					if !fromSplit {
						continue
					}
					nK2++
					in2 := x.(ssa.Instruction)
					r.Check(lenGuarded(in2, base), "SPLIT-INDEX", core.Site(f, "index %d into split result", n), w.InstrPos(in2), "text without the separator has fewer parts")
				}
			}
		}
		// K6
		for _, c := range core.OwnCalls(f) {
			call, isCall := c.(*ssa.Call)
			if !isCall {
				continue
			}
			sig := call.Common().Signature()
			if sig == nil || sig.Results().Len() != 2 || !isErrorType(sig.Results().At(1).Type()) {
				continue
			}
			switch sig.Results().At(0).Type().Underlying().(type) {
			case *types.Pointer, *types.Interface:
			default:
				continue
			}
			var val ssa.Value
			for _, ref := range *call.Referrers() {
				if ex, ok := ref.(*ssa.Extract); ok && ex.Index == 0 {
					val = ex
				}
			}
			if val == nil || val.Referrers() == nil {
				continue
			}
			nK6++
			bad := ""
			for _, ref := range *val.Referrers() {
				use, ok := ref.(ssa.Instruction)
				if !ok {
					continue
				}
				deref := false
				switch u := use.(type) {
				case *ssa.FieldAddr:
					deref = u.X == val
				case *ssa.UnOp:
					deref = u.Op == token.MUL && u.X == val
				case ssa.CallInstruction:
					deref = core.CallRecv(u) == val && !strings.Contains(core.CalleeKey(u), "sdcpb.") // protobuf getters are nil-safe
				}
				if deref && guardedByErrNonNil(use, call) {
					bad = w.InstrPos(use)
				}
			}
			r.Check(bad == "", "ERR-BRANCH-USE", core.Site(f, "co-result of %s", shortSrc(core.CalleeKey(c))), w.InstrPos(c), "the value returned together with a non-nil error is dereferenced at "+bad)
		}
	}
	r.Extra["k1_sites"], r.Extra["k2_sites"], r.Extra["k3_sites"], r.Extra["k4_sites"], r.Extra["k6_sites"] = nK1, nK2, nK3, nK4, nK6
	// K13: a constant index into a string (value[0] to look at a sign or a prefix) in the boundary scope
	r.Rule("TEXT-INDEX", 0, "K13: a constant index into a string (s[0], s[1]) in the boundary scope is dominated by a test of len(s) or by the s != \"\" outcome of an emptiness test of the same string: value texts, key values and names taken from requests and device messages can be empty.")
	nK13 := 0
	for f := range scope {
		for _, b := range f.Blocks {
			for _, in := range b.Instrs {
				var lkX, lkIdx ssa.Value
				switch x := in.(type) {
				case *ssa.Lookup:
					lkX, lkIdx = x.X, x.Index
				case *ssa.Index:
					lkX, lkIdx = x.X, x.Index
				default:
					continue
				}
				lk := in
				if bt, isB := lkX.Type().Underlying().(*types.Basic); !isB || bt.Info()&types.IsString == 0 {
					continue
				}
				n, isC := core.ConstInt(lkIdx)
				if !isC || n < 0 {
					continue
				}
				if _, isConst := lkX.(*ssa.Const); isConst {
					continue
				}
				nK13++
				if reason, isExc := textIndexExceptions[core.HostKey(f)]; isExc {
					r.Info("TEXT-INDEX", core.Site(f, "index %d into a string", n), w.InstrPos(lk), "frozen exception: "+reason)
					continue
				}
				ok2 := lenGuarded(lk, lkX)
				if !ok2 {
					// s != "" / s == "" tests, strings.HasPrefix(s, ...) true outcome
					for _, g := range core.GuardsOf(lk) {
						if a, b2, eqOnTrue, isEq := core.EqTest(g.If.Cond); isEq {
							for _, pair := range [][2]ssa.Value{{a, b2}, {b2, a}} {
								if cs, isS := core.ConstString(pair[1]); isS && cs == "" && (sameExpr(pair[0], lkX) || core.SameObject(pair[0], lkX)) && eqOnTrue != g.CondTrue() {
									ok2 = true
								}
							}
						}
						v, neg := core.StripNot(g.If.Cond)
						if hc, isCall := v.(*ssa.Call); isCall && core.CalleeIs(hc, "strings.HasPrefix", "strings.HasSuffix", "strings.Contains") && g.CondTrue() != neg {
							if a := hc.Call.Args; len(a) == 2 && (sameExpr(a[0], lkX) || core.SameObject(a[0], lkX)) {
								if cs, isS := core.ConstString(a[1]); isS && int64(len(cs)) > n {
									ok2 = true
								}
							}
						}
					}
				}
				r.Check(ok2, "TEXT-INDEX", core.Site(f, "index %d into a string", n), w.InstrPos(lk), "the string can be empty (an empty value text / key value in a request): the index panics")
			}
		}
	}
	r.Extra["k13_sites"] = nK13
	if nK13 == 0 {
		r.OK("TEXT-INDEX", "no constant index into a string in the boundary scope", "", "")
	}
	r.Extra["k12_sites"] = nK12
	if nK12 == 0 {
		r.OK("ASSERTED-MSG", "no field is selected on a message pointer asserted out of an any in the boundary scope", "", "")
	}
}
