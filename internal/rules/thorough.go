package rules

import "verif/internal/core"

func thorough(prop string, w *core.World, r *core.Report, verifDir string, selfcheck bool) {
}
