package rules

import (
	"encoding/json"
	"fmt"
	"os"
	"os/exec"
	"path/filepath"
	"regexp"
	"sort"
	"strings"
	"sync"

	"verif/internal/core"
)

// Variant is one single-edit variant of /repo used to validate the checker itself.
type Variant struct {
	Property string `json:"property"`
	File     string `json:"file"`
	Edits    []struct {
		Old string `json:"old"`
		New string `json:"new"`
	} `json:"edits"`
	Files []struct {
		File  string `json:"file"`
		Edits []struct {
			Old string `json:"old"`
			New string `json:"new"`
		} `json:"edits"`
	} `json:"files"`
	Expect []struct {
		Rule string `json:"rule"`
		Site string `json:"site"`
	} `json:"expect"`
	Note         string `json:"note"`
	ExpectSilent bool   `json:"expect_silent"`
}

var lineRe = regexp.MustCompile(`(?m)^(VIOLATED|UNDECIDED): (\S+?)\.(\S+) site=(.*?) at `)

type subResult struct {
	name     string
	findings [][3]string // kind, rule, site
	out      string
	err      error
}

func runSelf(exe string, verifDir string, args ...string) subResult {
	tmp, err := os.MkdirTemp("", "dsv-")
	if err != nil {
		return subResult{err: err}
	}
	defer os.RemoveAll(tmp)
	if b, err := os.ReadFile(filepath.Join(verifDir, "known_findings.txt")); err == nil {
		os.WriteFile(filepath.Join(tmp, "known_findings.txt"), b, 0o644)
	}
	full := append([]string{}, args...)
	full = append(full, "-verif", tmp, "-tier", "quick")
	cmd := exec.Command(exe, full...)
	cmd.Env = append(os.Environ(), "VERIF_TIER=quick")
	out, _ := cmd.CombinedOutput()
	res := subResult{out: string(out)}
	for _, m := range lineRe.FindAllStringSubmatch(string(out), -1) {
		res.findings = append(res.findings, [3]string{m[1], m[3], m[4]})
	}
	if !strings.Contains(string(out), "dscheck property=") {
		res.err = fmt.Errorf("no result line: %s", tail(string(out), 300))
	}
	return res
}

func tail(s string, n int) string {
	if len(s) > n {
		return s[len(s)-n:]
	}
	return s
}

// thorough: (a) the same rules over two more build variants of the tree (GOARCH=386: int is 32 bit and
// build-constrained files change; -tags verif: proves that no file hidden behind the hook tag adds a
// writer/caller/unguarded site), each in its own process; (b) self-validation: every stored single-edit
// variant of this property is analysed through an in-memory overlay and must make its rule report.
func thorough(prop string, w *core.World, r *core.Report, verifDir string, selfcheck bool) {
	exe, err := os.Executable()
	if err != nil {
		r.Undecided("THOROUGH", "executable", "", err.Error())
		return
	}
	base := map[string]bool{}
	for _, o := range r.Obs {
		if o.Status == "violated" || o.Status == "undecided" {
			base[o.Rule+"|"+o.Site] = true
		}
	}
	type job struct {
		name string
		args []string
		v    *Variant
	}
	var jobs []job
	jobs = append(jobs, job{"build GOARCH=386", []string{"-property", prop, "-goarch", "386"}, nil})
	jobs = append(jobs, job{"build -tags verif", []string{"-property", prop, "-tags", "verif"}, nil})
	var skipped []string
	tmpOverlays, _ := os.MkdirTemp("", "dsv-ov-")
	defer os.RemoveAll(tmpOverlays)
	if selfcheck {
		files, _ := filepath.Glob(filepath.Join(verifDir, "variants", "*.json"))
		sort.Strings(files)
		for _, fp := range files {
			b, err := os.ReadFile(fp)
			if err != nil {
				continue
			}
			var v Variant
			if json.Unmarshal(b, &v) != nil || v.Property != prop {
				continue
			}
			name := strings.TrimSuffix(filepath.Base(fp), ".json")
			if len(v.Files) == 0 {
				v.Files = append(v.Files, struct {
					File  string `json:"file"`
					Edits []struct {
						Old string `json:"old"`
						New string `json:"new"`
					} `json:"edits"`
				}{File: v.File, Edits: v.Edits})
			}
			overlay := map[string]string{}
			ok := true
			for _, vf := range v.Files {
				src, err := os.ReadFile(filepath.Join(core.RepoDir(), vf.File))
				if err != nil {
					skipped = append(skipped, name+": "+err.Error())
					ok = false
					break
				}
				text := string(src)
				for _, e := range vf.Edits {
					if !strings.Contains(text, e.Old) {
						ok = false
						break
					}
					text = strings.Replace(text, e.Old, e.New, 1)
				}
				if !ok {
					skipped = append(skipped, name+": anchor text no longer in "+vf.File+" (the code the variant edits was changed; variant skipped, not failed)")
					break
				}
				overlay[vf.File] = text
			}
			if !ok {
				continue
			}
			ov, _ := json.Marshal(overlay)
			ovPath := filepath.Join(tmpOverlays, name+".json")
			os.WriteFile(ovPath, ov, 0o644)
			vv := v
			jobs = append(jobs, job{"variant " + name, []string{"-property", prop, "-overlay", ovPath}, &vv})
		}
	}
	results := make([]subResult, len(jobs))
	sem := make(chan struct{}, 5)
	var wg sync.WaitGroup
	for i, j := range jobs {
		wg.Add(1)
		go func(i int, j job) {
			defer wg.Done()
			sem <- struct{}{}
			defer func() { <-sem }()
			results[i] = runSelf(exe, verifDir, j.args...)
			results[i].name = j.name
		}(i, j)
	}
	wg.Wait()
	r.Rule("BUILD-VARIANTS", 2, "thorough tier: the rules of this property are re-run on the tree loaded with GOARCH=386 and with -tags verif (separate processes); every finding that the default build does not have is reported.")
	if selfcheck {
		r.Rule("SELF-VALIDATION", 1, "thorough tier: every stored single-edit variant of /repo for this property (variants/*.json: reverted repairs, flipped guards, dropped calls, independent agents' seeded changes) is analysed through an in-memory overlay and must make the expected rule report, and every stored behaviour-preserving refactoring of the property (variants/refactor-*.json) must stay silent; a missed variant or a false alarm marks the checker as broken (exit 2, no VIOLATION line). Variants whose anchor text is gone are skipped and listed.")
	}
	var caught, missed, silent []string
	for i, j := range jobs {
		res := results[i]
		if j.v == nil {
			if res.err != nil {
				r.Undecided("BUILD-VARIANTS", j.name, "", res.err.Error())
				continue
			}
			extra := 0
			for _, f := range res.findings {
				if !base[f[1]+"|"+f[2]] {
					extra++
					r.Viol("BUILD-VARIANTS", j.name+": "+f[1]+" "+f[2], "", "reported only in this build variant")
				}
			}
			if extra == 0 {
				r.OK("BUILD-VARIANTS", j.name, "", fmt.Sprintf("same findings as the default build (%d)", len(res.findings)))
			}
			continue
		}
		name := strings.TrimPrefix(j.name, "variant ")
		if res.err != nil || strings.Contains(res.out, ".LOAD site=repository") {
			skipped = append(skipped, name+": variant does not load/type-check on the current tree (the code around its edit was changed): "+tail(res.out, 200))
			continue
		}
		if j.v.ExpectSilent {
			// a behaviour-preserving refactoring: every report the unchanged tree does not have is a false alarm
			var alarms []string
			for _, f := range res.findings {
				if !base[f[1]+"|"+f[2]] {
					alarms = append(alarms, f[1]+" "+f[2])
				}
			}
			if len(alarms) == 0 {
				silent = append(silent, name)
				r.OK("SELF-VALIDATION", "variant "+name, "", "silent as required: "+j.v.Note)
			} else {
				r.CheckerBroken = append(r.CheckerBroken, fmt.Sprintf("false alarm on behaviour-preserving variant %s: %v", name, alarms))
			}
			continue
		}
		ok := true
		for _, e := range j.v.Expect {
			hit := false
			for _, f := range res.findings {
				if f[1] == e.Rule && strings.Contains(f[2], e.Site) {
					hit = true
				}
			}
			if !hit {
				ok = false
			}
		}
		if ok {
			caught = append(caught, name)
			r.OK("SELF-VALIDATION", "variant "+name, "", "reported as expected: "+j.v.Note)
		} else {
			missed = append(missed, name)
			r.CheckerBroken = append(r.CheckerBroken, fmt.Sprintf("variant %s not reported (expected %v, got %v)", name, j.v.Expect, res.findings))
		}
	}
	r.Extra["selfvalidation_caught"] = caught
	r.Extra["selfvalidation_missed"] = missed
	r.Extra["selfvalidation_skipped"] = skipped
	r.Extra["selfvalidation_silent_on_refactorings"] = silent
}
