package rules

import (
	"fmt"
	"go/types"
	"strings"

	"golang.org/x/tools/go/ssa"

	"verif/internal/core"
)

func init() { Registry["C04"] = c04 }

// validatorSwitches: field of config.Validators -> the validator method it governs.
var validatorSwitches = map[string]string{
	"Mandatory":               "validateMandatory",
	"Leafref":                 "validateLeafRefs",
	"LeafrefMinMaxAttributes": "validateLeafListMinMaxAttributes",
	"Pattern":                 "validatePattern",
	"MustStatement":           "validateMustStatements",
	"Length":                  "validateLength",
	"Range":                   "validateRange",
}

// sendConds: the union of the branch conditions that decide whether fn reports a validation result (sends on its result channel).
func sendConds(fn *ssa.Function) []ssa.Value {
	var out []ssa.Value
	for _, b := range core.Blocks(fn) {
		for _, in := range b.Instrs {
			if s, ok := in.(*ssa.Send); ok {
				out = append(out, core.ControlConds(s)...)
			}
		}
	}
	return out
}

// consultsInSends: every required input must be in the data slice of some condition deciding a report (or of the reported value).
func consultsInSends(w *core.World, r *core.Report, rule string, fn *ssa.Function, reqs []consult) {
	if fn == nil {
		return
	}
	conds := sendConds(fn)
	sl := core.DataSlice(fn, conds)
	// loops: ranging over schema elements (patterns, ranges, must statements) is a dependency too
	full := core.BackwardSlice(fn, conds, nil)
	for _, c := range reqs {
		name := c.Field
		if len(c.Calls) > 0 {
			name = c.Calls[0]
		}
		depth := 1
		if c.Direct {
			depth = 0
		}
		ok := sliceConsults(w, sl, c, depth) || sliceConsults(w, full, c, depth)
		r.Check(ok, rule, core.Site(fn, "verdict depends on %s", name), w.Pos(fn.Pos()), "whether this validator reports must depend on this input: "+c.Why)
	}
}

const kLVGHP = "tree.LeafVariants.GetHighestPrecedence"

func c04(w *core.World, r *core.Report) {
	setWordBits(w)
	validate := w.Func("pkg/tree", "sharedEntryAttributes", "Validate")
	rootValidate := w.Func("pkg/tree", "RootEntry", "Validate")
	lowTx := w.Func("pkg/datastore", "Datastore", "lowlevelTransactionSet")
	if validate == nil || rootValidate == nil || lowTx == nil {
		return
	}

	// ---- VALIDATOR-TABLE
	r.Rule("VALIDATOR-TABLE", 9, "in sharedEntryAttributes.Validate every boolean switch of config.Validators is read and governs exactly the validator of its name: the validator call executes only on the false outcome of its own switch and of no other switch, and every validator call executes only on the true outcome of remainsToExist(). A switch that governs nothing is reported.")
	{
		// switches
		var fieldsT *types.Struct
		if nt := w.NamedType("pkg/config", "Validators"); nt != nil {
			fieldsT, _ = nt.Underlying().(*types.Struct)
		}
		read := map[string]bool{}
		for _, b := range core.Blocks(validate) {
			for _, in := range b.Instrs {
				if fk := core.FieldOf(valueOf(in)); strings.HasPrefix(fk, "config.Validators.") {
					read[strings.TrimPrefix(fk, "config.Validators.")] = true
				}
			}
		}
		// the table form: Validate ranges over a package-level slice of (switch predicate, validator) rows
		tableRows := map[string]string{}                              // switch name -> validator method, as filed in the table
		validatorPrefix := "tree.sharedEntryAttributes." + "validate" // (not one literal: it would read as a key prefix naming anchors)
		var tableRun ssa.CallInstruction
		tableGuarded := false
		for _, c := range core.Calls(validate) {
			cc := c.Common()
			if cc.IsInvoke() || cc.StaticCallee() != nil {
				continue
			}
			// a call of a function-typed FIELD of an element of a global slice
			var fld *ssa.FieldAddr
			for _, o := range append(core.Origins(cc.Value), cc.Value) {
				if u, ok := o.(*ssa.UnOp); ok {
					if fa, ok := u.X.(*ssa.FieldAddr); ok {
						fld = fa
					}
				}
			}
			if fld == nil {
				continue
			}
			var g *ssa.Global
			seen := map[ssa.Value]bool{}
			var find func(v ssa.Value, d int)
			find = func(v ssa.Value, d int) {
				if v == nil || seen[v] || d > 8 {
					return
				}
				seen[v] = true
				for _, o := range append(core.Origins(v), v) {
					switch x := o.(type) {
					case *ssa.UnOp:
						if gg, ok := x.X.(*ssa.Global); ok {
							g = gg
						} else {
							find(x.X, d+1)
						}
					case *ssa.IndexAddr:
						find(x.X, d+1)
					case *ssa.Alloc:
						for _, ref := range *x.Referrers() {
							if st, ok := ref.(*ssa.Store); ok && st.Addr == ssa.Value(x) {
								find(st.Val, d+1)
							}
						}
					case *ssa.Extract:
						if n, ok := x.Tuple.(*ssa.Next); ok {
							if rg, ok := n.Iter.(*ssa.Range); ok {
								find(rg.X, d+1)
							}
						}
					}
				}
			}
			find(fld.X, 0)
			rows := structTable(w, g)
			if rows == nil {
				continue
			}
			// which field holds the action (this call) and which the predicate (a bool-returning func field)
			runIdx := fld.Field
			for _, row := range rows {
				run := funcOfTableValue(row[runIdx])
				if run == nil {
					continue
				}
				method := ""
				if strings.HasPrefix(core.FuncKey(run), validatorPrefix) {
					method = strings.TrimPrefix(core.FuncKey(run), "tree.sharedEntryAttributes.")
				} else {
					for _, vc := range core.OwnCalls(run) {
						if k := core.CalleeKey(vc); strings.HasPrefix(k, validatorPrefix) {
							method = strings.TrimPrefix(k, "tree.sharedEntryAttributes.")
						}
					}
				}
				for j, cell := range row {
					if j == runIdx {
						continue
					}
					pred := funcOfTableValue(cell)
					if pred == nil || pred.Signature.Results().Len() != 1 {
						continue
					}
					// the predicate returns the switch itself
					for _, ret := range core.Returns(pred) {
						for _, rv := range core.ReturnValues(ret) {
							if fk := core.FieldOf(rv); strings.HasPrefix(fk, "config.Validators.") && method != "" {
								tableRows[strings.TrimPrefix(fk, "config.Validators.")] = method
								read[strings.TrimPrefix(fk, "config.Validators.")] = true
							}
						}
					}
				}
			}
			if len(tableRows) > 0 {
				tableRun = c
				// the action runs only when the row's own predicate said "not disabled": a dynamic call through another
				// field of the same element, found false
				for _, a := range core.GuardAtoms(c) {
					if a.True {
						continue
					}
					if pc, ok := a.Cond.(*ssa.Call); ok && pc.Common().StaticCallee() == nil && !pc.Common().IsInvoke() {
						for _, o := range append(core.Origins(pc.Common().Value), pc.Common().Value) {
							if u, ok := o.(*ssa.UnOp); ok {
								if fa, ok := u.X.(*ssa.FieldAddr); ok && fa.Field != runIdx && (fa.X == fld.X || core.SameObject(fa.X, fld.X)) {
									tableGuarded = true
								}
							}
						}
					}
				}
			}
		}
		if fieldsT != nil {
			for i := 0; i < fieldsT.NumFields(); i++ {
				n := fieldsT.Field(i).Name()
				_, governs := validatorSwitches[n]
				r.Check(read[n] && governs, "VALIDATOR-TABLE", core.Site(validate, "switch %s", n), w.Pos(validate.Pos()), "a configuration switch that is never consulted (or has no validator) cannot exclude anything from the verdict")
			}
		}
		for sw, method := range validatorSwitches {
			if len(tableRows) > 0 && len(core.CallsTo(validate, "tree.sharedEntryAttributes."+method)) == 0 {
				r.Check(tableRows[sw] == method && tableGuarded, "VALIDATOR-TABLE", core.Site(validate, "call %s governed by %s", method, sw), w.InstrPos(tableRun), fmt.Sprintf("the validator table must file %s under the switch %s and run a row only when its own predicate says it is not disabled (filed under it: %q)", method, sw, tableRows[sw]))
				r.Check(core.GuardedByBoolCall(tableRun, true, "tree.sharedEntryAttributes.remainsToExist"), "VALIDATOR-TABLE", core.Site(validate, "call %s only for remaining entries", method), w.InstrPos(tableRun), "entries that are being deleted are not part of the resulting configuration")
				continue
			}
			calls := core.CallsTo(validate, "tree.sharedEntryAttributes."+method)
			if len(calls) != 1 {
				r.Viol("VALIDATOR-TABLE", core.Site(validate, "call %s", method), w.Pos(validate.Pos()), fmt.Sprintf("expected exactly one call, found %d", len(calls)))
				continue
			}
			c := calls[0]
			// guarded by own switch == false
			own, other := false, ""
			for _, g := range core.GuardsOf(c) {
				v, neg := core.StripNot(g.If.Cond)
				val := g.CondTrue()
				if neg {
					val = !val
				}
				fk := core.FieldOf(v)
				if !strings.HasPrefix(fk, "config.Validators.") {
					continue
				}
				name := strings.TrimPrefix(fk, "config.Validators.")
				if name == sw && !val {
					own = true
				} else {
					other = name
				}
			}
			r.Check(own && other == "", "VALIDATOR-TABLE", core.Site(validate, "call %s governed by %s", method, sw), w.InstrPos(c), fmt.Sprintf("validator must run exactly when its own switch is off (also governed by %q)", other))
			r.Check(core.GuardedByBoolCall(c, true, "tree.sharedEntryAttributes.remainsToExist"), "VALIDATOR-TABLE", core.Site(validate, "call %s only for remaining entries", method), w.InstrPos(c), "entries that are being deleted are not part of the resulting configuration")
		}
	}

	// ---- ALL-CHILDREN
	r.Rule("ALL-CHILDREN", 3, "Validate recurses into EVERY active child: every path through the body of the range over filterActiveChoiceCaseChilds() reaches the recursive validation (called directly or as a goroutine) before the next iteration; the closure validates the child it was given; the recursion does not depend on anything but the loop.")
	{
		helpers := map[*ssa.Function]bool{}
		var next *ssa.Next
		for _, b := range core.Blocks(validate) {
			for _, in := range b.Instrs {
				if n, ok := in.(*ssa.Next); ok {
					if rg, ok := n.Iter.(*ssa.Range); ok {
						for _, oc := range core.OriginCalls(rg.X) {
							if core.CalleeIs(oc, "tree.sharedEntryAttributes.filterActiveChoiceCaseChilds") {
								next = n
							}
						}
					}
				}
			}
		}
		if next == nil {
			r.Viol("ALL-CHILDREN", core.Site(validate, "range over active children"), w.Pos(validate.Pos()), "Validate does not range over the active children")
		} else {
			var recs []ssa.Instruction
			loopFn := next.Parent() // Validate itself, or the phase helper the loop was moved into
			for _, c := range core.Calls(validate) {
				if c.Parent() != loopFn {
					continue // calls inside virtually inlined helpers are reached through the helper's own call
				}
				callee := c.Common().StaticCallee()
				if callee == nil {
					if tg, _ := w.FuncTargets(c.Common().Value); len(tg) == 1 {
						callee = tg[0]
					}
				}
				if callee != nil && callee.Blocks != nil && (callee.Parent() == validate || callee.Parent() == loopFn || (callee.Pkg == validate.Pkg && callee != validate)) && alwaysCalls(callee, 1, "tree.Entry.Validate") {
					// a closure of Validate or a helper of the package that validates the entry it is given on every path
					recs = append(recs, c)
					helpers[callee] = true
				}
				if core.CalleeIs(c, "tree.Entry.Validate") {
					recs = append(recs, c)
				}
			}
			isRec := func(in ssa.Instruction) bool {
				for _, x := range recs {
					if x == in {
						return true
					}
				}
				return false
			}
			skip, tr := core.PathQuery{Avoid: isRec}.Reaches(next.Block(), core.InstrIndex(next)+1, func(in ssa.Instruction) bool { return in == ssa.Instruction(next) })
			r.Check(len(recs) > 0 && !skip, "ALL-CHILDREN", core.Site(validate, "no active child skipped"), w.InstrPos(next), fmt.Sprintf("a path through the loop body reaches the next child without validating the current one (blocks %v)", tr))
			for _, c := range recs {
				bad := false
				for _, cond := range core.ControlConds(c) {
					sl := core.DataSlice(validate, []ssa.Value{cond})
					for v := range sl.Values {
						if cc, ok := v.(*ssa.Call); ok && !core.CalleeIs(cc, "tree.sharedEntryAttributes.filterActiveChoiceCaseChilds") {
							// any call deciding whether a child is validated (other than the enumeration itself)
							if _, isB := cc.Common().Value.(*ssa.Builtin); !isB {
								bad = true
							}
						}
					}
				}
				r.Check(!bad, "ALL-CHILDREN", core.Site(validate, "recursion unconditional"), w.InstrPos(c), "whether a child is validated must not depend on properties of the child (only on the concurrency switch)")
			}
		}
		// closure / helper validates the entry it is given
		for a := range helpers {
			for _, c := range core.OwnCallsTo(a, "tree.Entry.Validate") {
				okp := false
				for _, p := range a.Params {
					if core.CallRecv(c) == ssa.Value(p) {
						okp = true
					}
				}
				r.Check(okp, "ALL-CHILDREN", core.Site(a, "validates the child it was given"), w.InstrPos(c), "loop variable capture: the child passed in must be the one validated")
			}
		}
	}

	// ---- CONSTRAINT-COVERAGE
	r.Rule("CONSTRAINT-COVERAGE", 9, "every schema constraint accessor is read in a function reachable from Validate: range, length, pattern (+inverted), min-/max-elements, must statements, leafref (+optional-instance), mandatory children.")
	{
		reach := w.CG().Reachable(func(e core.Edge) bool { return e.Kind == "ref" || e.Kind == "dynamic-sig" }, validate)
		accessors := map[string][]string{
			"range":         {"github.com/sdcio/sdc-protos/sdcpb.SchemaLeafType.GetRange"},
			"length":        {"field github.com/sdcio/sdc-protos/sdcpb.SchemaLeafType.Length", "github.com/sdcio/sdc-protos/sdcpb.SchemaLeafType.GetLength"},
			"pattern":       {"field github.com/sdcio/sdc-protos/sdcpb.SchemaLeafType.Patterns", "github.com/sdcio/sdc-protos/sdcpb.SchemaLeafType.GetPatterns"},
			"inverted":      {"field github.com/sdcio/sdc-protos/sdcpb.SchemaPattern.Inverted", "github.com/sdcio/sdc-protos/sdcpb.SchemaPattern.GetInverted"},
			"min-elements":  {"field github.com/sdcio/sdc-protos/sdcpb.LeafListSchema.MinElements", "github.com/sdcio/sdc-protos/sdcpb.LeafListSchema.GetMinElements"},
			"max-elements":  {"github.com/sdcio/sdc-protos/sdcpb.LeafListSchema.GetMaxElements", "field github.com/sdcio/sdc-protos/sdcpb.LeafListSchema.MaxElements"},
			"must":          {"github.com/sdcio/sdc-protos/sdcpb.ContainerSchema.GetMustStatements", "github.com/sdcio/sdc-protos/sdcpb.LeafSchema.GetMustStatements"},
			"leafref":       {"github.com/sdcio/sdc-protos/sdcpb.SchemaLeafType.GetLeafref"},
			"optional-inst": {"github.com/sdcio/sdc-protos/sdcpb.SchemaLeafType.GetOptionalInstance"},
			"mandatory":     {"github.com/sdcio/sdc-protos/sdcpb.ContainerSchema.GetMandatoryChildrenConfig"},
		}
		for name, keys := range accessors {
			found := ""
			for f := range reach {
				if f.Blocks == nil {
					continue
				}
				for _, k := range keys {
					if strings.HasPrefix(k, "field ") {
						if len(core.LoadsOfField(f, strings.TrimPrefix(k, "field "))) > 0 {
							found = core.FuncKey(f)
						}
					} else if len(core.OwnCallsTo(f, k)) > 0 {
						found = core.FuncKey(f)
					}
				}
			}
			r.Check(found != "", "CONSTRAINT-COVERAGE", "constraint "+name, "", "a schema constraint that no validator reads is not enforced (read in: "+found+")")
		}
	}

	// ---- SAME-VARIANT
	r.Rule("SAME-VARIANT", 6, "every validator judges the value that will rule after the transaction: LeafVariants.GetHighestPrecedence(onlyNewOrUpdated=false, includeDefaults=true); frozen exceptions (sites that only name an owner for the message) are listed.")
	sameVariantExceptions := map[string]string{
		"tree.sharedEntryAttributes.validateLeafRefs":       "GetHighestPrecedence(false,false) is used only to name the owner in the error entry",
		"tree.sharedEntryAttributes.validateMustStatements": "GetHighestPrecedence(false,false) is used only to name the owner in the error entry",
	}
	{
		reach := w.CG().Reachable(func(e core.Edge) bool { return e.Kind == "ref" || e.Kind == "dynamic-sig" }, validate)
		for _, f := range w.RepoFns {
			if !reach[f] || !strings.HasPrefix(f.Name(), "validate") && f.Name() != "NavigateLeafRef" && f.Name() != "getHighestPrecedenceLeafValue" && f.Name() != "resolve_leafref_key_path" {
				continue
			}
			n := 0
			for _, c := range core.OwnCallsTo(f, kLVGHP) {
				a := core.CallArgs(c)
				if len(a) != 2 {
					continue
				}
				n++
				b0, c0 := core.ConstBool(a[0])
				b1, c1 := core.ConstBool(a[1])
				ok := c0 && c1 && !b0 && b1
				site := core.Site(f, "GetHighestPrecedence#%d(false,true)", n)
				if !ok {
					if reason, isEx := sameVariantExceptions[core.FuncKey(f)]; isEx && c0 && !b0 {
						// the value must only be used for .Owner()
						onlyOwner := true
						for _, ref := range *c.Value().Referrers() {
							if cc, isCall := ref.(ssa.CallInstruction); !isCall || !strings.HasSuffix(core.CalleeKey(cc), ".Owner") {
								if _, isFA := ref.(*ssa.FieldAddr); !isFA {
									onlyOwner = false
								}
							}
						}
						if onlyOwner {
							r.OK("SAME-VARIANT", site, w.InstrPos(c), "frozen exception: "+reason)
							continue
						}
					}
				}
				r.Check(ok, "SAME-VARIANT", site, w.InstrPos(c), "validators must look at the resulting ruler including defaults, not only at new/updated values")
			}
		}
	}

	// ---- NOT-ONLY-TOUCHED
	r.Rule("NOT-ONLY-TOUCHED", 0, "what a validator judges does not depend on whether the transaction touched the value: no validate* method of sharedEntryAttributes (with the helpers that are part of it) reads the New / Updated marks of a leaf entry (LeafEntry.GetNewFlag / GetUpdateFlag, the fields IsNew / IsUpdated). A value that was stored while it was shadowed was never judged as the ruling value; it becomes one when the intent above it is removed, and is neither new nor updated then.")
	{
		n := 0
		for _, f := range w.RepoFns {
			if f.Signature == nil || f.Signature.Recv() == nil || f.Parent() != nil || core.IsInlined(f) {
				continue
			}
			if core.TypeKey(f.Signature.Recv().Type()) != "tree.sharedEntryAttributes" || !strings.HasPrefix(f.Name(), "validate") {
				continue
			}
			n++
			bad := ""
			var pos ssa.Instruction
			for _, c := range core.Calls(f) {
				if core.CalleeIs(c, "tree.LeafEntry.GetNewFlag", "tree.LeafEntry.GetUpdateFlag") {
					bad, pos = core.CalleeKey(c), c
				}
			}
			for _, b := range core.Blocks(f) {
				for _, in := range b.Instrs {
					if v, ok := in.(ssa.Value); ok {
						if fk := core.FieldOf(v); fk == "tree.LeafEntry.IsNew" || fk == "tree.LeafEntry.IsUpdated" {
							bad, pos = fk, in
						}
					}
				}
			}
			if bad != "" {
				r.Viol("NOT-ONLY-TOUCHED", core.Site(f, "reads %s", shortSrc(bad)), w.InstrPos(pos), "the validator looks at whether the value is new or updated: a value that becomes the ruling one because a higher-precedence intent was removed is neither, and is accepted unjudged")
			}
		}
		r.Extra["validators_examined_for_touched_marks"] = n
		r.OK("NOT-ONLY-TOUCHED", fmt.Sprintf("%d validate* methods examined", n), "", "")
	}

	// ---- RULING-NOT-DELETED
	r.Rule("RULING-NOT-DELETED", 1, "the value the validators judge is one that remains: in LeafVariants.GetHighestPrecedence every non-nil entry returned on the onlyNewOrUpdated==false outcome is selected under a test of LeafEntry.GetDeleteFlag() (the flag is in the backward slice, data + control, of the returned value). Otherwise deleting the ruling intent lets the never-validated value of the intent that takes over through.")
	if ghp := w.Func("pkg/tree", "LeafVariants", "GetHighestPrecedence"); ghp != nil {
		only := core.Param(ghp, "onlyNewOrUpdated")
		n := 0
		for i, ret := range core.Returns(ghp) {
			rv := core.ReturnValues(ret)
			if len(rv) != 1 || core.IsNilConst(rv[0]) || only == nil || !core.GuardedByValue(ret, only, false) {
				continue
			}
			if core.GuardedByValue(ret, only, true) {
				continue // guarded by both outcomes of the same parameter: unreachable
			}
			n++
			sl := core.BackwardSlice(ghp, []ssa.Value{rv[0]}, nil)
			r.Check(sl.HasCallTo("tree.LeafEntry.GetDeleteFlag"), "RULING-NOT-DELETED", core.Site(ghp, "return#%d for onlyNewOrUpdated=false skips deleted entries", i), w.InstrPos(ret), "an entry marked for deletion can be returned as the ruling value")
		}
		if n == 0 {
			r.Undecided("RULING-NOT-DELETED", core.Site(ghp, "return for onlyNewOrUpdated=false"), w.Pos(ghp.Pos()), "no return is guarded by onlyNewOrUpdated == false")
		}
	}

	// ---- INDEPENDENCE / NO-LOSSY-BOUND
	r.Rule("INDEPENDENCE", 3, "in validateLeafListMinMaxAttributes the max-elements verdict is not control-dependent on min-elements (and vice versa), and no lossy conversion is applied to either bound (shared rule C12.LOSSY).")
	if f := w.Func("pkg/tree", "sharedEntryAttributes", "validateLeafListMinMaxAttributes"); f != nil {
		isMax := func(v ssa.Value) bool {
			sl := core.DataSlice(f, []ssa.Value{v})
			return sl.HasCallTo("github.com/sdcio/sdc-protos/sdcpb.LeafListSchema.GetMaxElements") || sl.HasFieldLoad("github.com/sdcio/sdc-protos/sdcpb.LeafListSchema.MaxElements")
		}
		isMin := func(v ssa.Value) bool {
			sl := core.DataSlice(f, []ssa.Value{v})
			return sl.HasCallTo("github.com/sdcio/sdc-protos/sdcpb.LeafListSchema.GetMinElements") || sl.HasFieldLoad("github.com/sdcio/sdc-protos/sdcpb.LeafListSchema.MinElements")
		}
		nMax := 0
		for _, iff := range core.Ifs(f) {
			if !isMax(iff.Cond) || isMin(iff.Cond) {
				continue
			}
			nMax++
			dep := false
			for _, cond := range core.ControlConds(iff) {
				if isMin(cond) {
					dep = true
				}
			}
			r.Check(!dep, "INDEPENDENCE", core.Site(f, "max-elements test independent of min-elements"), w.InstrPos(iff), "max-elements must be enforced whether or not min-elements is set")
		}
		r.Check(nMax > 0, "INDEPENDENCE", core.Site(f, "max-elements tested"), w.Pos(f.Pos()), "no branch depends on max-elements only")
		for _, b := range core.Blocks(f) {
			for _, in := range b.Instrs {
				if cv, ok := in.(*ssa.Convert); ok {
					if lossy, why := lossyConvert(cv.X.Type(), cv.Type()); lossy && numericValueSource(cv.X) != "" {
						r.Viol("INDEPENDENCE", core.Site(f, "lossy bound conversion"), w.InstrPos(cv), "schema bound converted with loss ("+why+"): the unbounded default MaxUint64 becomes -1")
					}
				}
			}
		}
		r.OK("INDEPENDENCE", core.Site(f, "bounds compared without loss"), w.Pos(f.Pos()), "")
	}

	// ---- VERDICT-INPUTS
	r.Rule("VERDICT-INPUTS", 16, "decision-input table of the validators: whether each validator reports (sends a result) depends on the inputs listed for it (value, schema constraint, and for reference-like constraints the existence of the target after the transaction).")
	T := func(name string, reqs ...consult) {
		consultsInSends(w, r, "VERDICT-INPUTS", w.Func("pkg/tree", "sharedEntryAttributes", name), reqs)
	}
	T("validateRange", consult{Calls: []string{"utils.URnges.IsWithinAnyRange"}, Why: "unsigned ranges"}, consult{Calls: []string{"utils.SRnges.IsWithinAnyRange"}, Why: "signed ranges"}, consult{Calls: []string{kLVGHP}, Why: "the ruling value"})
	T("validateLength", consult{Calls: []string{"unicode/utf8.RuneCountInString"}, Why: "length counts characters"}, consult{Field: "github.com/sdcio/sdc-protos/sdcpb.SchemaLeafType.Length", Why: "length ranges"}, consult{Calls: []string{kLVGHP}, Why: "the ruling value"})
	T("validatePattern", consult{Calls: []string{"regexp.MatchString"}, Why: "pattern match"}, consult{Field: "github.com/sdcio/sdc-protos/sdcpb.SchemaPattern.Inverted", Calls: []string{"github.com/sdcio/sdc-protos/sdcpb.SchemaPattern.GetInverted"}, Why: "invert-match patterns"})
	T("validateLeafListMinMaxAttributes", consult{Calls: []string{"github.com/sdcio/sdc-protos/sdcpb.LeafListSchema.GetMinElements"}, Field: "github.com/sdcio/sdc-protos/sdcpb.LeafListSchema.MinElements", Why: "min-elements"}, consult{Calls: []string{"github.com/sdcio/sdc-protos/sdcpb.LeafListSchema.GetMaxElements"}, Why: "max-elements"})
	T("validateMustStatements", consult{Calls: []string{"github.com/sdcio/yang-parser/xpath.Result.GetBoolResult"}, Why: "outcome of the expression"})
	T("validateLeafRefs", consult{Calls: []string{"tree.sharedEntryAttributes.NavigateLeafRef"}, Why: "target lookup"}, consult{Calls: []string{"tree.Entry.remainsToExist"}, Direct: true, Why: "a target leaf that is being deleted does not satisfy the reference (NavigateLeafRef only filters the entries on the way)"}, consult{Calls: []string{"github.com/sdcio/sdc-protos/sdcpb.SchemaLeafType.GetOptionalInstance"}, Why: "require-instance false downgrades to a warning"})
	T("validateMandatoryWithKeys", consult{Calls: []string{"tree.Entry.remainsToExist"}, Why: "a mandatory child that is being deleted is missing"}, consult{Calls: []string{"tree.TreeCacheClient.IntendedPathExists"}, Why: "children provided by other intents"})

	// ---- LOOKAHEAD (shared with C01)
	r.Rule("LOOKAHEAD", 1, "(shared with C01) validation sees the values that become active when the transaction's intents give way only if enough alternatives per path are loaded; a constant depth is reported (known finding for depth 2).")
	for _, c := range core.CallsTo(lowTx, "tree.TreeCacheClient.ReadCurrentUpdatesHighestPriorities") {
		args := core.CallArgs(c)
		if len(args) != 3 {
			continue
		}
		cval, isConst := core.ConstInt(args[2])
		if cv, ok := args[2].(*ssa.Convert); ok {
			cval, isConst = core.ConstInt(cv.X)
		}
		r.Check(!isConst, "LOOKAHEAD", core.Site(lowTx, "count=%d", cval), w.InstrPos(c), "alternatives are read with a constant depth: values that become active only because higher-precedence intents are removed are not all in the tree that is validated")
	}

	// ---- MERGED-BEFORE-VALIDATE
	r.Rule("MERGED-BEFORE-VALIDATE", 6, "the tree that is validated is the merged result: in lowlevelTransactionSet the alternatives of other intents (loadIntendedStoreHighestPrio), the running config (populateTreeWithRunning) and the last FinishInsertionPhase all execute before RootEntry.Validate on every path, and no call that adds content to the tree (AddCacheUpdatesRecursive, LoadIntendedStoreOwnerData, the two loaders) can execute after it; in replaceIntent the replace content is added before Validate. Decides: the verdict is about the resulting configuration, not about the request in isolation.")
	if low := w.Func("pkg/datastore", "Datastore", "lowlevelTransactionSet"); low != nil {
		V := firstCall(low, "tree.RootEntry.Validate")
		H := firstCall(low, "tree.TreeCacheClient.ReadCurrentUpdatesHighestPriorities")
		R := firstCall(low, "tree.TreeCacheClient.ReadRunningFull")
		checkOrder(w, r, "MERGED-BEFORE-VALIDATE", low, H, V, "alternatives loaded before Validate")
		checkOrder(w, r, "MERGED-BEFORE-VALIDATE", low, R, V, "running loaded before Validate")
		if V != nil {
			fins := core.CallsTo(low, "tree.sharedEntryAttributes.FinishInsertionPhase", "tree.RootEntry.FinishInsertionPhase")
			okFin := false
			for _, fc := range fins {
				if core.InstrBefore(fc, V) && (H == nil || core.InstrBefore(H, fc)) && (R == nil || core.InstrBefore(R, fc)) {
					okFin = true
				}
			}
			r.Check(okFin, "MERGED-BEFORE-VALIDATE", core.Site(low, "FinishInsertionPhase between the loads and Validate"), w.InstrPos(V), "choices are resolved and caches reset on the complete tree before it is validated")
			late := ""
			for _, c := range core.CallsTo(low, "tree.RootEntry.AddCacheUpdatesRecursive", "tree.RootEntry.LoadIntendedStoreOwnerData", "tree.RootEntry.AddCacheUpdateRecursive", "tree.RootEntry.ImportConfig") {
				if core.CanFollow(V, c) {
					late = core.CalleeKey(c)
				}
			}
			r.Check(late == "", "MERGED-BEFORE-VALIDATE", core.Site(low, "nothing added after Validate"), w.InstrPos(V), "content is added to the tree after it was validated: "+late)
		}
	}
	// ---- INVOLVED-PATHS (shared with C01.PIPELINE-ORDER and C09)
	if low := w.Func("pkg/datastore", "Datastore", "lowlevelTransactionSet"); low != nil {
		r.Rule("INVOLVED-PATHS", 3, "(shared with C01 / C09) the alternatives of the other intents are loaded for the paths of the OLD and of the NEW content of every intent of the transaction: a value that becomes active only because the intent above it gives the path up is in the validated tree only if the paths of the previous content are among them.")
		ruleInvolvedPaths(w, r, low, "INVOLVED-PATHS")
	}
	if rep := w.Func("pkg/datastore", "Datastore", "replaceIntent"); rep != nil {
		V := firstCall(rep, "tree.RootEntry.Validate")
		A := firstCall(rep, "tree.RootEntry.AddCacheUpdatesRecursive", "tree.RootEntry.ImportConfig")
		F := firstCall(rep, "tree.sharedEntryAttributes.FinishInsertionPhase", "tree.RootEntry.FinishInsertionPhase")
		checkOrder(w, r, "MERGED-BEFORE-VALIDATE", rep, A, V, "replace content added before Validate")
		checkOrder(w, r, "MERGED-BEFORE-VALIDATE", rep, F, V, "FinishInsertionPhase before Validate (replace)")
	}

	// ---- PATTERN-ANCHORED (shared with C12)
	r.Rule("PATTERN-ANCHORED", 2, "the pattern constraint is judged on the whole value: every regexp call that takes its expression from a schema pattern (validatePattern, utils.ConvertString) gets the anchored form '^(?:' + p + ')$' (RFC 7950 9.4.5: XSD patterns are implicitly anchored; Go's regexp searches).")
	rulePatternAnchored(w, r, "PATTERN-ANCHORED")

	// ---- VERDICT-GATE
	r.Rule("VERDICT-GATE", 2, "the accept / reject decision is the verdict of the validation of the resulting configuration: in lowlevelTransactionSet and replaceIntent the device is written only on the false outcome of HasErrors() of the very value RootEntry.Validate returned (shared machinery with C03.VALIDATION-GUARD).")
	ruleVerdictGate(w, r, "VERDICT-GATE")

	// ---- LEAFREF-PATH-FRESH (shared with C17)
	r.Rule("LEAFREF-PATH-FRESH", 1, "the parsed leafref path that resolution rewrites in place (resolved key predicates) belongs to one resolution: the result of tree.newLrefPath flows into no struct field other than those of the path's own elements (value flow, field-based, whole repository).")
	ruleLeafrefPathFresh(w, r, "LEAFREF-PATH-FRESH")

	// ---- NO-GLOBAL-STATE
	r.Rule("NO-GLOBAL-STATE", 1, "the validators (everything reachable from sharedEntryAttributes.Validate) use no package-level variable of the repository other than the frozen read-only ones: the verdict for one entry must not depend on what was validated before (another list entry, another transaction) through a process-wide cache or a shared parsed object.")
	ruleNoGlobalState(w, r, "NO-GLOBAL-STATE", validate)

	// ---- RESULTS
	r.Rule("RESULTS", 5, "verdict plumbing: ValidationResults.HasErrors is true iff some intent has errors (depends on the errors slices), ValidationResultIntent.AddEntry files errors as errors and warnings as warnings, RootEntry.Validate adds every entry received until the channel is closed.")
	if f := w.Func("pkg/types", "ValidationResults", "HasErrors"); f != nil {
		sl := core.ReturnSlice(f, -1)
		r.Check(sl.HasFieldLoadDeep("types.ValidationResultIntent.errors", 2), "RESULTS", core.Site(f, "depends on errors"), w.Pos(f.Pos()), "HasErrors must look at the recorded errors")
		if j := w.Func("pkg/types", "ValidationResults", "JoinErrors"); j != nil {
			// the error handed back for a refused request is built from the same slices HasErrors looks at, by errors.Join
			// (backs the fact "JoinErrors() is non-nil when HasErrors()" that the guard rules of C03 use)
			js := core.ReturnSlice(j, -1)
			r.Check(js.HasFieldLoadDeep("types.ValidationResultIntent.errors", 2) && js.HasCallTo("errors.Join"), "RESULTS", core.Site(j, "joins the recorded errors"), w.Pos(j.Pos()), "JoinErrors must join the errors HasErrors counts")
		}
	}
	if f := w.Func("pkg/types", "ValidationResultIntent", "AddEntry"); f != nil {
		for _, t := range []struct {
			callee string
			val    int64
		}{{"types.ValidationResultIntent.AddError", 0}, {"types.ValidationResultIntent.AddWarning", 1}} {
			for _, c := range core.CallsTo(f, t.callee) {
				ok := core.GuardedByEq(c, true, func(v ssa.Value) bool { return core.FieldOf(v) == "types.ValidationResultEntry.typ" }, func(v ssa.Value) bool { n, isC := core.ConstInt(v); return isC && n == t.val })
				r.Check(ok, "RESULTS", core.Site(f, "%s for its own type", shortSrc(t.callee)), w.InstrPos(c), "an error entry must be recorded as an error (and a warning as a warning)")
			}
		}
	}
	ruleJoinAccumulates(w, r, "RESULTS")
	r.Check(len(core.CallsTo(rootValidate, "types.ValidationResults.AddEntry")) == 1, "RESULTS", core.Site(rootValidate, "collects every entry"), w.Pos(rootValidate.Pos()), "the collector adds what it receives")
}

func valueOf(in ssa.Instruction) ssa.Value {
	if v, ok := in.(ssa.Value); ok {
		return v
	}
	return nil
}
