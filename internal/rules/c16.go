package rules

import (
	"fmt"
	"go/token"
	"sort"
	"strings"

	"golang.org/x/tools/go/ssa"

	"verif/internal/core"
)

func init() { Registry["C16"] = c16 }

// guardedByTable: field -> mutex field (same struct) that must be held for every access.
type guardSpec struct {
	Lock string
	Why  string
}

// isFreshBase: v is an object allocated in this function (constructor / composite literal) and therefore not yet shared.
func isFreshBase(v ssa.Value) bool {
	for i := 0; i < 4 && v != nil; i++ {
		switch x := v.(type) {
		case *ssa.Alloc:
			return true
		case *ssa.UnOp:
			v = x.X
		case *ssa.FieldAddr:
			v = x.X
		default:
			return false
		}
	}
	return false
}

// fieldAccesses lists the accesses to struct fields named in table inside fn: instruction, field key, write?, base.
type fieldAccess struct {
	In    ssa.Instruction
	Key   string
	Write bool
	Base  ssa.Value
}

func fieldAccesses(fn *ssa.Function, table map[string]guardSpec) []fieldAccess {
	var out []fieldAccess
	for _, b := range core.Blocks(fn) {
		for _, in := range b.Instrs {
			switch x := in.(type) {
			case *ssa.FieldAddr:
				k := core.FieldKey(x)
				if _, ok := table[k]; !ok {
					continue
				}
				if x.Referrers() == nil {
					continue
				}
				for _, ref := range *x.Referrers() {
					switch rr := ref.(type) {
					case *ssa.Store:
						if rr.Addr == x {
							out = append(out, fieldAccess{rr, k, true, x.X})
						}
					case *ssa.UnOp:
						if rr.Op == token.MUL {
							out = append(out, fieldAccess{rr, k, false, x.X})
						}
					default:
						// address escapes (passed to a call, e.g. &x.mu.Lock receivers are other fields) -> treat as read
						if cref, isCall := ref.(ssa.CallInstruction); isCall {
							if handedWithItsLock(cref, x, table[k].Lock) {
								continue
							}
							out = append(out, fieldAccess{ref, k, false, x.X})
						}
					}
				}
			case *ssa.Field:
				k := core.FieldKeyVal(x)
				if _, ok := table[k]; ok {
					out = append(out, fieldAccess{x, k, false, x.X})
				}
			}
		}
	}
	return out
}

// handedWithItsLock: the address of the guarded field is handed to a repository helper together with the address of
// its guard mutex (rLockIndex(ctx, &c.indexMutex, &c.index)), and every access the helper makes through that
// parameter happens while it holds the mutex parameter (must-lockset inside the helper). The call itself is then no
// access; what the caller does with the field afterwards is judged where it happens.
func handedWithItsLock(c ssa.CallInstruction, fieldAddr *ssa.FieldAddr, lockClass string) bool {
	g := c.Common().StaticCallee()
	if g == nil || g.Blocks == nil {
		return false
	}
	args := c.Common().Args
	pi, li := -1, -1
	for i, a := range args {
		if a == ssa.Value(fieldAddr) {
			pi = i
		}
		if fa, ok := a.(*ssa.FieldAddr); ok && core.FieldKey(fa) == lockClass && fa.X == fieldAddr.X {
			li = i
		}
	}
	if pi < 0 || li < 0 || pi >= len(g.Params) || li >= len(g.Params) {
		return false
	}
	p := g.Params[pi]
	if p.Referrers() == nil {
		return false
	}
	fl := core.AnalyzeLocks(g)
	want := fmt.Sprintf("$param:%d", li)
	for _, ref := range *p.Referrers() {
		var acc ssa.Instruction
		switch x := ref.(type) {
		case *ssa.UnOp:
			if x.Op == token.MUL {
				acc = x
			}
		case *ssa.Store:
			if x.Addr == ssa.Value(p) {
				acc = x
			}
		case *ssa.DebugRef:
			continue
		default:
			return false // handed on: not followed
		}
		if acc == nil {
			continue
		}
		held := false
		for _, h := range fl.HeldBefore(acc) {
			if h.Class == want {
				held = true
			}
		}
		if !held {
			return false
		}
	}
	return true
}

// guardedBy applies a guarded-by table to the functions selected by scope.
func guardedBy(w *core.World, r *core.Report, lw *core.LockWorld, rule string, table map[string]guardSpec, scope func(*ssa.Function) bool, exceptions map[string]string) {
	for _, f := range w.RepoFns {
		if scope != nil && !scope(f) {
			continue
		}
		n := map[string]int{}
		for _, a := range fieldAccesses(f, table) {
			kind := "read"
			need := "R"
			if a.Write {
				kind = "write"
				need = "W"
			}
			base := strings.TrimPrefix(a.Key, "")
			_ = base
			site := core.Site(f, "%s %s", kind, a.Key)
			n[site]++
			if isFreshBase(a.Base) {
				r.OK(rule, site, w.InstrPos(a.In), "object is being constructed in this function (not yet shared)")
				continue
			}
			if reason, ok := exceptions[site]; ok {
				r.Info(rule, site, w.InstrPos(a.In), "frozen exception: "+reason)
				continue
			}
			spec := table[a.Key]
			ok := lw.HoldsAt(a.In, spec.Lock, need, a.Base)
			r.Check(ok, rule, site, w.InstrPos(a.In), fmt.Sprintf("%s of %s requires %s (%s mode); %s", kind, a.Key, spec.Lock, need, spec.Why))
		}
	}
}

func c16(w *core.World, r *core.Report) {
	typesPkg := core.Module + "/pkg/datastore/types"
	inTypes := func(f *ssa.Function) bool { return f.Pkg != nil && core.PkgPath(f) == typesPkg }

	// the guard-cleanup closure is the one caller of CleanupTransaction without tmMutex
	cleanupClosureReason := "the guard's cleanup closure runs in TransactionSet under dmutex (which excludes Confirm/Cancel) and only when the rollback timer was not started (error / dry-run / failed validation), so no other manager method can run concurrently"
	roles := roleFns(w)
	lw := w.Locks(func(e core.Edge) bool {
		// the closure handed to NewTransactionGuard, whatever it is called and wherever it is built
		if e.Callee == nil || core.FuncKey(e.Callee) != kCleanupTx {
			return false
		}
		if roles[e.Caller] == "<guard cleanup>" {
			return true
		}
		// ... or a helper that is part of nothing but that closure
		if !core.IsInlined(e.Caller) {
			return false
		}
		for _, h := range core.Roots(e.Caller) {
			if roles[h] != "<guard cleanup>" {
				return false
			}
		}
		return true
	})

	// ---- GUARDED-BY
	r.Rule("GUARDED-BY", 10, "every read/write of TransactionCancelTimer.done and TransactionManager.transaction in the repository happens with doneMutex / tmMutex of the same object held (intra-procedural must-lockset + locks held by all callers), objects under construction exempt; one frozen exception (guard-cleanup closure). Decides: no unsynchronised access to the two state variables that Confirm, Cancel and the timer race on.")
	table := map[string]guardSpec{
		"datastore/types.TransactionCancelTimer.done": {"datastore/types.TransactionCancelTimer.doneMutex", "Stop/Start/IsRunning and the timer goroutine race on it"},
		kTMSlot: {"datastore/types.TransactionManager.tmMutex", "Confirm, Cancel, Rollback and RegisterTransaction race on it"},
	}
	guardedBy(w, r, lw, "GUARDED-BY", table, nil, nil)
	r.Info("GUARDED-BY", "edge "+kRegisterTx+"$1 -> "+kCleanupTx, "", "frozen exception (call edge ignored for held-at-entry): "+cleanupClosureReason)

	// ---- CLOSE-ONCE
	r.Rule("CLOSE-ONCE", 1, "every close() of a channel that lives in a struct field (pkg/datastore/types) is followed on every path to the function's exits, while the guarding mutex is still held, by a store of nil or of a fresh channel to that field; and the field is only closed when found non-nil. Decides: a second Stop cannot close the same channel again.")
	for _, f := range w.RepoFns {
		if !inTypes(f) {
			continue
		}
		for _, c := range core.OwnCalls(f) {
			bi, ok := c.Common().Value.(*ssa.Builtin)
			if !ok || bi.Name() != "close" {
				continue
			}
			fk := core.FieldOf(c.Common().Args[0])
			if fk == "" {
				continue
			}
			site := core.Site(f, "close %s", fk)
			after, tr := core.AlwaysAfter(c, func(in ssa.Instruction) bool {
				st, ok := in.(*ssa.Store)
				if !ok {
					return false
				}
				if fa, ok := st.Addr.(*ssa.FieldAddr); ok && core.FieldKey(fa) == fk {
					if core.IsNilConst(st.Val) {
						return true
					}
					if _, isMk := st.Val.(*ssa.MakeChan); isMk {
						return true
					}
				}
				return false
			})
			r.Check(after, "CLOSE-ONCE", site+" reset", w.InstrPos(c), fmt.Sprintf("after close the field must be reset (nil / fresh channel) on every path (path without reset: blocks %v)", tr))
			// guarded by field != nil
			okNil := false
			for _, a := range core.GuardAtoms(c) {
				x, nilOnTrue, isNil := core.NilTest(a.Cond)
				if isNil && core.FieldOf(x) == fk && nilOnTrue != a.True {
					okNil = true
				}
			}
			r.Check(okNil, "CLOSE-ONCE", site+" non-nil", w.InstrPos(c), "close only when the field was found non-nil")
			if spec, ok := table[fk]; ok {
				r.Check(lw.HoldsAt(c, spec.Lock, "W", nil), "CLOSE-ONCE", site+" locked", w.InstrPos(c), "close under "+spec.Lock)
			}
		}
	}

	// ---- RECHECK-UNDER-LOCK
	r.Rule("RECHECK-UNDER-LOCK", 3, "every TransactionManager method that takes tmMutex and then performs an effect (rollbacker.TransactionRollback, Transaction.Confirm, GetRollbackTransaction, a store to the slot) reads the slot after the acquisition (directly, through GetTransaction or transactionOngoing) and the effect is control-dependent on that read. Decides: the loser of the race between timer expiry and Confirm/Cancel sees that the transaction is gone and does nothing.")
	slotReadKeys := []string{kGetTx, "datastore/types.TransactionManager.transactionOngoing", kCleanupTx}
	for _, f := range w.RepoFns {
		if !inTypes(f) || f.Signature.Recv() == nil || core.TypeKey(f.Signature.Recv().Type()) != kTM {
			continue
		}
		var lock ssa.CallInstruction
		for _, c := range core.OwnCalls(f) {
			if k, cls, _ := core.LockOp(c); k == "lock" && cls == "datastore/types.TransactionManager.tmMutex" {
				if _, isDefer := c.(*ssa.Defer); !isDefer {
					lock = c
				}
			}
		}
		if lock == nil {
			continue
		}
		var effects []ssa.Instruction
		for _, c := range core.OwnCalls(f) {
			if core.CalleeIs(c, kRollbackIface, kTxConfirm, kTxGetRollback) {
				effects = append(effects, c)
			}
		}
		for _, st := range core.StoresToField(f, kTMSlot) {
			effects = append(effects, st)
		}
		for _, e := range effects {
			what := "store slot"
			if c, ok := e.(ssa.CallInstruction); ok {
				what = "call " + core.CalleeKey(c)
			}
			site := core.Site(f, "%s", what)
			ok := false
			guards := core.GuardsOf(e)
			// an effect inside a helper that is part of f (slot.clear()): the guards of the helper's call count
			for fn, d := e.Parent(), 0; fn != f && core.IsInlined(fn) && d < 4; d++ {
				var next *ssa.Function
				for _, s := range core.InlineSites(fn) {
					if s.Parent() == f || core.InBody(f, s.Parent()) {
						guards = append(guards, core.GuardsOf(s)...)
						next = s.Parent()
					}
				}
				if next == nil {
					break
				}
				fn = next
			}
			for _, g := range guards {
				// operands of the condition
				var ops []ssa.Value
				if a, b, _, isEq := core.EqTest(g.If.Cond); isEq {
					ops = append(ops, a, b)
				} else {
					v, _ := core.StripNot(g.If.Cond)
					ops = append(ops, v)
				}
				// a condition computed by a small predicate of the package (slot.holds(trans)): the operands of
				// the comparison it returns
				for _, op := range ops {
					for _, o := range core.Origins(op) {
						if a, b, _, isEq := core.EqTest(o); isEq && o != g.If.Cond {
							ops = append(ops, a, b)
						} else if x, _, isNil := core.NilTest(o); isNil && o != g.If.Cond {
							ops = append(ops, x)
						}
					}
				}
				for _, op := range ops {
					for _, o := range append(core.Origins(op), op) {
						// direct slot load after the lock
						if core.FieldOf(o) == kTMSlot {
							if in, isIn := o.(ssa.Instruction); isIn && core.InstrBefore(lock, in) {
								ok = true
							}
						}
						if c, isCall := o.(*ssa.Call); isCall && core.CalleeIs(c, slotReadKeys...) && core.InstrBefore(lock, c) {
							ok = true
						}
					}
				}
			}
			// a store that merely clears the slot right after a guarded effect in the same critical section is covered by that effect's guard
			r.Check(ok, "RECHECK-UNDER-LOCK", site, w.InstrPos(e), "effect must be control-dependent on a read of the transaction slot made after tmMutex was taken")
		}
	}

	// ---- CANCEL-OUTCOME (shared with C05)
	if cancel := w.Func("pkg/datastore/types", "TransactionManager", "Cancel"); cancel != nil {
		r.Rule("CANCEL-OUTCOME", 2, "(shared with C05) the answer of TransactionManager.Cancel agrees with what was done: the transaction is unregistered (CleanupTransaction / slot cleared) and a nil error is returned only on the err==nil outcome of THAT call of RollbackInterface.TransactionRollback (an error variable shadowed inside an if-statement is not the one tested afterwards). A swallowed rollback failure answers success for a transaction that is never rolled back.")
		ruleCancelOutcome(w, r, cancel)
	}

	// ---- EXPIRY-IDENTITY
	r.Rule("EXPIRY-IDENTITY", 1, "the timer-triggered rollback decides by OBJECT identity, not by id: in the TransactionManager method reached from the timer callback, the rollback effect is guarded by an equality test between the transaction slot and the *Transaction the expired timer belongs to. A look-up by id would accept a later transaction that re-uses the id.")
	{
		tcbs := timerCallbacks(w)
		if len(tcbs) == 0 {
			w.NoteUnresolved("timer callback (function handed to types.NewTransactionCancelTimer)")
		}
		if len(tcbs) > 0 {
			reach := w.CG().Reachable(func(e core.Edge) bool { return e.Kind == "ref" || e.Kind == "dynamic-sig" }, tcbs...)
			for _, f := range w.RepoFns {
				if !reach[f] || !inTypes(f) || f.Signature.Recv() == nil || core.TypeKey(f.Signature.Recv().Type()) != kTM {
					continue
				}
				var tparam *ssa.Parameter
				for _, p := range f.Params[1:] {
					if core.TypeKey(p.Type()) == "datastore/types.Transaction" {
						tparam = p
					}
				}
				if core.IsInlined(f) {
					continue // judged as part of the method it is inlined into
				}
				for _, c := range core.CallsTo(f, kRollbackIface) {
					ok := false
					core.WithHost(f, func() {
						ok = tparam != nil && core.GuardedByEq(c, true,
							func(v ssa.Value) bool { return core.FieldOf(v) == kTMSlot },
							func(v ssa.Value) bool { return core.HasOrigin(v, tparam) })
					})
					r.Check(ok, "EXPIRY-IDENTITY", core.Site(f, "rollback guarded by slot == expired transaction"), w.InstrPos(c), "the expired timer's own transaction object must still be the registered one")
				}
			}
		}
	}

	// ---- NO-SLOT-POLL
	r.Rule("NO-SLOT-POLL", 2, "no CFG cycle contains a RegisterTransaction call while dmutex is held, and RegisterTransaction itself never waits (no select, channel receive, sleep, timer or Wait in it or its callees in package types): Confirm/Cancel need dmutex, so a TransactionSet that waits for the slot would make them fail as locked.")
	for _, c := range w.CallersOfKey(kRegisterTx) {
		f := c.Parent()
		holds := lw.HoldsAt(c, "datastore.Datastore.dmutex", "W", nil)
		r.Check(!(holds && core.OnCycle(c)), "NO-SLOT-POLL", core.Site(f, "call RegisterTransaction"), w.InstrPos(c), "RegisterTransaction is retried in a loop while dmutex is held")
	}

	// ... and RegisterTransaction itself does not wait: nothing it executes (static callees in package types, depth 3)
	// receives from a channel, selects, sleeps or arms a timer
	if reg := w.Func("pkg/datastore/types", "TransactionManager", "RegisterTransaction"); reg != nil {
		seen := map[*ssa.Function]bool{}
		var waits func(f *ssa.Function, d int) string
		waits = func(f *ssa.Function, d int) string {
			if f == nil || f.Blocks == nil || seen[f] || d > 3 {
				return ""
			}
			seen[f] = true
			for _, b := range core.Blocks(f) {
				for _, in := range b.Instrs {
					switch x := in.(type) {
					case *ssa.Select:
						if x.Blocking {
							return core.FuncKey(f) + ": select"
						}
					case *ssa.UnOp:
						if x.Op == token.ARROW {
							return core.FuncKey(f) + ": channel receive"
						}
					case ssa.CallInstruction:
						if _, isGo := x.(*ssa.Go); isGo {
							continue
						}
						if k := core.CalleeKey(x); k == "time.Sleep" || k == "time.After" || k == "time.NewTicker" || k == "time.NewTimer" || k == "time.Tick" || k == "sync.WaitGroup.Wait" || k == "sync.Cond.Wait" {
							return core.FuncKey(f) + ": " + k
						}
						if g := x.Common().StaticCallee(); g != nil && g.Pkg != nil && core.PkgPath(g) == core.Module+"/pkg/datastore/types" {
							if _, isDefer := x.(*ssa.Defer); !isDefer || true {
								if wv := waits(g, d+1); wv != "" {
									return wv
								}
							}
						}
					}
				}
			}
			return ""
		}
		wv := waits(reg, 0)
		r.Check(wv == "", "NO-SLOT-POLL", core.Site(reg, "does not wait"), w.Pos(reg.Pos()), "RegisterTransaction is called with the datastore lock held; it must answer at once, but it waits: "+wv)
	}

	// ---- LOCK-ORDER (shared with C06)
	ruleLockOrder(w, r, lw)
}

// ruleLockOrder (C16, C06): no lock-order cycle and no re-acquisition of a held mutex among the transaction locks.
func ruleLockOrder(w *core.World, r *core.Report, lw *core.LockWorld) {
	r.Rule("LOCK-ORDER", 1, "the class-level lock-order graph (M acquired, directly or through synchronous calls, while L is held) over dmutex, tmMutex, doneMutex and the server/datastore maps' mutexes is acyclic; a mutex is not re-acquired by a synchronous callee while held (self-deadlock).")
	edges := lw.LockOrderEdges()
	scopeClasses := map[string]bool{}
	for l, ms := range edges {
		for _, cls := range append([]string{l}, ms...) {
			c := strings.SplitN(cls, " @ ", 2)[0]
			if strings.HasPrefix(c, "datastore.") || strings.HasPrefix(c, "datastore/types.") || strings.HasPrefix(c, "server.") {
				scopeClasses[c] = true
			}
		}
	}
	cyc := core.FindLockCycle(edges, scopeClasses)
	r.Check(cyc == nil, "LOCK-ORDER", "lock-order graph", "", fmt.Sprintf("cycle: %v", cyc))
	var shown []string
	for l := range scopeClasses {
		for _, m := range edges[l] {
			shown = append(shown, l+" -> "+m)
			cls := strings.SplitN(m, " @ ", 2)[0]
			if cls == l && (strings.HasPrefix(l, "datastore/types.") || l == "datastore.Datastore.dmutex") {
				r.Viol("LOCK-ORDER", "self "+l, "", "mutex re-acquired while held: "+m)
			}
		}
	}
	sort.Strings(shown)
	r.Extra["lock_order_edges"] = shown
}
