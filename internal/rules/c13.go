package rules

import (
	"fmt"
	"go/token"
	"go/types"
	"strings"

	"golang.org/x/tools/go/ssa"

	"verif/internal/core"
)

func init() {
	Registry["C13"] = c13
	Registry["C14"] = c14
	Registry["C15"] = c15
}

// literalField returns the value stored into field `name` of the struct literal (Alloc) al (nil if not set).
func literalField(al *ssa.Alloc, name string) ssa.Value {
	if al == nil {
		return nil
	}
	for _, ref := range *al.Referrers() {
		fa, ok := ref.(*ssa.FieldAddr)
		if !ok {
			continue
		}
		fk := core.FieldKey(fa)
		if !strings.HasSuffix(fk, "."+name) {
			continue
		}
		for _, r2 := range *fa.Referrers() {
			if st, ok := r2.(*ssa.Store); ok && st.Addr == fa {
				return st.Val
			}
		}
	}
	return nil
}

// loopCarried: the value is, or derives (through phis) from, a phi located in a loop header, i.e. it can carry state from one iteration to the next.
func loopCarried(v ssa.Value) *ssa.Phi {
	seen := map[ssa.Value]bool{}
	var found *ssa.Phi
	var rec func(v ssa.Value)
	rec = func(v ssa.Value) {
		if v == nil || seen[v] || found != nil {
			return
		}
		seen[v] = true
		if p, ok := v.(*ssa.Phi); ok {
			// loop header: the block can reach itself and one of the phi's edges comes from inside the cycle
			b := p.Block()
			for i, pred := range b.Preds {
				if i >= len(p.Edges) {
					continue
				}
				back, _ := core.PathQuery{}.Reaches(b, len(b.Instrs), func(in ssa.Instruction) bool { return in.Block() == pred })
				if (back || pred == b) && p.Edges[i] != nil {
					// edge from inside the loop: is the incoming value different from a per-iteration re-initialisation?
					if _, isConst := p.Edges[i].(*ssa.Const); !isConst {
						found = p
						return
					}
				}
			}
			for _, e := range p.Edges {
				rec(e)
			}
		}
	}
	rec(v)
	return found
}

func c13(w *core.World, r *core.Report) {
	syncFn := w.Func("pkg/datastore", "Datastore", "Sync")
	store := w.Func("pkg/datastore", "Datastore", "storeSyncMsg")
	isState := w.Func("pkg/datastore", "", "isState")
	conv := w.Func("pkg/utils", "", "convertUpdateTypedValue")
	if syncFn == nil || store == nil || isState == nil || conv == nil {
		return
	}

	// ---- SYNC-ORDER
	r.Rule("SYNC-ORDER", 1, "'the latest notification wins for every number of write workers' needs a happens-before between the cache writes of successive notifications. Sync hands every notification to 'go storeSyncMsg' under a semaphore whose weight is the configurable WriteWorkers: with more than one worker two notifications for the same path are written in either order. Reported when the handler of the ordered sync channel is spawned concurrently with a non-constant (or >1) semaphore weight and no per-path serialisation.")
	for _, c := range core.Calls(syncFn) {
		g, isGo := c.(*ssa.Go)
		if !isGo || !core.CalleeIs(g, "datastore.Datastore.storeSyncMsg") {
			continue
		}
		weightConst1 := false
		for _, nw := range core.CallsTo(syncFn, "golang.org/x/sync/semaphore.NewWeighted") {
			if n, isC := core.ConstInt(nw.Common().Args[0]); isC && n == 1 {
				weightConst1 = true
			}
		}
		r.Check(weightConst1, "SYNC-ORDER", core.Site(syncFn, "go storeSyncMsg"), w.InstrPos(g), "notifications of one ordered stream are written by concurrent workers: for WriteWorkers > 1 an older value can overwrite a newer one")
	}

	// ---- DEL-BEFORE-UPD
	r.Rule("DEL-BEFORE-UPD", 2, "within one notification the deletes are written before the updates (no delete Modify can follow an update Modify), and both kinds are written (one Modify with deletes only, one with updates only).")
	// a Modify wrapped in a helper that both loops call counts once per call of the helper, with that call's arguments
	var delMods, updMods []core.VCall
	for _, m := range core.VirtualCalls(store, core.CallArgs, core.CallsTo(store, kModify)) {
		a := m.Args
		if len(a) != 5 {
			continue
		}
		switch {
		case core.IsNilConst(a[4]) && !core.IsNilConst(a[3]):
			delMods = append(delMods, m)
		case core.IsNilConst(a[3]) && !core.IsNilConst(a[4]):
			updMods = append(updMods, m)
		default:
			r.Viol("DEL-BEFORE-UPD", core.Site(store, "Modify with deletes and updates mixed"), w.InstrPos(m.At), "one Modify carrying both makes the order a property of the cache client")
		}
	}
	r.Check(len(delMods) == 1 && len(updMods) == 1, "DEL-BEFORE-UPD", core.Site(store, "one delete writer and one update writer"), w.Pos(store.Pos()), fmt.Sprintf("%d delete / %d update Modify calls", len(delMods), len(updMods)))
	for _, d := range delMods {
		for _, u := range updMods {
			r.Check(!core.CanFollow(u.At, d.At), "DEL-BEFORE-UPD", core.Site(store, "deletes before updates"), w.InstrPos(d.At), "a delete written after the update of the same notification removes what was just reported")
		}
	}

	// ---- STORE-AGREE
	r.Rule("STORE-AGREE", 6, "the store each entry is written to is decided per entry: Opts.Store of both Modify calls is not loop-carried (re-initialised in every iteration), is STATE only under 'Sync.Validate && isState(schema of THIS path)', and isState looks at the IsState flag of all three schema kinds.")
	for _, vm := range append(append([]core.VCall{}, delMods...), updMods...) {
		m := vm.At
		sv, _ := optsField(vm.Call, "Store")
		sv = vm.BindAt(sv)
		if sv == nil {
			r.Viol("STORE-AGREE", core.Site(store, "Opts.Store"), w.InstrPos(m), "store not selected")
			continue
		}
		kind := "update"
		if core.IsNilConst(vm.Args[4]) {
			kind = "delete"
		}
		p := loopCarried(sv)
		r.Check(p == nil, "STORE-AGREE", core.Site(store, "%s store decided per entry", kind), w.InstrPos(m), "the store selection is carried over from the previous entry of the notification")
		// decision inputs
		sl := core.BackwardSlice(store, []ssa.Value{sv}, nil)
		r.Check(sl.HasCallTo("datastore.isState"), "STORE-AGREE", core.Site(store, "%s store depends on isState", kind), w.InstrPos(m), "state leaves go to the state store")
		r.Check(sl.HasFieldLoad("config.Sync.Validate"), "STORE-AGREE", core.Site(store, "%s store depends on Sync.Validate", kind), w.InstrPos(m), "only when sync validation is on")
	}
	{
		sl := core.ReturnSlice(isState, -1)
		for _, k := range []string{"ContainerSchema", "LeafSchema", "LeafListSchema"} {
			r.Check(sl.HasFieldLoad("github.com/sdcio/sdc-protos/sdcpb."+k+".IsState"), "STORE-AGREE", core.Site(isState, "reads %s.IsState", k), w.Pos(isState.Pos()), "every schema kind can be state")
		}
	}

	// ---- NOTIFICATION-COMPLETE
	r.Rule("NOTIFICATION-COMPLETE", 2, "Converter.ConvertNotificationTypedValues looks at every update of the notification: no success return (nil error) is reachable from inside the loop over n.GetUpdate() without leaving the loop through its exit, and the converted result of each update (also of an expanded JSON blob) is appended to the returned notification. Decides: one update of a device message cannot make the others disappear.")
	if conv := w.Func("pkg/utils", "Converter", "ConvertNotificationTypedValues"); conv != nil {
		var head *ssa.If
		for _, iff := range core.Ifs(conv) {
			if bo, ok := iff.Cond.(*ssa.BinOp); ok && bo.Op == token.LSS {
				if c, ok := bo.Y.(*ssa.Call); ok {
					if bi, ok := c.Call.Value.(*ssa.Builtin); ok && bi.Name() == "len" {
						for _, oc := range core.OriginCalls(c.Call.Args[0]) {
							if core.CalleeIs(oc, "github.com/sdcio/sdc-protos/sdcpb.Notification.GetUpdate") && head == nil {
								head = iff
							}
						}
					}
				}
			}
		}
		if head == nil {
			r.Undecided("NOTIFICATION-COMPLETE", core.Site(conv, "loop over the updates"), w.Pos(conv.Pos()), "no index loop over n.GetUpdate()")
		} else {
			body := head.Block().Succs[0]
			for i, ret := range core.Returns(conv) {
				ev := errorOperand(ret)
				if ev == nil || !core.IsNilConst(ev) {
					// a return whose error may be non-nil is a failure exit... unless it forwards a callee's (result, err) pair
					if ev != nil {
						isPair := false
						for _, o := range core.Origins(ev) {
							if c, ok := o.(*ssa.Call); ok && core.CalleeIs(c, "utils.Converter.ConvertNotificationTypedValues") && core.HasOrigin(core.ReturnValues(ret)[0], c) {
								isPair = true
							}
						}
						if !isPair {
							continue
						}
					} else {
						continue
					}
				}
				early, _ := core.PathQuery{Avoid: func(in ssa.Instruction) bool { return in == ssa.Instruction(head) }}.Reaches(body, 0, func(in ssa.Instruction) bool { return in == ssa.Instruction(ret) })
				r.Check(!early, "NOTIFICATION-COMPLETE", core.Site(conv, "success return#%d after the loop", i), w.InstrPos(ret), "a return from inside the loop over the updates hands back a partial notification: the updates before it are discarded and the ones after it are never looked at")
			}
			// the recursion's result is appended
			for _, c := range core.CallsTo(conv, "utils.Converter.ConvertNotificationTypedValues") {
				used := false
				for _, b := range core.Blocks(conv) {
					for _, in := range b.Instrs {
						if ap, ok := in.(*ssa.Call); ok {
							if bi, isB := ap.Call.Value.(*ssa.Builtin); isB && bi.Name() == "append" && len(ap.Call.Args) == 2 {
								sl := core.DataSlice(conv, []ssa.Value{ap.Call.Args[1]})
								if sl.HasValue(c.Value()) {
									used = true
								}
							}
						}
					}
				}
				r.Check(used, "NOTIFICATION-COMPLETE", core.Site(conv, "expansion appended to the result"), w.InstrPos(c), "the converted expansion of a JSON blob must be added to the notification that is returned")
			}
		}
	}

	// ---- EVERY-ENTRY-WRITTEN
	r.Rule("ELEM-APPEND-OWNED", 10, "(shared with C11) the paths of the updates a JSON blob of a sync notification is expanded to are extended on their own elements only (np.Elem = append(np.Elem, ...) on a clone): appending to the container path's elements makes the sibling leafs share one backing array, the running store then holds one leaf with another's value.")
	ruleElemAppendOwned(w, r, "ELEM-APPEND-OWNED")
	r.Rule("EVERY-ENTRY-WRITTEN", 2, "in storeSyncMsg whether a delete / update of a notification is written to the cache depends on failures only: every path from the start of a loop iteration to the next iteration passes the Modify call or an err != nil edge. A memo of 'already written' values, a filter on the value or any other skip makes the mirror miss what the device sent (e.g. the same value again after an ancestor was deleted).")
	for i, vm := range core.VirtualCalls(store, core.CallArgs, core.CallsTo(store, kModify)) {
		m := vm.At
		// loop header: the dominating branch on 'index < len(slice)'
		var head *ssa.If
		for _, g := range core.GuardsOf(m) {
			if bo, ok := g.If.Cond.(*ssa.BinOp); ok && bo.Op == token.LSS && g.CondTrue() {
				if c, ok := bo.Y.(*ssa.Call); ok {
					if bi, ok := c.Call.Value.(*ssa.Builtin); ok && bi.Name() == "len" {
						head = g.If
					}
				}
			}
		}
		if head == nil {
			r.Undecided("EVERY-ENTRY-WRITTEN", core.Site(store, "Modify#%d loop", i), w.InstrPos(m), "the Modify call is not inside an index loop over the notification's entries")
			continue
		}
		errEdge := func(from *ssa.BasicBlock, succ int) bool {
			iff, ok := from.Instrs[len(from.Instrs)-1].(*ssa.If)
			if !ok {
				return false
			}
			x, nilOnTrue, isNil := core.NilTest(iff.Cond)
			if !isNil || x == nil || !isErrorType(x.Type()) {
				return false
			}
			// succ 0 = condition true
			return (succ == 0) != nilOnTrue
		}
		body := head.Block().Succs[0]
		skip, tr := core.PathQuery{
			Avoid:    func(in ssa.Instruction) bool { return in == ssa.Instruction(m) },
			SkipEdge: errEdge,
		}.Reaches(body, 0, func(in ssa.Instruction) bool { return in == ssa.Instruction(head) })
		r.Check(!skip, "EVERY-ENTRY-WRITTEN", core.Site(store, "Modify#%d depends on failures only", i), w.InstrPos(m), fmt.Sprintf("an iteration can reach the next one without writing the entry and without a failure (blocks %v)", tr))
	}

	// whether a notification is handed to a writer at all is not decided by its updates alone: a notification that
	// carries only deletes (the gNMI encoding of a removal on an on-change stream) is content
	for _, c := range core.Calls(syncFn) {
		g, isGo := c.(*ssa.Go)
		if !isGo || !core.CalleeIs(g, "datastore.Datastore.storeSyncMsg") {
			continue
		}
		bad := false
		core.WithHost(syncFn, func() {
			for _, cond := range core.ControlConds(g) {
				sl := core.BackwardSlice(syncFn, []ssa.Value{cond}, nil)
				upd, del := sl.HasCallTo("github.com/sdcio/sdc-protos/sdcpb.Notification.GetUpdate"), sl.HasCallTo("github.com/sdcio/sdc-protos/sdcpb.Notification.GetDelete")
				// a predicate of the package that is part of Sync: what its result is computed from
				core.WithoutInlining(func() {
					v, _ := core.StripNot(cond)
					if pc, ok := v.(*ssa.Call); ok {
						if h := pc.Call.StaticCallee(); h != nil && h.Blocks != nil && core.PkgPath(h) == core.PkgPath(syncFn) {
							hs := core.ReturnSlice(h, -1)
							upd = upd || hs.HasCallTo("github.com/sdcio/sdc-protos/sdcpb.Notification.GetUpdate")
							del = del || hs.HasCallTo("github.com/sdcio/sdc-protos/sdcpb.Notification.GetDelete")
						}
					}
				})
				if upd && !del {
					bad = true
				}
			}
		})
		r.Check(!bad, "EVERY-ENTRY-WRITTEN", core.Site(syncFn, "hand-off to the writer not decided by the updates alone"), w.InstrPos(g), "whether the notification reaches storeSyncMsg depends on its updates but not on its deletes: a delete-only notification is dropped and the removed entry stays in the mirror")
	}

	// ---- PRUNE-BRACKET
	r.Rule("PRUNE-BRACKET", 4, "a re-sync cycle is bracketed: CreatePruneID executes only on the Start outcome, ApplyPrune only on 'End && pruneID != \"\"', the id is reset after a successful ApplyPrune, and neither is called from the per-notification worker.")
	for _, c := range core.CallsTo(syncFn, "cache.Client.CreatePruneID") {
		ok := false
		for _, at := range core.GuardAtoms(c) {
			if at.True && core.FieldOf(at.Cond) == "datastore/target.SyncUpdate.Start" {
				ok = true
			}
		}
		r.Check(ok, "PRUNE-BRACKET", core.Site(syncFn, "CreatePruneID only on Start"), w.InstrPos(c), "a prune id marks the beginning of one re-sync cycle")
	}
	for _, c := range core.CallsTo(syncFn, "cache.Client.ApplyPrune") {
		okEnd, okID := false, false
		atoms := core.GuardAtoms(c)
		for _, at := range atoms {
			if at.True && core.FieldOf(at.Cond) == "datastore/target.SyncUpdate.End" {
				okEnd = true
			}
			if a, b, eqOnTrue, isEq := core.EqTest(at.Cond); isEq && eqOnTrue != at.True {
				for _, x := range []ssa.Value{a, b} {
					if s, isC := core.ConstString(x); isC && s == "" {
						okID = true
					}
				}
			}
		}
		r.Check(okEnd && okID, "PRUNE-BRACKET", core.Site(syncFn, "ApplyPrune only on End with an open cycle"), w.InstrPos(c), "paths absent from a COMPLETED re-sync are pruned, nothing else")
		// ... and on nothing else: every completed cycle is pruned, whatever it delivered (an empty device config
		// is a completed cycle too). Other guards may only be the select of the main loop and error tests.
		extra := ""
		for _, at := range atoms {
			cond := at.Cond
			if f := core.FieldOf(cond); f == "datastore/target.SyncUpdate.End" || f == "datastore/target.SyncUpdate.Start" {
				continue
			}
			if a, b, _, isEq := core.EqTest(cond); isEq {
				okc := false
				for _, x := range []ssa.Value{a, b} {
					if s, isC := core.ConstString(x); isC && s == "" {
						okc = true // pruneID
					}
					if core.IsNilConst(x) {
						okc = true // error / nil tests
					}
					for _, o := range core.Origins(x) {
						if _, isSel := o.(*ssa.Select); isSel {
							okc = true // which select case fired
						}
					}
				}
				if okc {
					continue
				}
			}
			if x, _, isNil := core.NilTest(cond); isNil && x != nil {
				continue
			}
			extra = cond.String() + " (" + cond.Name() + ")"
		}
		r.Check(extra == "", "PRUNE-BRACKET", core.Site(syncFn, "ApplyPrune on every completed cycle"), w.InstrPos(c), "the prune of a completed re-sync depends on a further condition: "+extra)
	}
	r.Check(len(core.CallsTo(store, "cache.Client.CreatePruneID", "cache.Client.ApplyPrune")) == 0, "PRUNE-BRACKET", core.Site(store, "no pruning in the worker"), w.Pos(store.Pos()), "pruning belongs to the ordered main loop")

	// ---- SEM-PAIR
	r.Rule("SEM-PAIR", 2, "the worker is started only after sem.Acquire returned nil, and it defers sem.Release(1) before anything else.")
	for _, c := range core.Calls(syncFn) {
		if g, isGo := c.(*ssa.Go); isGo && core.CalleeIs(g, "datastore.Datastore.storeSyncMsg") {
			ok := false
			for _, a := range core.CallsTo(syncFn, "golang.org/x/sync/semaphore.Weighted.Acquire") {
				if core.GuardedByErrNil(g, a.(*ssa.Call)) {
					ok = true
				}
			}
			r.Check(ok, "SEM-PAIR", core.Site(syncFn, "go only after Acquire ok"), w.InstrPos(g), "a worker without a permit would release one it never got")
		}
	}
	{
		var rel ssa.CallInstruction
		for _, c := range core.CallsTo(store, "golang.org/x/sync/semaphore.Weighted.Release") {
			if _, isDefer := c.(*ssa.Defer); isDefer {
				rel = c
			}
		}
		ok := rel != nil
		if ok {
			for _, c := range core.Calls(store) {
				if c != rel && !core.InstrBefore(rel, c) {
					ok = false
				}
			}
		}
		r.Check(ok, "SEM-PAIR", core.Site(store, "defer Release first"), w.Pos(store.Pos()), "every exit of the worker returns its permit")
	}

	// ---- SAME-KEYING
	r.Rule("SAME-KEYING", 3, "delete paths and update paths are turned into cache keys the same way (key values in key-name order, keys included): deletes through utils.ToStrings(p,false,false), updates through cache.Client.NewUpdate; leaf-lists sent as keys are grouped per list instance (grouping key ToXPath(p, noKeys=false)).")
	for _, vd := range delMods {
		a, d := vd.Args, vd.At
		ok := false
		sl := core.DataSlice(store, []ssa.Value{a[3]})
		for v := range sl.Values {
			if c, isC := v.(*ssa.Call); isC && core.CalleeIs(c, "utils.ToStrings") {
				ca := core.CallArgs(c)
				b1, c1 := core.ConstBool(ca[1])
				b2, c2 := core.ConstBool(ca[2])
				if c1 && c2 && !b1 && !b2 {
					ok = true
				}
			}
		}
		r.Check(ok, "SAME-KEYING", core.Site(store, "delete path via ToStrings(p,false,false)"), w.InstrPos(d), "deletes must address the keys the updates were stored under")
	}
	for _, vu := range updMods {
		a, u := vu.Args, vu.At
		sl := core.DataSlice(store, []ssa.Value{a[4]})
		r.Check(sl.HasCallTo("cache.Client.NewUpdate"), "SAME-KEYING", core.Site(store, "update via cacheClient.NewUpdate"), w.InstrPos(u), "updates are keyed by the cache client")
	}
	for _, c := range core.CallsTo(conv, "utils.ToXPath") {
		mk, _, _ := keyUses(c.Value())
		if !mk {
			continue
		}
		a := core.CallArgs(c)
		b, isC := core.ConstBool(a[1])
		r.Check(isC && !b, "SAME-KEYING", core.Site(conv, "leaf-list grouping key includes list keys"), w.InstrPos(c), "a grouping key without the list keys merges the leaf-lists of different list entries")
	}
}

func c14(w *core.World, r *core.Report) {
	get := w.Func("pkg/datastore", "Datastore", "Get")
	hs := []*ssa.Function{
		w.Func("pkg/datastore", "Datastore", "handleGetDataUpdatesSTRING"),
		w.Func("pkg/datastore", "Datastore", "handleGetDataUpdatesJSON"),
		w.Func("pkg/datastore", "Datastore", "handleGetDataUpdatesPROTO"),
	}
	if get == nil || hs[0] == nil || hs[1] == nil || hs[2] == nil {
		return
	}

	// ---- VALIDATE-FIRST
	r.Rule("VALIDATE-FIRST", 4, "every requested path is validated against the schema before anything is read: validatePath is called in a range over req.GetPath(), its error is tested before the next path is looked at (no later result can overwrite it), the failure edge returns a non-nil error, and the call dominates every handler call.")
	{
		// the validation is the schema lookup of the path (today inside the helper validatePath, which is part of Get's body)
		var vs []ssa.CallInstruction
		for _, c := range core.Calls(get) {
			if strings.HasSuffix(core.CalleeKey(c), "SchemaClientBound.GetSchemaSdcpbPath") {
				vs = append(vs, c)
			}
		}
		if len(vs) != 1 {
			r.Viol("VALIDATE-FIRST", core.Site(get, "schema lookup of the path"), w.Pos(get.Pos()), fmt.Sprintf("expected one schema lookup of the requested path, found %d", len(vs)))
		} else {
			v := vs[0]
			verdict, detail := errorDiscipline(w, get, v)
			r.Check(verdict == "propagated", "VALIDATE-FIRST", core.Site(get, "validation error propagated"), w.InstrPos(v), "an unknown path must fail the request: "+verdict+" "+detail)
			r.Check(core.OnCycle(v), "VALIDATE-FIRST", core.Site(get, "every path validated"), w.InstrPos(v), "validation must run for each element of req.GetPath()")
			// the error is tested before the call can execute again
			tests := map[ssa.Instruction]bool{}
			for _, i := range core.Ifs(get) {
				x, _, isNil := core.NilTest(i.Cond)
				if !isNil {
					continue
				}
				for _, oc := range core.OriginCalls(x) {
					if oc == v.(*ssa.Call) {
						tests[i] = true
					}
				}
			}
			if len(tests) > 0 {
				again, _ := core.PathQuery{Avoid: func(in ssa.Instruction) bool { return tests[in] }}.Reaches(v.Block(), core.InstrIndex(v)+1, func(in ssa.Instruction) bool { return in == ssa.Instruction(v) })
				r.Check(!again, "VALIDATE-FIRST", core.Site(get, "error tested per path"), w.InstrPos(v), "the result of validating one path can be overwritten by the next before it is tested: only the last path counts")
			}
			for _, hc := range dispatchedCalls(w, get, hs) {
				r.Check(!core.CanFollow(hc.Call, v), "VALIDATE-FIRST", core.Site(get, "validation before %s", hc.Target.Name()), w.InstrPos(hc.Call), "no read before all paths are validated")
			}
		}
	}

	// ---- ALL-PATHS
	r.Rule("ALL-PATHS", 4, "every requested path is read: the path list handed to each of the four handler calls in Datastore.Get is built by make + append in the loop over req.GetPath() and by nothing else (no function filters, de-duplicates or re-orders it); prefix tests on joined paths follow NO-PREFIX-ON-JOIN.")
	{
		n := 0
		for _, hc := range dispatchedCalls(w, get, hs) {
			c, k, a := hc.Call, core.FuncKey(hc.Target), hc.Args
			if len(a) < 4 {
				continue
			}
			n++
			if hc.Wrapper != nil {
				// the forwarding wrapper hands its own path list on
				fwdOK := false
				for _, wc := range core.OwnCalls(hc.Wrapper) {
					if wc.Common().StaticCallee() != hc.Target {
						continue
					}
					wa := core.CallArgs(wc)
					if len(wa) >= 4 {
						os := core.Origins(wa[3])
						if p, isP := os[0].(*ssa.Parameter); len(os) == 1 && isP && p.Parent() == hc.Wrapper && types.Identical(p.Type(), a[3].Type()) {
							fwdOK = true
						}
					}
				}
				r.Check(fwdOK, "ALL-PATHS", core.Site(hc.Wrapper, "forwards the paths it is given"), w.Pos(hc.Wrapper.Pos()), "the wrapper between the dispatch table and the handler must pass the requested paths on unchanged")
			}
			bad := ""
			seen := map[ssa.Value]bool{}
			var appends []*ssa.Call
			var visit func(v ssa.Value)
			visit = func(v ssa.Value) {
				for _, o := range core.Origins(v) {
					if seen[o] {
						continue
					}
					seen[o] = true
					switch x := o.(type) {
					case *ssa.MakeSlice, *ssa.Const:
					case *ssa.Slice:
						visit(x.X)
					case *ssa.Call:
						if bi, ok := x.Call.Value.(*ssa.Builtin); ok && bi.Name() == "append" {
							appends = append(appends, x)
							visit(x.Call.Args[0])
						} else {
							bad = core.CalleeKey(x)
						}
					default:
						bad = o.String()
					}
				}
			}
			visit(a[3])
			// one accumulating append, executed for every element: a second append site means the list is rebuilt
			// (filtered, de-duplicated), a conditional one means some paths are left out
			if bad == "" && len(appends) > 1 {
				bad = fmt.Sprintf("%d append sites (the list is rebuilt from another list)", len(appends))
			}
			if bad == "" {
				for _, ap := range appends {
					for _, g := range core.GuardsOf(ap) {
						cv, _ := core.StripNot(g.If.Cond)
						isLoopHead := false
						if bo, ok := cv.(*ssa.BinOp); ok && bo.Op == token.LSS {
							if lc, ok := bo.Y.(*ssa.Call); ok {
								if bi, ok := lc.Call.Value.(*ssa.Builtin); ok && bi.Name() == "len" {
									isLoopHead = true
								}
							}
						}
						if ex, ok := cv.(*ssa.Extract); ok {
							if _, isNext := ex.Tuple.(*ssa.Next); isNext {
								isLoopHead = true
							}
						}
						if !isLoopHead && g.If.Parent() == ap.Parent() && core.OnCycle(g.If) {
							bad = "a conditional append (" + w.InstrPos(g.If) + ")"
						}
					}
				}
			}
			// ... and what is appended is made of the elements of req.GetPath() itself, not of a filtered copy of it
			if bad == "" {
				core.WithHost(get, func() {
					for _, ap := range appends {
						for _, el := range appendedElems(ap) {
							for _, coll := range elementSources(el, 0) {
								for _, o := range core.Origins(coll) {
									oc, isCall := o.(*ssa.Call)
									if isCall && core.CalleeIs(oc, "github.com/sdcio/sdc-protos/sdcpb.GetDataRequest.GetPath") {
										continue
									}
									if _, isParam := o.(*ssa.Parameter); isParam {
										continue // the request's list handed to a helper
									}
									bad = "a list derived from the request's paths (" + o.String() + ")"
								}
							}
						}
					}
				})
			}
			r.Check(bad == "", "ALL-PATHS", core.Site(get, "paths of %s", shortSrc(k)), w.InstrPos(c), "the list of paths to read passes through "+bad+": a requested path may be dropped")
		}
		if n == 0 {
			r.Undecided("ALL-PATHS", core.Site(get, "handler calls"), w.Pos(get.Pos()), "no handler call found")
		}
	}
	ruleNoPrefixOnJoin(w, r)

	// ---- FRESH-MESSAGE
	r.Rule("FRESH-MESSAGE", 3, "a response handed to the stream channel is not written afterwards: no handler truncates ('x[:0]') a slice variable that is also stored into a field of a message (sdcpb.Notification.Update, GetDataResponse.Notification): the next append would overwrite the backing array of a message the consumer has not serialised yet, so earlier messages show later leaves.")
	for _, h := range append([]*ssa.Function{get}, hs...) {
		fns := []*ssa.Function{h}
		fns = append(fns, h.AnonFuncs...)
		bad := ""
		for _, f := range fns {
			// variables (allocs / captured variables) whose value is stored into a message field
			inMsg := map[ssa.Value]bool{}
			addrOf := func(v ssa.Value) ssa.Value {
				for _, o := range core.Origins(v) {
					if u, ok := o.(*ssa.UnOp); ok && u.Op == token.MUL {
						return u.X
					}
				}
				return nil
			}
			for _, b := range core.Blocks(f) {
				for _, in := range b.Instrs {
					st, ok := in.(*ssa.Store)
					if !ok {
						continue
					}
					if fk := core.FieldOf(st.Addr); strings.HasPrefix(fk, "github.com/sdcio/sdc-protos/sdcpb.") {
						if a := addrOf(st.Val); a != nil {
							inMsg[a] = true
						}
					}
				}
			}
			for _, b := range core.Blocks(f) {
				for _, in := range b.Instrs {
					sl, ok := in.(*ssa.Slice)
					if !ok || sl.High == nil {
						continue
					}
					if hi, isC := core.ConstInt(sl.High); !isC || hi != 0 {
						continue
					}
					if a := addrOf(sl.X); a != nil && inMsg[a] {
						bad = core.FuncKey(f) + " truncates " + a.Name()
					}
				}
			}
		}
		r.Check(bad == "", "FRESH-MESSAGE", core.Site(h, "sent slices are not reused"), w.Pos(h.Pos()), "a slice that is part of a sent message is truncated and refilled: "+bad)
	}

	// ---- READ-EXACT
	r.Rule("READ-EXACT", 3, "cache contract (sdcio/cache v0.0.35 matches a requested path as a plain key prefix in the config and state stores: interface,eth1 also matches interface,eth10 - reproduced): both cache clients (localCache.ReadCh, remoteCache.ReadCh) hand an entry on only on the true outcome of belowAnyPath(entry path, requested paths), and belowAnyPath accepts equality or the prefix '<joined path> + delimiter' only (see NO-PREFIX-ON-JOIN).")
	for _, recv := range []string{"localCache", "remoteCache"} {
		f := w.Func("pkg/cache", recv, "ReadCh")
		if f == nil {
			continue
		}
		n := 0
		fns := append([]*ssa.Function{f}, f.AnonFuncs...)
		for _, sp := range core.Spawned(f) {
			dup := false
			for _, x := range fns {
				if x == sp {
					dup = true
				}
			}
			if !dup {
				fns = append(fns, sp) // the reader goroutine as a named method
			}
		}
		for _, g := range fns {
			for _, b := range core.Blocks(g) {
				for _, in := range b.Instrs {
					var at ssa.Instruction
					switch x := in.(type) {
					case *ssa.Send:
						at = x
					case *ssa.Select:
						for _, st := range x.States {
							if st.Dir == types.SendOnly {
								at = x
							}
						}
					}
					if at == nil {
						continue
					}
					n++
					guarded := false
					core.WithHost(g, func() { guarded = core.GuardedByBoolCall(at, true, "cache.belowAnyPath") })
					r.Check(guarded, "READ-EXACT", core.Site(g, "entry filtered before it is handed on"), w.InstrPos(at), "entries the cache delivers because their key merely starts with the requested key must be dropped")
				}
			}
		}
		if n == 0 {
			r.Undecided("READ-EXACT", core.Site(f, "send"), w.Pos(f.Pos()), "no send of read entries found")
		}
	}
	if bp := w.Func("pkg/cache", "", "belowAnyPath"); bp != nil {
		sl := core.ReturnSlice(bp, -1)
		r.Check(sl.HasCallTo("strings.HasPrefix") && sl.HasCallTo("strings.Join"), "READ-EXACT", core.Site(bp, "compares whole elements"), w.Pos(bp.Pos()), "the filter decides on the joined paths with a delimiter-terminated prefix")
	}

	// ---- ENCODING-REJECT
	r.Rule("ENCODING-REJECT", 1, "an unknown encoding is refused with a non-nil error before any handler runs, and each handler is selected by exactly its encoding constant.")
	{
		want := map[string]int64{"handleGetDataUpdatesSTRING": 0, "handleGetDataUpdatesPROTO": 4}
		_ = want
		n := 0
		for _, hc := range dispatchedCalls(w, get, hs) {
			{
				c, h := hc.Call, hc.Target
				n++
				ok := false
				if hc.KeyV != nil {
					// dispatch table: the handler is filed under a constant and looked up by req.GetEncoding()
					for _, oc := range core.OriginCalls(hc.KeyV) {
						if core.CalleeIs(oc, "github.com/sdcio/sdc-protos/sdcpb.GetDataRequest.GetEncoding") {
							ok = true
						}
					}
				}
				for _, g := range core.GuardsOf(c) {
					a, b, eqOnTrue, isEq := core.EqTest(g.If.Cond)
					if !isEq || eqOnTrue != g.CondTrue() {
						continue
					}
					for _, x := range []ssa.Value{a, b} {
						for _, oc := range core.OriginCalls(x) {
							if core.CalleeIs(oc, "github.com/sdcio/sdc-protos/sdcpb.GetDataRequest.GetEncoding") {
								ok = true
							}
						}
					}
				}
				r.Check(ok, "ENCODING-REJECT", core.Site(get, "%s selected by encoding", h.Name()), w.InstrPos(c), "handlers are dispatched on req.GetEncoding()")
			}
		}
		r.Check(n == 4, "ENCODING-REJECT", core.Site(get, "four encodings dispatched"), w.Pos(get.Pos()), fmt.Sprintf("%d handler calls (STRING, JSON, JSON_IETF, PROTO expected)", n))
	}

	// ---- HANDLER-AGREE
	r.Rule("HANDLER-AGREE", 15, "the three handlers read the same thing: each calls cacheClient.ReadCh inside a range over getStores(req) (and can reach that call again from the 'channel closed' outcome of the receive: every selected store is read) with Store = the loop variable, Owner = req.GetDatastore().GetOwner(), Priority = req.GetDatastore().GetPriority() and the handler's paths parameter; the JSON handler renders the whole view (ToJson / ToJsonIETF with onlyNewOrUpdated=false), choosing IETF exactly when asked.")
	for _, h := range hs {
		rcs := core.CallsTo(h, "cache.Client.ReadCh")
		if len(rcs) != 1 {
			r.Viol("HANDLER-AGREE", core.Site(h, "ReadCh"), w.Pos(h.Pos()), fmt.Sprintf("expected one ReadCh call, found %d", len(rcs)))
			continue
		}
		c := rcs[0]
		sv, _ := optsField(c, "Store")
		okStore := false
		for _, o := range core.Origins(sv) {
			if n, ok := o.(*ssa.Next); ok {
				if rg, ok := n.Iter.(*ssa.Range); ok {
					for _, oc := range core.OriginCalls(rg.X) {
						if core.CalleeIs(oc, "datastore.getStores") {
							okStore = true
						}
					}
				}
			}
			// slices are ranged by index: value is a load of &stores[i]
			if u, ok := o.(*ssa.UnOp); ok {
				if ia, ok := u.X.(*ssa.IndexAddr); ok {
					for _, oc := range core.OriginCalls(ia.X) {
						if core.CalleeIs(oc, "datastore.getStores") {
							okStore = true
						}
					}
				}
			}
		}
		r.Check(okStore, "HANDLER-AGREE", core.Site(h, "Store from getStores(req)"), w.InstrPos(c), "all handlers read the stores selected for the request")
		for fld, getter := range map[string]string{"Owner": "github.com/sdcio/sdc-protos/sdcpb.DataStore.GetOwner", "Priority": "github.com/sdcio/sdc-protos/sdcpb.DataStore.GetPriority"} {
			v, _ := optsField(c, fld)
			ok := false
			for _, oc := range core.OriginCalls(v) {
				if core.CalleeIs(oc, getter) {
					ok = true
				}
			}
			r.Check(ok, "HANDLER-AGREE", core.Site(h, "%s from the request", fld), w.InstrPos(c), "owner / priority selection of the INTENDED view must be the same in every encoding")
		}
		a := core.CallArgs(c)
		okPaths := false
		core.WithHost(h, func() {
			if len(a) == 5 && core.Param(h, "paths") != nil {
				os := core.Origins(a[3])
				okPaths = len(os) == 1 && os[0] == ssa.Value(core.Param(h, "paths"))
			}
		})
		r.Check(okPaths, "HANDLER-AGREE", core.Site(h, "reads the requested paths"), w.InstrPos(c), "the paths read are the paths requested")
		// every selected store is read: when the channel of one store is drained (receive with ok == false) the read of
		// the next store can still execute (the loop over the stores goes on; a break out of it drops the STATE store)
		core.WithHost(h, func() {
			for _, iff := range core.Ifs(h) {
				v, neg := core.StripNot(iff.Cond)
				ex, ok := v.(*ssa.Extract)
				if !ok || ex.Index != 1 {
					continue
				}
				fromRead := false
				switch t := ex.Tuple.(type) {
				case *ssa.Select:
					for _, st := range t.States {
						if st.Dir == types.RecvOnly && core.HasOrigin(st.Chan, c.Value()) {
							fromRead = true
						}
					}
				case *ssa.UnOp:
					if t.Op == token.ARROW && core.HasOrigin(t.X, c.Value()) {
						fromRead = true
					}
				}
				if !fromRead {
					continue
				}
				closed := iff.Block().Succs[1]
				if neg {
					closed = iff.Block().Succs[0]
				}
				again, _ := core.PathQuery{}.Reaches(closed, 0, func(in ssa.Instruction) bool { return in == ssa.Instruction(c) })
				r.Check(again, "HANDLER-AGREE", core.Site(h, "next store read after a store is drained"), w.InstrPos(iff), "when the channel of one store is closed the handler must go on with the next store of getStores(req): leaving the loop returns CONFIG without STATE for DataType ALL")
			}
		})
	}
	{
		h := hs[1]
		ietf := core.Param(h, "ietf")
		for _, t := range []struct {
			key  string
			want bool
		}{{"tree.sharedEntryAttributes.ToJson", false}, {"tree.sharedEntryAttributes.ToJsonIETF", true}, {"tree.RootEntry.ToJson", false}, {"tree.RootEntry.ToJsonIETF", true}} {
			for _, c := range core.CallsTo(h, t.key) {
				a := core.CallArgs(c)
				b, isC := core.ConstBool(a[0])
				r.Check(isC && !b, "HANDLER-AGREE", core.Site(h, "%s renders the whole view", shortSrc(t.key)), w.InstrPos(c), "GetData returns what is stored, not a diff: onlyNewOrUpdated must be false")
				r.Check(ietf != nil && core.GuardedByValue(c, ietf, t.want), "HANDLER-AGREE", core.Site(h, "%s chosen by ietf", shortSrc(t.key)), w.InstrPos(c), "JSON vs JSON_IETF chosen by the flag")
			}
		}
	}

	// ---- NO-DROPPED-ERROR
	r.Rule("NO-DROPPED-ERROR", 15, "error discipline on the GetData path (Datastore.Get and the three handlers): every call that returns an error and whose callee is declared in the repository or is a collaborator interface method has its error tested or returned, and no nil-error return is reachable from its failure edge: errors surface as errors, not as partial data.")
	for _, f := range append([]*ssa.Function{get}, hs...) {
		seen := map[string]int{}
		for _, c := range core.Calls(f) {
			if _, isGo := c.(*ssa.Go); isGo {
				continue
			}
			if _, isDefer := c.(*ssa.Defer); isDefer {
				continue
			}
			if _, ok := callReturnsError(c); !ok {
				continue
			}
			if !collaboratorTypes[recvTypeKeyOfCall(c)] && !isRepoCallee(c) && !core.CalleeIs(c, "encoding/json.Marshal", "context.Context.Err") {
				continue
			}
			if core.CalleeIs(c, "context.Context.Err") {
				continue
			}
			key := core.CalleeKey(c)
			seen[key]++
			verdict, detail := errorDiscipline(w, f, c)
			r.Check(verdict == "propagated", "NO-DROPPED-ERROR", core.Site(f, "call %s#%d", key, seen[key]), w.InstrPos(c), "error must be propagated: "+verdict+" "+detail)
		}
	}
}

func c15(w *core.World, r *core.Report) {
	run := w.Func("pkg/datastore", "Datastore", "runDeviationUpdate")
	if run == nil {
		return
	}
	// classify the stream sends by the literal they send. A send that lives in a helper (sendDeviation(dm, rsp),
	// sendDeviationEvent(dm, event, ...)) counts once per call of that helper in runDeviationUpdate: the message, or the
	// fields of the literal built in the helper, are then what that call passes.
	type sendInfo struct {
		call   ssa.CallInstruction // the send itself, or the call of the helper that sends
		site   *ssa.Call           // the helper call (nil for a send written in runDeviationUpdate itself)
		lit    *ssa.Alloc
		event  int64
		reason int64
		send   ssa.CallInstruction // the Send itself (call is the helper's call site when the Send sits in a helper)
	}
	resolveAt := func(v ssa.Value, site *ssa.Call) ssa.Value {
		if v == nil || site == nil {
			return v
		}
		h := core.InlinedCallee(site)
		var res ssa.Value = v
		core.WithoutInlining(func() {
			for _, o := range append(core.Origins(v), v) {
				if p, ok := o.(*ssa.Parameter); ok && p.Parent() == h {
					for i, q := range h.Params {
						if q == p && i < len(site.Call.Args) {
							res = site.Call.Args[i]
						}
					}
				}
				// the message is produced by a callback the helper is handed (msg func() *Response): what the closure
				// passed at this site returns
				if pc, ok := o.(*ssa.Call); ok && !pc.Call.IsInvoke() && pc.Call.StaticCallee() == nil {
					if p, ok := pc.Call.Value.(*ssa.Parameter); ok && p.Parent() == h {
						for i, q := range h.Params {
							if q != p || i >= len(site.Call.Args) {
								continue
							}
							var cb *ssa.Function
							switch x := site.Call.Args[i].(type) {
							case *ssa.MakeClosure:
								cb, _ = x.Fn.(*ssa.Function)
							case *ssa.Function:
								cb = x
							}
							if cb == nil || cb.Blocks == nil {
								continue
							}
							for _, ret := range core.Returns(cb) {
								if len(ret.Results) == 1 {
									res = ret.Results[0]
								}
							}
						}
					}
				}
			}
		})
		return res
	}
	field := func(si sendInfo, name string) ssa.Value {
		return resolveAt(literalField(si.lit, name), si.site)
	}
	var sends []sendInfo
	for _, c := range core.Calls(run) {
		if k := core.CalleeKey(c); !strings.HasSuffix(k, "WatchDeviationsServer.Send") && k != "google.golang.org/grpc.ServerStreamingServer.Send" {
			continue
		}
		a := core.CallArgs(c)
		var sites []*ssa.Call
		// per call of the helper only when what is sent depends on what the helper is given; a phase function that builds
		// its messages itself is simply part of runDeviationUpdate
		dependsOnParam := false
		if c.Parent() != run && core.IsInlined(c.Parent()) {
			core.WithoutInlining(func() {
				isParam := func(v ssa.Value) bool {
					if v == nil {
						return false
					}
					for _, o := range append(core.Origins(v), v) {
						if p, ok := o.(*ssa.Parameter); ok && p.Parent() == c.Parent() {
							return true
						}
					}
					return false
				}
				if isParam(a[0]) {
					dependsOnParam = true
					return
				}
				for _, o := range append(core.Origins(a[0]), a[0]) {
					if al, ok := o.(*ssa.Alloc); ok {
						if isParam(literalField(al, "Event")) || isParam(literalField(al, "Reason")) {
							dependsOnParam = true
						}
					}
				}
			})
		}
		if dependsOnParam {
			for _, s := range core.InlineSites(c.Parent()) {
				if core.InBody(run, s.Parent()) {
					sites = append(sites, s)
				}
			}
		}
		if len(sites) == 0 {
			sites = []*ssa.Call{nil}
		}
		for _, site := range sites {
			msg := resolveAt(a[0], site)
			var lit *ssa.Alloc
			for _, o := range append(core.Origins(msg), msg) {
				if al, ok := o.(*ssa.Alloc); ok {
					lit = al
				}
			}
			si := sendInfo{call: c, send: c, site: site, lit: lit, event: -1, reason: -1}
			if site != nil {
				si.call = site
			}
			if v := field(si, "Event"); v != nil {
				if n, isC := core.ConstInt(v); isC {
					si.event = n
				}
			}
			if v := field(si, "Reason"); v != nil {
				if n, isC := core.ConstInt(v); isC {
					si.reason = n
				}
			}
			sends = append(sends, si)
		}
	}

	// ---- BRACKET
	r.Rule("BRACKET", 3, "a deviation cycle is bracketed: the loop that sends START is passed before any other stream send, and every path to a return passes the loop that sends END (dominance of the enclosing range instruction); every loop over the stream map serves EVERY stream: from each Send every path asks the range for the next stream again (a failed Send does not end the loop).")
	rangeOf := func(c ssa.CallInstruction) *ssa.Range {
		// the range whose Next supplies the stream the call sends on
		for _, o := range core.Origins(core.CallRecv(c)) {
			if n, ok := o.(*ssa.Next); ok {
				if rg, ok := n.Iter.(*ssa.Range); ok {
					return rg
				}
			}
		}
		return nil
	}
	// the instruction that stands for "the loop that sends this message to every stream": the range instruction, or
	// the call of the helper that contains the loop
	anchorOf := func(si sendInfo) ssa.Instruction {
		if si.site != nil {
			h := core.InlinedCallee(si.site)
			for _, c := range core.OwnCalls(h) {
				if k := core.CalleeKey(c); strings.HasSuffix(k, "WatchDeviationsServer.Send") || k == "google.golang.org/grpc.ServerStreamingServer.Send" {
					if rangeOf(c) != nil {
						return si.site
					}
				}
			}
			return nil
		}
		if rg := rangeOf(si.call); rg != nil {
			return rg
		}
		return nil
	}
	var startRg, endRg ssa.Instruction
	for _, s := range sends {
		if s.event == 1 {
			startRg = anchorOf(s)
		}
		if s.event == 2 {
			endRg = anchorOf(s)
		}
	}
	r.Check(startRg != nil && endRg != nil, "BRACKET", core.Site(run, "START and END are sent"), w.Pos(run.Pos()), "both brackets exist, each to every stream (range over the stream map)")
	if startRg != nil && endRg != nil {
		for _, s := range sends {
			if s.event == 1 {
				continue
			}
			r.Check(core.InstrBefore(startRg, s.call), "BRACKET", core.Site(run, "START before send event=%d reason=%d", s.event, s.reason), w.InstrPos(s.call), "nothing is reported before START")
		}
		for _, ret := range core.Returns(run) {
			r.Check(core.InstrBefore(endRg, ret), "BRACKET", core.Site(run, "END before return"), w.InstrPos(ret), "a cycle that was opened must be closed on every path, also when a store cannot be read")
		}
		for _, s := range sends {
			if s.event == 3 {
				r.Check(!core.CanFollow(endRg, s.call), "BRACKET", core.Site(run, "no report after END (reason=%d)", s.reason), w.InstrPos(s.call), "reports belong inside the bracket")
			}
		}
	}

	// every registered stream gets every message: a Send that fails does not end the loop over the streams (the Next
	// of the range that supplies the stream is passed again on every path from the Send, until the range is exhausted)
	servedSeen := map[ssa.CallInstruction]bool{}
	for _, s := range sends {
		rg := rangeOf(s.send)
		if rg == nil || servedSeen[s.send] {
			continue
		}
		servedSeen[s.send] = true
		ok, _ := core.AlwaysAfterIn(run, s.send, func(in ssa.Instruction) bool {
			n, isNext := in.(*ssa.Next)
			return isNext && n.Iter == ssa.Value(rg)
		})
		r.Check(ok, "BRACKET", core.Site(run, "every stream is served (event=%d reason=%d)", s.event, s.reason), w.InstrPos(s.send), "a path from this Send leaves the loop over the deviation streams without asking for the next stream: when one watcher's stream refuses the message, the watchers later in the map iteration miss it (START / report / END)")
	}

	// ---- LITERAL-COMPLETE
	r.Rule("LITERAL-COMPLETE", 4, "every deviation message names what the property requires: UNHANDLED carries Path and CurrentValue; NOT_APPLIED carries Intent, Path and ExpectedValue; OVERRULED carries Intent, Path, ExpectedValue and CurrentValue — each set from a non-constant value.")
	need := map[int64][]string{1: {"Path", "CurrentValue"}, 2: {"Intent", "Path", "ExpectedValue"}, 3: {"Intent", "Path", "ExpectedValue", "CurrentValue"}}
	names := map[int64]string{1: "UNHANDLED", 2: "NOT_APPLIED", 3: "OVERRULED"}
	nLit := map[int64]int{}
	for _, s := range sends {
		if s.event != 3 || s.lit == nil {
			continue
		}
		nLit[s.reason]++
		for _, fld := range need[s.reason] {
			v := field(s, fld)
			ok := v != nil && !core.IsNilConst(v)
			if _, isC := v.(*ssa.Const); isC {
				ok = false
			}
			r.Check(ok, "LITERAL-COMPLETE", core.Site(run, "%s#%d sets %s", names[s.reason], nLit[s.reason], fld), w.InstrPos(s.call), "the message must carry this field")
		}
	}

	// ---- ALL-PRIORITIES
	r.Rule("ALL-PRIORITIES", 1, "cache contract (sdcio/cache v0.0.35: Priority==0 returns the PriorityCount highest priorities only, Priority<0 all): the intended read whose result is sorted and whose tail [1:] is reported as OVERRULED must ask for all priorities; with Priority 0 / PriorityCount 0 only the ruling entry comes back and OVERRULED can never be reported.")
	for _, c := range core.CallsTo(run, "cache.Client.Read") {
		st, al := optsField(c, "Store")
		if al == nil {
			continue
		}
		if cst, ok := st.(*ssa.Const); !ok || cst.Int64() != 2 {
			continue
		}
		p, _ := optsField(c, "Priority")
		pc, _ := optsField(c, "PriorityCount")
		all := false
		if n, isC := core.ConstInt(p); isC && n < 0 {
			all = true
		}
		if n, isC := core.ConstInt(pc); isC && n > 1 {
			all = true
		}
		if p != nil {
			if _, isC := p.(*ssa.Const); !isC {
				all = true
			}
		}
		r.Check(all, "ALL-PRIORITIES", core.Site(run, "intended read for OVERRULED"), w.InstrPos(c), "only the ruling priority is read: lower-precedence intents are never compared, OVERRULED is unreachable")
	}

	// ---- SEEN-ALL
	r.Rule("SEEN-ALL", 1, "the walk over the running config records EVERY entry it receives in the set that the second walk (intended paths missing in running -> NOT_APPLIED) consults: no path from receiving an entry to receiving the next one avoids the store into that set. An entry that is skipped before the bookkeeping (an 'optimisation' for key leaves, state, defaults) is later reported as missing in running for every intent that defines it.")
	for _, b := range core.Blocks(run) {
		for _, in := range b.Instrs {
			mu, ok := in.(*ssa.MapUpdate)
			if !ok {
				continue
			}
			mt, isMap := mu.Map.Type().Underlying().(*types.Map)
			if !isMap {
				continue
			}
			if st, isSet := mt.Elem().Underlying().(*types.Struct); !isSet || st.NumFields() != 0 {
				continue // not a set
			}
			var recv ssa.Instruction
			for v := range core.DataSlice(run, []ssa.Value{mu.Key}).Values {
				if u, isU := v.(*ssa.UnOp); isU && u.Op == token.ARROW {
					recv = u
				}
			}
			if recv == nil {
				continue
			}
			skip, tr := core.PathQuery{Avoid: func(i ssa.Instruction) bool { return i == ssa.Instruction(mu) }}.Reaches(recv.Block(), core.InstrIndex(recv)+1, func(i ssa.Instruction) bool { return i == recv })
			r.Check(!skip, "SEEN-ALL", core.Site(run, "every running entry is recorded as seen"), w.InstrPos(mu), fmt.Sprintf("an entry of the running walk can be skipped before it is recorded (blocks %v): the second walk then reports it as missing in running", tr))
		}
	}

	// ---- OPERANDS
	r.Rule("OPERANDS", 3, "the comparisons behind the reports have the right operands: the test guarding NOT_APPLIED compares the ruling intent's value normalised by TypedValueToYANGType with the running value (upd.Value()); the test guarding OVERRULED compares the ruling intent's normalised value with the lower intent's normalised value (both from TypedValueToYANGType, of different entries); the reported values are those operands.")
	for _, s := range sends {
		if s.event != 3 || (s.reason != 2 && s.reason != 3) {
			continue
		}
		// the EqualTypedValues call guarding this send
		var eq *ssa.Call
		for _, g := range core.GuardsOf(s.call) {
			v, _ := core.StripNot(g.If.Cond)
			for _, oc := range core.OriginCalls(v) {
				if core.CalleeIs(oc, "utils.EqualTypedValues") {
					eq = oc
				}
			}
		}
		if eq == nil {
			if s.reason == 2 && nLit[2] > 1 {
				// the 'missing in running' NOT_APPLIED is not guarded by a comparison
				continue
			}
			r.Viol("OPERANDS", core.Site(run, "%s guarded by a value comparison", names[s.reason]), w.InstrPos(s.call), "the report is not conditional on the values differing")
			continue
		}
		a := core.CallArgs(eq)
		fromYANG := func(v ssa.Value) *ssa.Call {
			for _, oc := range core.OriginCalls(v) {
				if core.CalleeIs(oc, "utils.TypedValueToYANGType") {
					return oc
				}
			}
			return nil
		}
		fromRunning := func(v ssa.Value) bool {
			for _, oc := range core.OriginCalls(v) {
				if core.CalleeIs(oc, "cache.Update.Value") {
					return true
				}
			}
			return false
		}
		y0, y1 := fromYANG(a[0]), fromYANG(a[1])
		switch s.reason {
		case 2:
			ok := (y0 != nil && fromRunning(a[1]) && y1 == nil) || (y1 != nil && fromRunning(a[0]) && y0 == nil)
			r.Check(ok, "OPERANDS", core.Site(run, "NOT_APPLIED compares ruling intent with running"), w.InstrPos(eq), "operands must be (normalised ruling intent value, running value)")
		case 3:
			// two normalisations: two calls, or one helper that normalises, called for the ruling and for the lower intent
			ok := y0 != nil && y1 != nil && (y0 != y1 || differentHelperCalls(a[0], a[1]))
			r.Check(ok, "OPERANDS", core.Site(run, "OVERRULED compares ruling intent with lower intent"), w.InstrPos(eq), "operands must be the normalised values of the ruling and of the lower-precedence intent (not the running value)")
		}
	}
	// UNHANDLED is decided by a read of the intended store for that very path
	for _, s := range sends {
		if s.event != 3 || s.reason != 1 {
			continue
		}
		ok, detail := false, "no 'len(<intents of the path>) == 0' guard"
		for _, g := range core.GuardsOf(s.call) {
			a, b, eqOnTrue, isEq := core.EqTest(g.If.Cond)
			if !isEq || eqOnTrue != g.CondTrue() {
				continue
			}
			for _, pair := range [][2]ssa.Value{{a, b}, {b, a}} {
				z, isC := core.ConstInt(pair[1])
				lc, isCall := pair[0].(*ssa.Call)
				if !isC || z != 0 || !isCall {
					continue
				}
				if bi, isB := lc.Call.Value.(*ssa.Builtin); !isB || bi.Name() != "len" {
					continue
				}
				ok = true
				if core.MayBeZeroValue(lc.Call.Args[0]) {
					ok = false
					detail = "on some path the tested list is never assigned (the read is skipped)"
				}
				for _, o := range core.Origins(lc.Call.Args[0]) {
					oc, isCall := o.(*ssa.Call)
					if !isCall || !core.CalleeIs(oc, "cache.Client.Read") {
						ok = false
						detail = "the tested list is not always the result of a read of the intended store: " + o.String()
					}
				}
			}
		}
		r.Check(ok, "OPERANDS", core.Site(run, "UNHANDLED decided by a read of the intended store"), w.InstrPos(s.call), "a running path is unhandled iff the intended store holds nothing for it; "+detail)
	}
	ruleEqualLeaflist(w, r)
	r.Rule("EQUAL-LIKE-WITH-LIKE", 3, "utils.EqualTypedValues compares like with like: an == / != between the results of two argument-less getters of the same receiver type calls the same getter on both sides (identityref value / module / prefix, decimal64 digits / precision).")
	ruleSameGetter(w, r, "EQUAL-LIKE-WITH-LIKE")
	ruleLeafrefTarget(w, r)

	// ---- EQUAL-EXACT
	ruleTextVerbatim(w, r, "TEXT-VERBATIM")
	r.Rule("EQUAL-EXACT", 1, "the value comparison behind NOT_APPLIED / OVERRULED is exact: no function reachable from utils.EqualTypedValues (static calls inside the repository) converts a value number with loss (int64 -> float64, narrowing, sign change; rule table shared with C12.LOSSY). Comparing decimal64 values as floats makes numbers that differ in the 17th digit equal, so a real deviation is not reported.")
	if eq := w.Func("pkg/utils", "", "EqualTypedValues"); eq != nil {
		setWordBits(w)
		reach := w.CG().Reachable(func(e core.Edge) bool { return e.Kind != "static" }, eq)
		n, nf := 0, 0
		for f := range reach {
			if f.Blocks == nil || f.Pkg == nil || !strings.HasPrefix(core.PkgPath(f), core.Module) {
				continue
			}
			nf++
			for _, b := range f.Blocks {
				for _, in := range b.Instrs {
					cv, ok := in.(*ssa.Convert)
					if !ok {
						continue
					}
					lossy, why := lossyConvert(cv.X.Type(), cv.Type())
					if !lossy || numericValueSource(cv.X) == "" {
						continue
					}
					n++
					r.Viol("EQUAL-EXACT", core.Site(f, "convert %s -> %s", cv.X.Type(), cv.Type()), w.InstrPos(cv), "lossy conversion ("+why+") of a compared value")
				}
			}
		}
		if n == 0 {
			r.OK("EQUAL-EXACT", core.Site(eq, "no lossy conversion in the comparison"), w.Pos(eq.Pos()), fmt.Sprintf("%d functions analysed", nf))
		}
	}

	// no report hangs on a comparison of stored bytes: the stores keep values as sent (1.50 and 1.5, prefix or no
	// prefix), only EqualTypedValues after TypedValueToYANGType says whether two values are the same - and a
	// 'same bytes, nothing to do' shortcut also skips the OVERRULED reports of the intents below the ruling one
	{
		nb := 0
		for _, sdi := range sends {
			if sdi.event != 3 {
				continue
			}
			bad := false
			for _, cond := range core.ControlConds(sdi.send) {
				sl := core.DataSlice(sdi.send.Parent(), []ssa.Value{cond})
				if sl.HasCallTo("bytes.Equal", "bytes.Compare") && sl.HasCallTo("cache.Update.Bytes") {
					bad = true
				}
			}
			nb++
			r.Check(!bad, "EQUAL-EXACT", core.Site(run, "report not decided by raw bytes (reason=%d)", sdi.reason), w.InstrPos(sdi.send), "whether this report is sent depends on a byte comparison of stored values: equal values can differ in their stored bytes, and a shortcut for 'same bytes' skips the reports about the intents that do not rule")
		}
	}

	// ruling = lowest priority: the sort comparator orders by Priority ascending
	r.Rule("RULING-FIRST", 1, "the intents of a path are sorted by ascending priority (ties by timestamp) before element [0] is treated as the ruling one.")
	for _, a := range sortComparators(run) {
		if len(core.CallsTo(a, "cache.Update.Priority")) < 2 {
			continue
		}
		// return i.Priority() < j.Priority()
		ok := false
		for _, ret := range core.Returns(a) {
			for _, o := range core.Origins(ret.Results[0]) {
				if bo, isB := o.(*ssa.BinOp); isB && bo.Op.String() == "<" {
					px, py := core.OriginCalls(bo.X), core.OriginCalls(bo.Y)
					if len(px) == 1 && len(py) == 1 && core.CalleeIs(px[0], "cache.Update.Priority") && core.CalleeIs(py[0], "cache.Update.Priority") {
						// X indexes element i (first parameter), Y element j
						ok = indexParam(px[0], a) == 0 && indexParam(py[0], a) == 1
					}
				}
			}
		}
		r.Check(ok, "RULING-FIRST", core.Site(a, "ascending priority"), w.Pos(a.Pos()), "less(i,j) must be priority(i) < priority(j)")
	}
}

// indexParam: the receiver of call c is slice[<param k>] of closure a: returns k (or -1).
func indexParam(c *ssa.Call, a *ssa.Function) int {
	rv := core.CallRecv(c)
	for _, o := range append(core.Origins(rv), rv) {
		if u, ok := o.(*ssa.UnOp); ok {
			if ia, ok := u.X.(*ssa.IndexAddr); ok {
				// i and j are the last two parameters (a method used as comparator has its receiver first)
				np := len(a.Params)
				for k := 0; k < 2 && np >= 2; k++ {
					if ia.Index == ssa.Value(a.Params[np-2+k]) {
						return k
					}
				}
			}
		}
	}
	return -1
}

// sortComparators lists the functions handed as 'less' to sort.Slice / sort.SliceStable in the (inlined) body of fn:
// closures, named functions and method values alike.
func sortComparators(fn *ssa.Function) []*ssa.Function {
	var out []*ssa.Function
	seen := map[*ssa.Function]bool{}
	core.WithHost(fn, func() {
		for _, c := range core.CallsTo(fn, "sort.Slice", "sort.SliceStable") {
			args := core.CallArgs(c)
			if len(args) < 2 {
				continue
			}
			for _, o := range append(core.Origins(args[1]), args[1]) {
				var g *ssa.Function
				switch x := o.(type) {
				case *ssa.Function:
					g = x
				case *ssa.MakeClosure:
					g, _ = x.Fn.(*ssa.Function)
				}
				if g == nil {
					continue
				}
				if g.Synthetic != "" && len(g.Blocks) > 0 {
					// bound method wrapper: the comparator is the method it forwards to
					for _, cc := range core.OwnCalls(g) {
						if t := cc.Common().StaticCallee(); t != nil {
							g = t
						}
					}
				}
				if !seen[g] {
					seen[g] = true
					out = append(out, g)
				}
			}
		}
	})
	return out
}

// differentHelperCalls: a and b are (fields of) the results of two different calls of a virtually inlined helper.
func differentHelperCalls(a, b ssa.Value) bool {
	via := func(v ssa.Value) map[*ssa.Call]bool {
		out := map[*ssa.Call]bool{}
		seen := map[ssa.Value]bool{}
		var walk func(v ssa.Value, d int)
		walk = func(v ssa.Value, d int) {
			if v == nil || seen[v] || d > 8 {
				return
			}
			seen[v] = true
			switch x := v.(type) {
			case *ssa.Call:
				if core.InlinedCallee(x) != nil {
					out[x] = true
				}
			case *ssa.Extract:
				walk(x.Tuple, d+1)
			case *ssa.UnOp:
				walk(x.X, d+1)
			case *ssa.FieldAddr:
				walk(x.X, d+1)
			case *ssa.Field:
				walk(x.X, d+1)
			case *ssa.Phi:
				for _, e := range x.Edges {
					walk(e, d+1)
				}
			case *ssa.Alloc:
				for _, ref := range *x.Referrers() {
					if st, ok := ref.(*ssa.Store); ok && st.Addr == ssa.Value(x) {
						walk(st.Val, d+1)
					}
				}
			}
		}
		walk(v, 0)
		return out
	}
	sa, sb := via(a), via(b)
	if len(sa) == 0 || len(sb) == 0 {
		return false
	}
	for c := range sa {
		if sb[c] {
			return false
		}
	}
	return true
}

// appendedElems: the values call c (builtin append) adds: the elements stored into its variadic argument array, or
// the slice that is spread.
func appendedElems(c *ssa.Call) []ssa.Value {
	if len(c.Call.Args) < 2 {
		return nil
	}
	var out []ssa.Value
	if sl, ok := c.Call.Args[1].(*ssa.Slice); ok {
		if al, ok := sl.X.(*ssa.Alloc); ok {
			for _, ref := range *al.Referrers() {
				if ia, ok := ref.(*ssa.IndexAddr); ok {
					for _, r2 := range *ia.Referrers() {
						if st, ok := r2.(*ssa.Store); ok && st.Addr == ssa.Value(ia) {
							out = append(out, st.Val)
						}
					}
				}
			}
			return out
		}
	}
	return []ssa.Value{c.Call.Args[1]}
}

// elementSources: the collections whose elements value v is computed from (loads of coll[i], range values), looking
// through the arguments of the calls that compute v.
func elementSources(v ssa.Value, depth int) []ssa.Value {
	if depth > 3 {
		return nil
	}
	var out []ssa.Value
	for _, o := range append(core.Origins(v), v) {
		switch x := o.(type) {
		case *ssa.UnOp:
			if ia, ok := x.X.(*ssa.IndexAddr); ok {
				out = append(out, ia.X)
			}
		case *ssa.Index:
			out = append(out, x.X)
		case *ssa.Extract:
			if n, ok := x.Tuple.(*ssa.Next); ok {
				if rg, ok := n.Iter.(*ssa.Range); ok {
					out = append(out, rg.X)
				}
			}
		case *ssa.Call:
			if _, isB := x.Call.Value.(*ssa.Builtin); isB {
				continue
			}
			for _, a := range x.Call.Args {
				out = append(out, elementSources(a, depth+1)...)
			}
		}
	}
	return out
}
