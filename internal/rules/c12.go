package rules

import (
	"fmt"
	"go/token"
	"go/types"
	"sort"
	"strings"

	"golang.org/x/tools/go/ssa"

	"verif/internal/core"
)

func init() { Registry["C12"] = c12 }

// oneofVariants lists the concrete types of a protobuf oneof: struct types of pkg whose
// pointer method set contains the unexported marker method.
func oneofVariants(w *core.World, pkgPath, marker string) []string {
	p := w.SSAPkgs[pkgPath]
	if p == nil {
		w.NoteUnresolved("package " + pkgPath)
		return nil
	}
	var out []string
	for name, m := range p.Members {
		t, ok := m.(*ssa.Type)
		if !ok {
			continue
		}
		ms := w.Prog.MethodSets.MethodSet(types.NewPointer(t.Type()))
		for i := 0; i < ms.Len(); i++ {
			if ms.At(i).Obj().Name() == marker {
				out = append(out, name)
			}
		}
	}
	sort.Strings(out)
	return out
}

// typeSwitchCases returns the concrete types asserted (how often) from values of the given oneof interface in fn.
func typeSwitchCases(fn *ssa.Function, ifaceSuffix string) map[string]int {
	out := map[string]int{}
	for _, b := range core.Blocks(fn) {
		for _, in := range b.Instrs {
			ta, ok := in.(*ssa.TypeAssert)
			if !ok || !strings.HasSuffix(ta.X.Type().String(), ifaceSuffix) {
				continue
			}
			n := ta.AssertedType.String()
			if i := strings.LastIndex(n, "."); i >= 0 {
				n = n[i+1:]
			}
			out[n]++
		}
	}
	return out
}

// noMatchPreserves: on the path of fn where no case of the type switch over the oneof matches (the failure edge of
// every type assertion on it), every return hands back the very value the function was given (its first parameter of
// the result's type) and a nil error: a kind without a case passes through unchanged.
func noMatchPreserves(fn *ssa.Function, ifaceSuffix string) bool {
	isAssertIf := func(b *ssa.BasicBlock) bool {
		if len(b.Instrs) == 0 {
			return false
		}
		iff, ok := b.Instrs[len(b.Instrs)-1].(*ssa.If)
		if !ok {
			return false
		}
		ex, ok := iff.Cond.(*ssa.Extract)
		if !ok || ex.Index != 1 {
			return false
		}
		ta, ok := ex.Tuple.(*ssa.TypeAssert)
		return ok && strings.HasSuffix(ta.X.Type().String(), ifaceSuffix)
	}
	n, okAll := 0, true
	for _, ret := range core.EffectiveReturns(fn) {
		reach, _ := core.PathQuery{SkipEdge: func(b *ssa.BasicBlock, succ int) bool { return succ == 0 && isAssertIf(b) }}.Reaches(fn.Blocks[0], 0, func(in ssa.Instruction) bool { return in == ssa.Instruction(ret) })
		if !reach {
			continue
		}
		// a return that is guarded by a successful assertion is not on the no-match path
		matched := false
		for _, g := range core.GuardsOf(ret) {
			if g.CondTrue() && isAssertIf(g.If.Block()) {
				matched = true
			}
		}
		if matched {
			continue
		}
		n++
		vals := core.ReturnValues(ret)
		if len(vals) == 0 {
			okAll = false
			continue
		}
		same := false
		core.WithHost(fn, func() {
			os := core.Origins(vals[0])
			if len(os) == 1 {
				if p, isP := os[0].(*ssa.Parameter); isP && p.Parent() == fn && types.Identical(p.Type(), vals[0].Type()) {
					same = true
				}
			}
		})
		if !same {
			okAll = false
		}
		for _, v := range vals[1:] {
			if isErrorType(v.Type()) && !core.IsNilConst(v) {
				okAll = false
			}
		}
	}
	return n > 0 && okAll
}

type converterSpec struct {
	Pkg, Recv, Name string
	Iface           string            // oneof interface suffix
	Missing         map[string]string // variant (without TypedValue_) -> reason it may be absent (policy of the no-match path, confirmed by reading)
	Delegate        string            // callee key the no-match path must hand the value to ("" = none)
	Twice           bool              // every variant must be asserted at both levels (EqualTypedValues)
}

var sdcpbIface = "sdcpb.isTypedValue_Value"
var gnmiIface = "gnmi.isTypedValue_Value"

var converters = []converterSpec{
	{"pkg/utils", "", "TypedValueToString", sdcpbIface, nil, "", false},
	{"pkg/utils", "", "GetSchemaValue", sdcpbIface, nil, "", false},
	{"pkg/utils", "", "EqualTypedValues", sdcpbIface, nil, "", true},
	{"pkg/utils", "", "ToGNMITypedValue", sdcpbIface, nil, "", false},
	{"pkg/utils", "", "TypedValueToYANGType", sdcpbIface, map[string]string{
		"EmptyVal": "no-match path returns the input unchanged (preserves)", "IdentityrefVal": "no-match path returns the input unchanged (preserves)"}, "", false},
	{"pkg/utils", "", "GetJsonValue", sdcpbIface, map[string]string{"*": "every other kind is delegated to GetSchemaValue, which is exhaustive"}, "utils.GetSchemaValue", false},
	{"pkg/utils", "", "TypedValueToXML", sdcpbIface, map[string]string{"*": "every other kind is rendered through TypedValueToString, which is exhaustive"}, "utils.TypedValueToString", false},
	{"pkg/tree", "yangParserEntryAdapter", "valueToDatum", sdcpbIface, map[string]string{"*": "every other kind is handed to the XPath evaluator as its string form (TypedValueToString, exhaustive)"}, "utils.TypedValueToString", false},
	{"pkg/datastore/target/netconf", "", "valueAsString", sdcpbIface, map[string]string{
		"DoubleVal": "no-match path returns an error (rejects)", "IdentityrefVal": "no-match path returns an error (rejects)"}, "", false},
	{"pkg/utils", "", "FromGNMITypedValue", gnmiIface, nil, "", false},
	{"pkg/utils", "", "GetValue", gnmiIface, map[string]string{"DoubleVal": "n/a"}, "", false},
}

// minimum cases for the delegating converters (kinds that need a rendering of their own)
var mustHandle = map[string][]string{
	"GetJsonValue":    {"EmptyVal", "LeaflistVal", "IdentityrefVal", "DecimalVal"},
	"TypedValueToXML": {"EmptyVal", "LeaflistVal", "IdentityrefVal"},
	"valueToDatum":    {"BoolVal", "UintVal", "IntVal", "DecimalVal", "DoubleVal", "FloatVal", "LeaflistVal", "EmptyVal", "IdentityrefVal"},
}

// recursive leaf-list handling: these converters must convert leaf-list elements by calling themselves
var leaflistRecursive = []struct{ Pkg, Recv, Name string }{
	{"pkg/utils", "", "TypedValueToString"},
	{"pkg/utils", "", "GetJsonValue"},
	{"pkg/utils", "", "ToGNMITypedValue"},
	{"pkg/utils", "", "FromGNMITypedValue"},
	{"pkg/utils", "", "EqualTypedValues"},
	{"pkg/utils", "", "TypedValueToXML"},
	{"pkg/tree", "yangParserEntryAdapter", "valueToDatum"},
	{"pkg/datastore/target/netconf", "", "valueAsString"},
}

// yang built-in types (RFC 7950 4.2.4)
var yangTypes = []string{"binary", "bits", "boolean", "decimal64", "empty", "enumeration", "identityref", "instance-identifier", "int8", "int16", "int32", "int64", "leafref", "string", "uint8", "uint16", "uint32", "uint64", "union"}

type typeSwitchSpec struct {
	Pkg, Recv, Name string
	Missing         map[string]string
}

var typeNameSwitches = []typeSwitchSpec{
	{"pkg/utils", "", "Convert", map[string]string{"bits": "falls to the no-match path: carried as string (preserves)"}},
	{"pkg/utils", "", "convertStringToTv", map[string]string{"bits": "no-match path carries the value as string (preserves)", "binary": "same", "instance-identifier": "same"}},
	{"pkg/utils", "", "ConvertJsonValueToTv", map[string]string{"binary": "no-match path returns an error (rejects)", "instance-identifier": "rejects"}},
}

// string switch cases of fn: constants compared (==) with the switched string value
func stringSwitchConsts(fn *ssa.Function) map[string]bool {
	out := map[string]bool{}
	for _, b := range core.Blocks(fn) {
		for _, in := range b.Instrs {
			bo, ok := in.(*ssa.BinOp)
			if !ok || bo.Op != token.EQL {
				continue
			}
			for _, op := range []ssa.Value{bo.X, bo.Y} {
				if s, isC := core.ConstString(op); isC {
					out[s] = true
				}
			}
		}
	}
	return out
}

var jsonNumberExceptions = map[string]string{
	"utils.ConvertJsonValueToTv": "decimal64 branch for callers that decoded without UseNumber: the only such caller is the JSON tree importer, which nothing but the tests constructs (NewJsonTreeImporter has no non-test caller); requests are decoded with UseNumber (ExpandUpdate) and arrive as json.Number",
}

var lossyExceptions = map[string]string{
	"tree.yangParserEntryAdapter.valueToDatum|uint64->float64": "XPath 1.0 numbers are doubles by definition",
	"tree.yangParserEntryAdapter.valueToDatum|int64->float64":  "XPath 1.0 numbers are doubles by definition",
	"utils.ConvertJsonValueToTv|float64->uint64":               "only after the value was checked to be integral and within range on the same path",
	"utils.ConvertJsonValueToTv|float64->int64":                "only after the value was checked to be integral and within range on the same path",
	"tree.sharedEntryAttributes.validateRange|uint64->int64":   "range bound of a signed type: the schema number carries magnitude and sign separately (Negative flag applied right after)",
	"utils.ConvertSdcpbNumberToInt64|uint64->int64":            "guarded by the MaxInt64 test on the same path",
	"datastore.Datastore.listRawIntent|int->int32":             "the number was rendered from an int32 priority by rawIntentName",
}

func basicKind(t types.Type) (types.BasicKind, bool) {
	b, ok := t.Underlying().(*types.Basic)
	if !ok {
		return 0, false
	}
	return b.Kind(), true
}

// wordBits is the width of int/uint/uintptr of the analysed build (32 when the tree is loaded with GOARCH=386).
var wordBits = 64

func setWordBits(w *core.World) {
	wordBits = 64
	switch w.Opts.GOARCH {
	case "386", "arm", "mips", "mipsle", "wasm32":
		wordBits = 32
	}
}

func intBits(k types.BasicKind) (bits int, signed, isInt bool) {
	switch k {
	case types.Int8:
		return 8, true, true
	case types.Int16:
		return 16, true, true
	case types.Int32:
		return 32, true, true
	case types.Int64:
		return 64, true, true
	case types.Int:
		return wordBits, true, true
	case types.Uint8:
		return 8, false, true
	case types.Uint16:
		return 16, false, true
	case types.Uint32:
		return 32, false, true
	case types.Uint, types.Uintptr:
		return wordBits, false, true
	case types.Uint64:
		return 64, false, true
	}
	return 0, false, false
}

// lossyConvert: can the conversion from -> to lose information for some value?
func lossyConvert(from, to types.Type) (bool, string) {
	fk, ok1 := basicKind(from)
	tk, ok2 := basicKind(to)
	if !ok1 || !ok2 {
		return false, ""
	}
	fb, fs, fi := intBits(fk)
	tb, ts, ti := intBits(tk)
	isFloat := func(k types.BasicKind) bool { return k == types.Float32 || k == types.Float64 }
	switch {
	case fi && ti:
		if tb < fb {
			return true, "narrowing"
		}
		if fs != ts && tb <= fb {
			return true, "sign change"
		}
		if !fs && ts && tb == fb {
			return true, "unsigned to signed of the same width"
		}
	case isFloat(fk) && ti:
		return true, "float to integer"
	case fi && isFloat(tk):
		if fb > 32 || (tk == types.Float32 && fb > 16) {
			return true, "integer to float loses precision above 2^53"
		}
	case fk == types.Float64 && tk == types.Float32:
		return true, "float64 to float32"
	}
	return false, ""
}

// valueSource: does v originate from a TypedValue numeric getter, a schema numeric getter or a strconv parse?
func numericValueSource(v ssa.Value) string {
	for _, o := range append(core.Origins(v), v) {
		c, ok := o.(*ssa.Call)
		if !ok {
			continue
		}
		k := core.CalleeKey(c)
		switch {
		case strings.HasPrefix(k, "github.com/sdcio/sdc-protos/sdcpb.TypedValue.Get") && (strings.HasSuffix(k, "IntVal") || strings.HasSuffix(k, "UintVal") || strings.HasSuffix(k, "FloatVal") || strings.HasSuffix(k, "DoubleVal")):
			return k
		case strings.HasPrefix(k, "github.com/sdcio/sdc-protos/sdcpb.Decimal64.Get"):
			return k
		case strings.HasPrefix(k, "github.com/openconfig/gnmi/proto/gnmi.TypedValue.Get") && (strings.HasSuffix(k, "IntVal") || strings.HasSuffix(k, "UintVal") || strings.HasSuffix(k, "FloatVal") || strings.HasSuffix(k, "DoubleVal")):
			return k
		case strings.HasPrefix(k, "github.com/sdcio/sdc-protos/sdcpb.") && (strings.HasSuffix(k, "GetMaxElements") || strings.HasSuffix(k, "GetMinElements") || strings.HasSuffix(k, ".GetValue") && strings.Contains(k, "Number")):
			return k
		case k == "strconv.ParseInt" || k == "strconv.ParseUint" || k == "strconv.Atoi" || k == "strconv.ParseFloat":
			return k
		}
		// field loads of schema numbers (r.Min.Value)
	}
	if fk := core.FieldOf(v); strings.HasPrefix(fk, "github.com/sdcio/sdc-protos/sdcpb.") && (strings.HasSuffix(fk, ".Value") || strings.HasSuffix(fk, "Elements") || strings.HasSuffix(fk, "Digits") || strings.HasSuffix(fk, "Precision")) {
		return "field " + fk
	}
	return ""
}

func c12(w *core.World, r *core.Report) {
	setWordBits(w)
	sdVars := oneofVariants(w, "github.com/sdcio/sdc-protos/sdcpb", "isTypedValue_Value")
	gnVars := oneofVariants(w, "github.com/openconfig/gnmi/proto/gnmi", "isTypedValue_Value")
	r.Extra["sdcpb_typedvalue_variants"] = sdVars
	r.Extra["gnmi_typedvalue_variants"] = gnVars

	// ---- ONEOF
	r.Rule("ONEOF", 90, "exhaustiveness of every converter over the TypedValue oneof (variant list enumerated from the sdcpb / gnmi packages on every run, so a protos upgrade that adds a kind is noticed): each variant is a case of the type switch, or is listed for that converter with the policy of its no-match path (preserves / rejects / delegates to an exhaustive converter, whose call is verified); a variant that would be dropped is a violation. EqualTypedValues must assert every variant at both levels.")
	for _, cs := range converters {
		f := w.Func(cs.Pkg, cs.Recv, cs.Name)
		if f == nil {
			continue
		}
		vars := sdVars
		if cs.Iface == gnmiIface {
			vars = gnVars
		}
		cases := typeSwitchCases(f, cs.Iface)
		preserves := noMatchPreserves(f, cs.Iface)
		for _, v := range vars {
			short := strings.TrimPrefix(v, "TypedValue_")
			site := core.Site(f, "variant %s", short)
			n := cases[v]
			need := 1
			if cs.Twice {
				need = 2
			}
			if n >= need {
				r.OK("ONEOF", site, w.Pos(f.Pos()), "handled")
				continue
			}
			if reason, ok := cs.Missing[short]; ok {
				if strings.Contains(reason, "(preserves)") {
					// the stated policy is checked, not believed
					r.Check(preserves, "ONEOF", site, w.Pos(f.Pos()), "not a case; the no-match path must return the input unchanged")
				} else {
					r.OK("ONEOF", site, w.Pos(f.Pos()), "not a case: "+reason)
				}
				continue
			}
			if _, listed := cs.Missing["EmptyVal"]; listed && preserves && strings.Contains(cs.Missing["EmptyVal"], "(preserves)") {
				// a converter whose policy for kinds without a case is "hand the input back": any kind may lack a case
				r.OK("ONEOF", site, w.Pos(f.Pos()), "not a case: the no-match path returns the input unchanged (verified on the CFG)")
				continue
			}
			if reason, ok := cs.Missing["*"]; ok {
				must := false
				for _, m := range mustHandle[cs.Name] {
					if m == short {
						must = true
					}
				}
				if !must {
					r.OK("ONEOF", site, w.Pos(f.Pos()), "not a case: "+reason)
					continue
				}
			}
			r.Viol("ONEOF", site, w.Pos(f.Pos()), "variant is not handled and the no-match path drops it (returns nil / a zero value / true)")
		}
		if cs.Delegate != "" {
			r.Check(len(core.CallsTo(f, cs.Delegate)) > 0, "ONEOF", core.Site(f, "delegates to %s", cs.Delegate), w.Pos(f.Pos()), "the no-match path must hand the value to the exhaustive converter")
		}
	}
	// EqualTypedValues: a constant-true answer is acceptable only where there is nothing to compare:
	// both operands found nil, the EmptyVal case, or the end of the element loop of the LeaflistVal case.
	if f := w.Func("pkg/utils", "", "EqualTypedValues"); f != nil {
		for _, ret := range core.Returns(f) {
			if len(ret.Results) != 1 {
				continue
			}
			b, isC := core.ConstBool(ret.Results[0])
			if !isC || !b {
				continue
			}
			ok := false
			for _, g := range core.GuardsOf(ret) {
				if _, nilOnTrue, isNil := core.NilTest(g.If.Cond); isNil && nilOnTrue == g.CondTrue() {
					ok = true // on the outcome where the tested operand IS nil
				}
				if !g.CondTrue() {
					continue
				}
				for _, o := range append(core.Origins(g.If.Cond), g.If.Cond) {
					if ex, isEx := o.(*ssa.Extract); isEx {
						if ta, isTA := ex.Tuple.(*ssa.TypeAssert); isTA {
							n := ta.AssertedType.String()
							if strings.HasSuffix(n, "TypedValue_EmptyVal") || strings.HasSuffix(n, "TypedValue_LeaflistVal") {
								ok = true
							}
						}
					}
				}
			}
			r.Check(ok, "ONEOF", core.Site(f, "no unconditional true"), w.InstrPos(ret), "'return true' without comparing anything: values of that kind (or of a kind without a case) always compare equal")
		}
	}

	ruleEqualLeaflist(w, r)
	r.Rule("EQUAL-LIKE-WITH-LIKE", 3, "utils.EqualTypedValues compares like with like: an == / != between the results of two argument-less getters of the same receiver type calls the same getter on both sides (identityref value / module / prefix, decimal64 digits / precision).")
	ruleSameGetter(w, r, "EQUAL-LIKE-WITH-LIKE")

	// ---- CASE-GETTER
	r.Rule("CASE-GETTER", 40, "inside 'case *T_XVal' every getter called on the switched TypedValue is GetXVal (a getter of another kind returns the zero value). Checked for every getter call in pkg/utils, pkg/tree and the netconf package that is guarded by a type assertion of the same value's oneof field.")
	for _, f := range w.RepoFns {
		if f.Pkg == nil {
			continue
		}
		pp := core.PkgPath(f)
		if !(pp == core.Module+"/pkg/utils" || pp == core.Module+"/pkg/tree" || pp == core.Module+"/pkg/datastore/target/netconf" || pp == core.Module+"/pkg/datastore") {
			continue
		}
		for _, c := range core.OwnCalls(f) {
			k := core.CalleeKey(c)
			var kind string
			for _, pre := range []string{"github.com/sdcio/sdc-protos/sdcpb.TypedValue.Get", "github.com/openconfig/gnmi/proto/gnmi.TypedValue.Get"} {
				if strings.HasPrefix(k, pre) {
					kind = strings.TrimPrefix(k, pre)
				}
			}
			if kind == "" || kind == "Value" || kind == "Timestamp" {
				continue
			}
			recv := core.CallRecv(c)
			for _, g := range core.GuardsOf(c) {
				if !g.CondTrue() {
					continue
				}
				for _, o := range append(core.Origins(g.If.Cond), g.If.Cond) {
					ex, ok := o.(*ssa.Extract)
					if !ok {
						continue
					}
					ta, ok := ex.Tuple.(*ssa.TypeAssert)
					if !ok {
						continue
					}
					// the asserted value must be recv.Value / recv.GetValue()
					same := false
					for _, oo := range append(core.Origins(ta.X), ta.X) {
						if core.FieldOf(oo) != "" && core.SameObject(core.FieldBase(oo), recv) {
							same = true
						}
						if cc, ok := oo.(*ssa.Call); ok && strings.HasSuffix(core.CalleeKey(cc), "TypedValue.GetValue") && core.SameObject(core.CallRecv(cc), recv) {
							same = true
						}
					}
					if !same {
						continue
					}
					n := ta.AssertedType.String()
					if i := strings.LastIndex(n, "TypedValue_"); i >= 0 {
						n = n[i+len("TypedValue_"):]
					}
					r.Check(n == kind, "CASE-GETTER", core.Site(f, "case %s calls Get%s", n, kind), w.InstrPos(c), "getter of a different kind than the case: always the zero value")
				}
			}
		}
	}

	// ---- LEAFLIST-RECURSE
	r.Rule("LEAFLIST-RECURSE", 8, "every converter with a LeaflistVal case converts the elements by calling ITSELF inside the element loop (sibling agreement between leaf and leaf-list-element rendering): an element must get exactly the rendering a leaf of that kind gets.")
	ruleLeaflistRecurse(w, r, "LEAFLIST-RECURSE", nil)

	// ---- LOSSY
	r.Rule("LOSSY", 5, "no lossy numeric conversion (narrowing, sign change, float<->integer, 64-bit integer -> float) on a value that comes from a TypedValue numeric getter, a schema number or a strconv parse, in pkg/utils, pkg/tree, pkg/datastore and the netconf package; conversions whose source is bounded on the path (frozen, reasoned exceptions per function) are listed. Decides: no silent truncation / sign flip of values and schema bounds.")
	ruleLossy(w, r, "LOSSY")

	// ---- TEXT-VERBATIM
	ruleTextVerbatim(w, r, "TEXT-VERBATIM")

	// ---- JSON-NUMBER
	r.Rule("JSON-NUMBER", 0, "a number taken out of decoded JSON as a float64 (type assertion / type switch on an 'any' value) is not rendered back into text (strconv.FormatFloat, fmt.Sprint*): encoding/json decodes every number into a float64 unless the decoder was told UseNumber(), so 64-bit integers above 2^53 and 18-digit decimal64 values are rounded on the way. Frozen exceptions per function.")
	for _, f := range w.RepoFns {
		if f.Pkg == nil {
			continue
		}
		if pp := core.PkgPath(f); pp != core.Module+"/pkg/utils" && pp != core.Module+"/pkg/datastore" && pp != core.Module+"/pkg/tree" {
			continue
		}
		for _, b := range f.Blocks {
			for _, in := range b.Instrs {
				ta, ok := in.(*ssa.TypeAssert)
				if !ok {
					continue
				}
				if bt, isB := ta.AssertedType.Underlying().(*types.Basic); !isB || bt.Kind() != types.Float64 {
					continue
				}
				if it, isI := ta.X.Type().Underlying().(*types.Interface); !isI || it.NumMethods() != 0 {
					continue
				}
				// the float64 value (directly, or the first component of the comma-ok form)
				var vals []ssa.Value
				if ta.CommaOk {
					for _, ref := range *ta.Referrers() {
						if ex, ok := ref.(*ssa.Extract); ok && ex.Index == 0 {
							vals = append(vals, ex)
						}
					}
				} else {
					vals = append(vals, ta)
				}
				for _, v := range vals {
					for _, ref := range *v.Referrers() {
						c, isCall := ref.(*ssa.Call)
						if !isCall {
							if mi, isMI := ref.(*ssa.MakeInterface); isMI {
								// handed to fmt as an argument
								for _, r2 := range *mi.Referrers() {
									_ = r2
								}
							}
							continue
						}
						if core.CalleeIs(c, "strconv.FormatFloat") {
							if reason, ok := jsonNumberExceptions[core.HostKey(f)]; ok {
								r.Info("JSON-NUMBER", core.Site(f, "float64 from decoded JSON rendered as text"), w.InstrPos(c), "frozen exception: "+reason)
								continue
							}
							r.Viol("JSON-NUMBER", core.Site(f, "float64 from decoded JSON rendered as text"), w.InstrPos(c), "a JSON number that went through float64 is turned back into text: integers above 2^53 and long decimals are rounded (decode with UseNumber and keep the literal)")
						}
					}
				}
			}
		}
	}

	// ---- PARSE-BASE-10
	r.Rule("PARSE-BASE-10", 10, "YANG integer text is decimal (RFC 7950 9.2.1 lexical representation; the canonical form has no leading zeros but the lexical form allows them): every strconv.ParseInt / ParseUint of pkg/utils and pkg/datastore that turns value text into a number passes the constant base 10. A base taken from the text (0, or a helper that looks at a leading 0 / 0x) reads \"010\" as 8 and rejects \"09\".")
	for _, f := range w.RepoFns {
		if f.Pkg == nil {
			continue
		}
		if pp := core.PkgPath(f); pp != core.Module+"/pkg/utils" && pp != core.Module+"/pkg/datastore" {
			continue
		}
		for _, c := range core.OwnCalls(f) {
			if !core.CalleeIs(c, "strconv.ParseInt", "strconv.ParseUint") || len(c.Common().Args) != 3 {
				continue
			}
			n, isC := core.ConstInt(c.Common().Args[1])
			r.Check(isC && n == 10, "PARSE-BASE-10", core.Site(f, "%s base", core.CalleeKey(c)), w.InstrPos(c), "the base of the parse is not the constant 10: the same text then denotes different numbers on different paths (Convert vs convertStringToTv) and decimal text with a leading zero is misread")
		}
	}

	// ---- DECODE-USENUMBER
	r.Rule("DECODE-USENUMBER", 1, "the JSON document of a container value that is handed to Converter.ExpandContainerValue (which renders every scalar with fmt and parses it by schema type) is decoded by a json.Decoder on which UseNumber() was called before Decode: with plain json.Unmarshal / Decode every number is a float64 first, integers above 2^53 are rounded and %v prints 1e+06 for a million.")
	if ecv := w.Func("pkg/utils", "Converter", "ExpandContainerValue"); ecv != nil {
		for _, f := range w.RepoFns {
			if f.Pkg == nil || f == ecv || core.InBody(ecv, f) {
				continue
			}
			for _, c := range core.OwnCalls(f) {
				if c.Common().StaticCallee() != ecv {
					continue
				}
				args := core.CallArgs(c)
				if len(args) < 3 {
					continue
				}
				core.WithHost(f, func() {
					for _, o := range core.Origins(args[2]) {
						ld, ok := o.(*ssa.UnOp)
						if !ok {
							continue
						}
						al, ok := ld.X.(*ssa.Alloc)
						if !ok {
							continue
						}
						// who fills the variable: json.Unmarshal(b, &v) / dec.Decode(&v)
						for _, ref := range *al.Referrers() {
							mi, ok := ref.(*ssa.MakeInterface)
							if !ok {
								continue
							}
							for _, r2 := range *mi.Referrers() {
								dc, ok := r2.(*ssa.Call)
								if !ok {
									continue
								}
								site := core.Site(f, "document for ExpandContainerValue decoded with UseNumber")
								switch {
								case core.CalleeIs(dc, "encoding/json.Unmarshal"):
									r.Viol("DECODE-USENUMBER", site, w.InstrPos(dc), "json.Unmarshal decodes every number of the document into a float64: 64-bit integers above 2^53 and long decimal64 values are altered before they are parsed by schema type")
								case core.CalleeIs(dc, "encoding/json.Decoder.Decode"):
									okNum := false
									for _, un := range core.CallsTo(dc.Parent(), "encoding/json.Decoder.UseNumber") {
										if core.SameObject(core.CallRecv(un), core.CallRecv(dc)) && core.InstrBefore(un, dc) {
											okNum = true
										}
									}
									r.Check(okNum, "DECODE-USENUMBER", site, w.InstrPos(dc), "the decoder must be told UseNumber() before Decode on every path: otherwise numbers become float64")
								}
							}
						}
					}
				})
			}
		}
	}

	// ---- LEAFREF-TARGET (shared with C15)
	ruleLeafrefTarget(w, r)

	// ---- DECIMAL-AGREE
	r.Rule("DECIMAL-AGREE", 3, "every string -> decimal64 conversion goes through utils.ParseDecimal64 (sibling agreement): convertStringToTv, ConvertJsonValueToTv (through ConvertDecimal64), ConvertTypedValueToYANGType, ConvertDecimal64; no function of pkg/utils builds an sdcpb.Decimal64 literal from pieces of a split string elsewhere.")
	for _, f := range w.RepoFns {
		if f.Pkg == nil || core.PkgPath(f) != core.Module+"/pkg/utils" {
			continue
		}
		// composite literal of Decimal64: Alloc of sdcpb.Decimal64 with Digits store
		for _, b := range f.Blocks {
			for _, in := range b.Instrs {
				al, ok := in.(*ssa.Alloc)
				if !ok || core.TypeKey(al.Type()) != "github.com/sdcio/sdc-protos/sdcpb.Decimal64" {
					continue
				}
				fk := core.FuncKey(f)
				allowed := fk == "utils.ParseDecimal64" || fk == "utils.FromGNMITypedValue" || fk == "utils.ToGNMITypedValue"
				r.Check(allowed, "DECIMAL-AGREE", core.Site(f, "builds a Decimal64"), w.InstrPos(al), "decimal64 values are built from strings only by ParseDecimal64")
			}
		}
	}
	for _, n := range []string{"convertStringToTv", "ConvertDecimal64", "ConvertTypedValueToYANGType"} {
		f := w.Func("pkg/utils", "", n)
		if f != nil {
			r.Check(len(core.CallsTo(f, "utils.ParseDecimal64")) > 0, "DECIMAL-AGREE", core.Site(f, "uses ParseDecimal64"), w.Pos(f.Pos()), "must parse decimal64 with the one parser")
		}
	}

	// ---- DEVICE-TYPED
	r.Rule("DEVICE-TYPED", 2, "every TypedValue the NETCONF adapter builds from device XML text (fields and leaf-list elements) is produced by utils.Convert with the schema type of the node; no StringVal literal is built from element text.")
	if p := w.Pkg("pkg/datastore/target/netconf"); p != nil {
		for _, n := range []string{"transformField", "transformLeafList"} {
			f := w.Func("pkg/datastore/target/netconf", "XML2sdcpbConfigAdapter", n)
			if f == nil {
				continue
			}
			conv := len(core.CallsTo(f, "utils.Convert", "datastore/target/netconf.StringElementToTypedValue")) > 0
			lit := false
			for _, b := range core.Blocks(f) {
				for _, in := range b.Instrs {
					if al, ok := in.(*ssa.Alloc); ok && strings.HasPrefix(core.TypeKey(al.Type()), "github.com/sdcio/sdc-protos/sdcpb.TypedValue_") {
						lit = true
					}
				}
			}
			r.Check(conv && !lit, "DEVICE-TYPED", core.Site(f, "typed through utils.Convert"), w.Pos(f.Pos()), "device text must be converted with the node's schema type")
		}
	}
	_ = fmt.Sprintf
}

func shortSrc(s string) string {
	if i := strings.LastIndex(s, "/"); i >= 0 {
		return s[i+1:]
	}
	return s
}

// bounded: the converted value is the result of ParseInt/ParseUint(..., bits) with bits <= width of the destination and matching signedness.
func bounded(cv *ssa.Convert) bool {
	tk, ok := basicKind(cv.Type())
	if !ok {
		return false
	}
	if tk == types.Float32 {
		for _, o := range core.Origins(cv.X) {
			c, ok := o.(*ssa.Call)
			if !ok || core.CalleeKey(c) != "strconv.ParseFloat" {
				return false
			}
			args := core.CallArgs(c)
			if bits, isC := core.ConstInt(args[len(args)-1]); !isC || bits != 32 {
				return false
			}
		}
		return true
	}
	tb, ts, ti := intBits(tk)
	if !ti {
		return false
	}
	for _, o := range core.Origins(cv.X) {
		c, ok := o.(*ssa.Call)
		if !ok {
			return false
		}
		k := core.CalleeKey(c)
		if k != "strconv.ParseInt" && k != "strconv.ParseUint" {
			return false
		}
		args := core.CallArgs(c)
		if len(args) != 3 {
			return false
		}
		bits, isC := core.ConstInt(args[2])
		if !isC || int(bits) > tb || bits == 0 {
			return false
		}
		if (k == "strconv.ParseInt") != ts {
			return false
		}
	}
	return true
}

// ruleEqualLeaflist (C12, C15): leaf-list equality compares the lengths of both element lists and every pair of elements.
func ruleEqualLeaflist(w *core.World, r *core.Report) {
	r.Rule("EQUAL-LEAFLIST", 2, "utils.EqualTypedValues on two leaf-lists depends on the length of BOTH element lists (a length mismatch is inequality; a prefix is not equal) and compares the elements pairwise by calling itself.")
	f := w.Func("pkg/utils", "", "EqualTypedValues")
	if f == nil {
		return
	}
	sl := core.ReturnSlice(f, -1)
	nLen := 0
	for v := range sl.Values {
		c, ok := v.(*ssa.Call)
		if !ok {
			continue
		}
		if bi, isB := c.Common().Value.(*ssa.Builtin); isB && bi.Name() == "len" {
			for _, oc := range core.OriginCalls(c.Common().Args[0]) {
				if strings.HasSuffix(core.CalleeKey(oc), "ScalarArray.GetElement") {
					nLen++
				}
			}
			if strings.HasSuffix(core.FieldOf(c.Common().Args[0]), "ScalarArray.Element") {
				nLen++
			}
		}
	}
	// the two lengths must be compared with each other (one != test), not merely used as loop bounds
	cmp := false
	for _, iff := range core.Ifs(f) {
		a, b, _, isEq := core.EqTest(iff.Cond)
		if !isEq {
			continue
		}
		isLen := func(v ssa.Value) bool {
			c, ok := v.(*ssa.Call)
			if !ok {
				return false
			}
			bi, isB := c.Common().Value.(*ssa.Builtin)
			return isB && bi.Name() == "len"
		}
		if isLen(a) && isLen(b) {
			cmp = true
		}
	}
	// slices.EqualFunc(a, b, EqualTypedValues) compares the lengths itself
	for _, c := range core.Calls(f) {
		if core.CalleeKey(c) != "slices.EqualFunc" || len(c.Common().Args) != 3 {
			continue
		}
		both := 0
		for _, a := range c.Common().Args[:2] {
			for _, oc := range core.OriginCalls(a) {
				if strings.HasSuffix(core.CalleeKey(oc), "ScalarArray.GetElement") {
					both++
					break
				}
			}
			if strings.HasSuffix(core.FieldOf(a), "ScalarArray.Element") {
				both++
			}
		}
		if both >= 2 {
			nLen, cmp = 2, true
		}
	}
	r.Check(nLen >= 2 && cmp, "EQUAL-LEAFLIST", core.Site(f, "lengths compared"), w.Pos(f.Pos()), "leaf-lists of different length must be unequal")
	rec := core.RecursesInLoopVia(f, func(k string) bool { return k == "slices.EqualFunc" })
	r.Check(rec, "EQUAL-LEAFLIST", core.Site(f, "elements compared pairwise"), w.Pos(f.Pos()), "element-wise comparison by recursion")
}

// ruleLeafrefTarget (C12, C15): leafref values are typed like the leaf they refer to.
func ruleLeafrefTarget(w *core.World, r *core.Report) {
	r.Rule("LEAFREF-TARGET", 2, "sibling agreement of the northbound converters: convertStringToTv and ConvertJsonValueToTv type a leafref value like the leaf it refers to: each calls itself with SchemaLeafType.LeafrefTargetType. A leafref to a uint32 must be stored as the number, not as its text: values are compared typed (deviations, re-apply) and a string \"5\" is not the uint 5.")
	for _, n := range []string{"convertStringToTv", "ConvertJsonValueToTv"} {
		f := w.Func("pkg/utils", "", n)
		if f == nil {
			continue
		}
		ok := false
		for _, c := range core.Calls(f) {
			if c.Common().StaticCallee() != f {
				continue
			}
			for _, a := range c.Common().Args {
				if strings.HasSuffix(core.FieldOf(a), "sdcpb.SchemaLeafType.LeafrefTargetType") {
					ok = true
				}
			}
		}
		r.Check(ok, "LEAFREF-TARGET", core.Site(f, "leafref typed as its target"), w.Pos(f.Pos()), "the leafref case must convert with the target leaf's type")
	}
}

// ruleLeaflistRecurse (C12, C10): the converters of the table convert leaf-list elements by calling themselves in the
// element loop. only: restrict to these function names (nil: all).
func ruleLeaflistRecurse(w *core.World, r *core.Report, rule string, only map[string]bool) {
	for _, t := range leaflistRecursive {
		if only != nil && !only[t.Name] {
			continue
		}
		f := w.Func(t.Pkg, t.Recv, t.Name)
		if f == nil {
			continue
		}
		rec := core.RecursesInLoop(f)
		r.Check(rec, rule, core.Site(f, "recurses for elements"), w.Pos(f.Pos()), "leaf-list elements are not converted by the converter itself")
	}
}

// ruleLossy (C12, C10): no lossy numeric conversion of values / schema bounds.
func ruleLossy(w *core.World, r *core.Report, ruleName string) {
	nLossy := 0
	for _, f := range w.RepoFns {
		if f.Pkg == nil {
			continue
		}
		pp := core.PkgPath(f)
		if !(pp == core.Module+"/pkg/utils" || pp == core.Module+"/pkg/tree" || pp == core.Module+"/pkg/datastore/target/netconf" || pp == core.Module+"/pkg/datastore") {
			continue
		}
		for _, b := range f.Blocks {
			for _, in := range b.Instrs {
				cv, ok := in.(*ssa.Convert)
				if !ok {
					continue
				}
				lossy, why := lossyConvert(cv.X.Type(), cv.Type())
				if !lossy {
					continue
				}
				src := numericValueSource(cv.X)
				if src == "" {
					continue
				}
				site := core.Site(f, "convert %s -> %s of %s", cv.X.Type(), cv.Type(), shortSrc(src))
				if wordBits == 32 {
					// decided for the shipped 64-bit targets; a conversion that is lossy only because int is 32 bits is reported as information
					wordBits = 64
					l64, _ := lossyConvert(cv.X.Type(), cv.Type())
					wordBits = 32
					if !l64 {
						r.Info(ruleName, site, w.InstrPos(cv), "portability: lossy ("+why+") only when int is 32 bits; the released binaries are 64-bit")
						continue
					}
				}
				nLossy++
				reason, ok := lossyExceptions[core.FuncKey(f)+"|"+cv.X.Type().String()+"->"+cv.Type().String()]
				if !ok {
					// code moved into an unexported helper keeps the exception of the function it was moved out of
					reason, ok = lossyExceptions[core.HostKey(f)+"|"+cv.X.Type().String()+"->"+cv.Type().String()]
				}
				if ok {
					r.OK(ruleName, site, w.InstrPos(cv), "frozen exception: "+reason)
					continue
				}
				// ParseInt/ParseUint with a bit size <= destination width is bounded
				if bounded(cv) {
					r.OK(ruleName, site, w.InstrPos(cv), "source bounded by the parse bit size")
					continue
				}
				r.Viol(ruleName, site, w.InstrPos(cv), "lossy conversion ("+why+") of a value / schema bound")
			}
		}
	}
	r.Extra["lossy_candidates"] = nLossy

	// ---- TYPE-NAMES
	r.Rule("TYPE-NAMES", 50, "each string switch over YANG type names covers the 19 built-in types of RFC 7950 or the missing ones are listed with the policy of the no-match path (preserves / rejects), confirmed by reading.")
	for _, ts := range typeNameSwitches {
		f := w.Func(ts.Pkg, ts.Recv, ts.Name)
		if f == nil {
			continue
		}
		have := stringSwitchConsts(f)
		// the table form of the switch: the keys of a package-level map of converters looked up by the type name
		for _, c := range core.Calls(f) {
			if _, table := dispatchTable(w, c); table != nil {
				for k := range table {
					have[k] = true
				}
			}
		}
		for _, y := range yangTypes {
			site := core.Site(f, "type %s", y)
			if have[y] {
				r.OK("TYPE-NAMES", site, w.Pos(f.Pos()), "case present")
			} else if reason, ok := ts.Missing[y]; ok {
				r.OK("TYPE-NAMES", site, w.Pos(f.Pos()), "no case: "+reason)
			} else {
				r.Viol("TYPE-NAMES", site, w.Pos(f.Pos()), "YANG built-in type without a case and without a recorded no-match policy: values of that type are dropped or mis-typed")
			}
		}
	}
	// the no-match path of convertStringToTv must not return (nil, nil)
	if f := w.Func("pkg/utils", "", "convertStringToTv"); f != nil {
		ok := true
		for _, ret := range core.Returns(f) {
			vals := core.ReturnValues(ret)
			if len(vals) == 2 && core.IsNilConst(vals[0]) && core.IsNilConst(vals[1]) {
				ok = false
			}
		}
		r.Check(ok, "TYPE-NAMES", core.Site(f, "no (nil, nil) return"), w.Pos(f.Pos()), "a conversion that yields neither a value nor an error drops the value silently")
	}

	// ---- DECIMAL-SIGN
	r.Rule("DECIMAL-SIGN", 1, "rendering of decimal64: wherever an integer formatter (strconv.FormatInt, fmt.Sprintf, ...) receives a value that depends on Decimal64.Digits, it receives the whole number (no integer division / remainder in between) or the function tests the sign of Digits itself. A renderer that formats digits/10^p and |digits%10^p| separately drops the sign of every value in (-1,0). Structural necessary condition only; the digits themselves are not checked.")
	ruleDecimalSign(w, r, "DECIMAL-SIGN")
}

// ruleTextVerbatim (shared by C12 and C15): a YANG string is stored as it was written. Whitespace and letter case
// are part of a string value (a description, a banner, a password), so the result of a strings.TrimSpace / Trim* /
// ToLower / ToUpper / Title call must not become the string variant of a TypedValue: neither by a store to
// TypedValue_StringVal.StringVal in the same function nor by being handed to a repository function whose parameter
// reaches such a store (summary over static calls, any depth). A trim in a dispatcher (ConvertToTypedValue) that is
// right for the numeric converters it also feeds is seen because the string converter is among the callees.
func ruleTextVerbatim(w *core.World, r *core.Report, ruleName string) {
	r.Rule(ruleName, 8, "(shared by C12 and C15) a YANG string is stored as written: the result of strings.TrimSpace / Trim / TrimLeft / TrimRight / TrimFunc / ToLower / ToUpper / ToTitle / Title is neither stored into the string variant of a TypedValue (TypedValue_StringVal.StringVal) nor handed to a repository function whose parameter reaches such a store (parameter summaries over static calls, any depth). Blanks and case belong to a string value; the per-type converters of numbers, booleans and identities may normalise their own text. Necessary for C15 as well: only the intended side of the deviation comparison goes through the converters.")
	lossy := []string{"strings.TrimSpace", "strings.Trim", "strings.TrimLeft", "strings.TrimRight", "strings.TrimFunc", "strings.ToLower", "strings.ToUpper", "strings.ToTitle", "strings.Title"}
	const field = "github.com/sdcio/sdc-protos/sdcpb.TypedValue_StringVal" + ".StringVal"
	type pk struct {
		f *ssa.Function
		i int
	}
	memo := map[pk]int{} // 1 = in progress / no, 2 = yes
	var reach func(g *ssa.Function, i int) bool
	reach = func(g *ssa.Function, i int) bool {
		if g == nil || g.Blocks == nil || i >= len(g.Params) || !strings.HasPrefix(core.PkgPath(g), core.Module) {
			return false
		}
		k := pk{g, i}
		if m, ok := memo[k]; ok {
			return m == 2
		}
		memo[k] = 1
		p := g.Params[i]
		yes := false
		core.WithoutInlining(func() {
			for _, st := range core.StoresToField(g, field) {
				if core.HasOrigin(st.Val, p) {
					yes = true
				}
			}
			for _, c := range core.OwnCalls(g) {
				h := c.Common().StaticCallee()
				if h == nil || yes {
					continue
				}
				for j, a := range c.Common().Args {
					if core.HasOrigin(a, p) && reach(h, j) {
						yes = true
						break
					}
				}
			}
		})
		if yes {
			memo[k] = 2
		}
		return yes
	}
	nSrc := 0
	for _, f := range w.RepoFns {
		if f.Pkg == nil || strings.Contains(core.PkgPath(f), "/mocks/") || !strings.HasPrefix(core.PkgPath(f), core.Module+"/pkg/") {
			continue
		}
		core.WithoutInlining(func() {
			ord := map[string]int{}
			for _, c := range core.OwnCallsTo(f, lossy...) {
				v := c.Value()
				if v == nil {
					continue
				}
				nSrc++
				name := core.CalleeKey(c)
				ord[name]++
				site := core.Site(f, "result of %s #%d is not a string value", name, ord[name])
				via := ""
				for _, st := range core.StoresToField(f, field) {
					if core.HasOrigin(st.Val, v) {
						via = "stored into TypedValue_StringVal.StringVal at " + w.InstrPos(st)
					}
				}
				for _, c2 := range core.OwnCalls(f) {
					h := c2.Common().StaticCallee()
					if h == nil || via != "" {
						continue
					}
					for j, a := range c2.Common().Args {
						if core.HasOrigin(a, v) && reach(h, j) {
							via = "handed to " + core.FuncKey(h) + ", which stores that parameter as the string variant of a TypedValue"
							break
						}
					}
				}
				if via == "" {
					r.OK(ruleName, site, w.InstrPos(c), "")
					continue
				}
				r.Viol(ruleName, site, w.InstrPos(c), "trimmed / case-folded text becomes the value of a YANG string ("+via+"): leading or trailing blanks (or the case) of the value are lost on this conversion path, and a comparison with the same value that came another way (running vs. intended) no longer sees what is stored")
			}
		})
	}
	r.Extra["text_normalising_calls"] = nSrc
}
