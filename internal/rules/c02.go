package rules

import (
	"fmt"
	"go/token"
	"go/types"
	"os"
	"strings"

	"golang.org/x/tools/go/ssa"

	"verif/internal/core"
)

func init() {
	Registry["C02"] = c02
	Registry["C05"] = c05
	Registry["C09"] = c09
}

const (
	kGetOldIntent   = "datastore/types.Transaction.GetOldIntent"
	kAddIntentCont  = "datastore/types.Transaction.AddIntentContent"
	kTIGetPathSet   = "datastore/types.TransactionIntent.GetPathSet"
	kTIGetUpdates   = "datastore/types.TransactionIntent.GetUpdates"
	kLoadOwnerData  = "tree.RootEntry.LoadIntendedStoreOwnerData"
	kFieldTIPrio    = "datastore/types.TransactionIntent.priority"
	kFirstPrioValue = "tree.UpdateSlice.GetFirstPriorityValue"
)

// mainIntendedModify: the Modify(INTENDED) of lowlevelTransactionSet that writes the new content (non-nil updates).
func mainIntendedModify(low *ssa.Function) ssa.CallInstruction {
	for _, m := range intendedModifies(low) {
		args := core.CallArgs(m)
		if len(args) == 5 && !core.IsNilConst(args[4]) {
			return m
		}
	}
	return nil
}

// oldPrioModifies: Modify(INTENDED) calls whose Opts.Priority comes from an old intent (GetOldIntent(...).GetPriority()).
func oldPrioModifies(low *ssa.Function) []ssa.CallInstruction {
	var out []ssa.CallInstruction
	for _, m := range intendedModifies(low) {
		prio, _ := optsField(m, "Priority")
		for _, oc := range core.OriginCalls(prio) {
			if !core.CalleeIs(oc, kTIGetPriority) {
				continue
			}
			for _, o2 := range core.OriginCalls(core.CallRecv(oc)) {
				if core.CalleeIs(o2, kGetOldIntent) {
					out = append(out, m)
				}
			}
		}
	}
	return out
}

func sameRangeVar(a, b ssa.Value) bool {
	for _, oa := range core.Origins(a) {
		for _, ob := range core.Origins(b) {
			if oa == ob {
				if _, isConst := oa.(*ssa.Const); !isConst {
					return true
				}
			}
		}
	}
	return false
}

func c02(w *core.World, r *core.Report) {
	low := w.Func("pkg/datastore", "Datastore", "lowlevelTransactionSet")
	load := w.Func("pkg/tree", "RootEntry", "LoadIntendedStoreOwnerData")
	readOwner := w.Func("pkg/tree", "TreeCacheClientImpl", "ReadUpdatesOwner")
	equal := w.Func("pkg/cache", "Update", "EqualSkipPath")
	if low == nil || load == nil || readOwner == nil || equal == nil {
		return
	}
	main := mainIntendedModify(low)
	if main == nil {
		r.Viol("PERSIST-ALL", core.Site(low, "Modify(INTENDED) with updates"), w.Pos(low.Pos()), "the pipeline never persists the new content of an intent")
		return
	}

	// ---- PRIO-FLOW (shared with C01)
	r.Rule("PRIO-FLOW", 1, "(shared with C01) the priority persisted with an intent flows from the request.")
	fl, _ := priorityFlow(w)
	prio, _ := optsField(main, "Priority")
	r.Check(prio != nil && fl.Reaches(prio), "PRIO-FLOW", core.Site(low, "Modify(INTENDED) updates Opts.Priority"), w.InstrPos(main), "stored priority must flow from the request")

	// ---- OWNER-FLOW
	r.Rule("OWNER-FLOW", 4, "in the persist loop of lowlevelTransactionSet the Owner and Priority of the Opts, and the owner arguments of GetUpdatesForOwner / GetDeletesForOwner whose results are written, all come from the same loop variable (one intent): entries are written under the name and priority of the intent they belong to.")
	{
		owner, _ := optsField(main, "Owner")
		var intentVar ssa.Value
		for _, oc := range core.OriginCalls(owner) {
			if core.CalleeIs(oc, kTIGetName) {
				intentVar = core.CallRecv(oc)
			}
		}
		r.Check(intentVar != nil, "OWNER-FLOW", core.Site(low, "Opts.Owner from intent.GetName()"), w.InstrPos(main), "the owner of the stored entries must be the intent's name")
		if intentVar != nil {
			okP := false
			for _, oc := range core.OriginCalls(prio) {
				if core.CalleeIs(oc, kTIGetPriority) && sameRangeVar(core.CallRecv(oc), intentVar) {
					okP = true
				}
			}
			r.Check(okP, "OWNER-FLOW", core.Site(low, "Opts.Priority from the same intent"), w.InstrPos(main), "priority and owner must belong to the same intent")
			args := core.CallArgs(main)
			for i, want := range map[int]string{3: "tree.RootEntry.GetDeletesForOwner", 4: "tree.RootEntry.GetUpdatesForOwner"} {
				ok := false
				var walk func(v ssa.Value, d int)
				walk = func(v ssa.Value, d int) {
					if d > 3 {
						return
					}
					for _, oc := range core.OriginCalls(v) {
						if core.CalleeIs(oc, want) {
							for _, a := range core.CallArgs(oc) {
								for _, o2 := range core.OriginCalls(a) {
									if core.CalleeIs(o2, kTIGetName) && sameRangeVar(core.CallRecv(o2), intentVar) {
										ok = true
									}
								}
							}
						} else if rv := core.CallRecv(oc); rv != nil {
							walk(rv, d+1) // e.g. deletesOwner.ToStringSlice()
						}
					}
				}
				walk(args[i], 0)
				r.Check(ok, "OWNER-FLOW", core.Site(low, "Modify arg %d from %s(intent.GetName())", i, want), w.InstrPos(main), "what is written for an owner must be that owner's updates/deletes computed from the tree flags")
			}
		}
	}

	// ---- PERSIST-FROM-FLAGS
	r.Rule("PERSIST-FROM-FLAGS", 2, "GetUpdatesForOwner selects with FilterNonDeletedButNewOrUpdated and GetDeletesForOwner with FilterDeleted (the filter function values passed to getByOwnerFiltered), and the filters read the flags they are named after.")
	for fnName, filter := range map[string]string{"GetUpdatesForOwner": "tree.FilterNonDeletedButNewOrUpdated", "GetDeletesForOwner": "tree.FilterDeleted"} {
		f := w.Func("pkg/tree", "RootEntry", fnName)
		if f == nil {
			continue
		}
		ok := false
		for _, b := range core.Blocks(f) {
			for _, in := range b.Instrs {
				for _, op := range in.Operands(nil) {
					if op == nil || *op == nil {
						continue
					}
					if fv, isFn := (*op).(*ssa.Function); isFn && core.FuncKey(fv) == filter {
						ok = true
					}
				}
			}
		}
		r.Check(ok && len(core.CallsTo(f, "tree.RootEntry.getByOwnerFiltered")) == 1, "PERSIST-FROM-FLAGS", core.Site(f, "filter %s", filter), w.Pos(f.Pos()), "owner writes/deletes are derived from the tree flags through this filter")
	}
	consultsInReturn(w, r, "PERSIST-FROM-FLAGS", w.Func("pkg/tree", "", "FilterNonDeletedButNewOrUpdated"), []consult{
		{Calls: []string{"tree.LeafEntry.GetDeleteFlag"}, Why: "deleted entries are not written"},
		{Calls: []string{"tree.LeafEntry.GetUpdateFlag"}, Why: "updated entries are written"},
		{Calls: []string{"tree.LeafEntry.GetNewFlag"}, Why: "new entries are written"},
	})
	consultsInReturn(w, r, "PERSIST-FROM-FLAGS", w.Func("pkg/tree", "", "FilterDeleted"), []consult{
		{Calls: []string{"tree.LeafEntry.GetDeleteFlag"}, Why: "entries marked for deletion are removed from the store"},
	})

	// ---- PERSIST-ALL
	r.Rule("PERSIST-ALL", 2, "the Modify(INTENDED) that writes an intent's content is inside a range over transaction.GetNewIntents() and every path from the loop body back to the loop head passes it (no continue/break skips an intent); the loop ranges over ALL new intents.")
	{
		var next *ssa.Next
		owner, _ := optsField(main, "Owner")
		for _, oc := range core.OriginCalls(owner) {
			for _, o := range core.Origins(core.CallRecv(oc)) {
				if n, ok := o.(*ssa.Next); ok {
					next = n
				}
			}
		}
		if next == nil {
			r.Viol("PERSIST-ALL", core.Site(low, "persist loop"), w.InstrPos(main), "the persisted intent is not a range variable")
		} else {
			rg, _ := next.Iter.(*ssa.Range)
			okRange := false
			if rg != nil {
				for _, oc := range core.OriginCalls(rg.X) {
					if core.CalleeIs(oc, "datastore/types.Transaction.GetNewIntents") {
						okRange = true
					}
				}
			}
			r.Check(okRange, "PERSIST-ALL", core.Site(low, "persist loop ranges over GetNewIntents"), w.InstrPos(main), "every new intent of the transaction must be persisted")
			// from just after next (body) back to next without passing main
			skip, tr := core.PathQuery{Avoid: func(in ssa.Instruction) bool { return in == ssa.Instruction(main) }}.Reaches(next.Block(), core.InstrIndex(next)+1, func(in ssa.Instruction) bool { return in == ssa.Instruction(next) })
			r.Check(core.CanFollow(main, next), "PERSIST-ALL", core.Site(low, "loop continues after persisting"), w.InstrPos(main), "after persisting one intent the loop must be able to reach the next one (no break)")
			r.Check(!skip, "PERSIST-ALL", core.Site(low, "no intent skipped"), w.InstrPos(main), fmt.Sprintf("a path through the loop body reaches the next iteration without persisting the intent (blocks %v)", tr))
			// every success return that is neither the dry-run nor the validation-failed exit comes after the persist loop
			dry := dryFlagOf(w, low, 0)
			for _, ret := range core.Returns(low) {
				ev := errorOperand(ret)
				if ev == nil || !core.IsNilConst(ev) {
					continue
				}
				if core.GuardedByBoolCall(ret, true, kHasErrors) || (dry != nil && dry.guarded(ret, true)) {
					continue
				}
				r.Check(core.InstrBefore(rg, ret), "PERSIST-ALL", core.Site(low, "success return after the persist loop"), w.InstrPos(ret), "a successful, non-dry-run transaction returns only after the per-intent writes to the intended store (an accepted intent without device effect - shadowed, or deleted while shadowed - is still the owner's last accepted version)")
			}
		}
	}

	// ---- OWNER-READ
	r.Rule("OWNER-READ", 1, "cache contract (sdcio/cache v0.0.35 buildIntendedStoreReadeKey: with Priority<=0 the Owner of a read is ignored): every read of Store_INTENDED whose Opts set Owner also sets Priority from a value that is not the constant 0. In ReadUpdatesOwner the priority comes from the keys index.")
	for _, f := range w.RepoFns {
		for _, c := range core.OwnCalls(f) {
			if !core.CalleeIs(c, "cache.Client.Read", "cache.Client.ReadCh", "tree.TreeCacheClientImpl.Read", "tree.TreeCacheClient.Read") {
				continue
			}
			store, _ := optsField(c, "Store")
			if store == nil {
				continue
			}
			isIntended := false
			if cst, ok := store.(*ssa.Const); ok && cst.Int64() == 2 {
				isIntended = true
			}
			owner, _ := optsField(c, "Owner")
			if !isIntended || owner == nil {
				continue
			}
			if s, isC := core.ConstString(owner); isC && s == "" {
				continue
			}
			p, _ := optsField(c, "Priority")
			zero := p == nil
			if n, isC := core.ConstInt(p); isC && n == 0 {
				zero = true
			}
			r.Check(!zero, "OWNER-READ", core.Site(f, "read INTENDED with Owner"), w.InstrPos(c), "an owner-filtered read of the intended store needs the priority the owner's entries are stored under, else the highest-precedence entry of ANY owner is returned")
		}
	}

	// ---- OWNER-READ-COMPLETE (shared with C09)
	r.Rule("OWNER-READ-COMPLETE", 1, "TreeCacheClientImpl.ReadUpdatesOwner reads the owner's complete path list per priority (whole list, or chunks whose loop runs while 'index < len(list)'): entries that are not loaded cannot be marked for deletion and survive a shrink or delete of the intent.")
	ruleOwnerReadComplete(w, r, "OWNER-READ-COMPLETE")

	// ---- MARK-DELETE (shared with C09)
	ruleMarkDelete(w, r, load)

	// ---- SKIP-ALL-ACTORS
	r.Rule("SKIP-ALL-ACTORS", 1, "when the stored alternatives of the involved paths are loaded (ReadCurrentUpdatesHighestPriorities), the stored entries of EVERY intent of the transaction are left out: the list the owner of a read entry is looked up in comes from Transaction.GetIntentNames() and from nothing else. A stored entry of an acting intent that is added again un-marks the very entry that was loaded and marked for deletion for that intent (LeafVariants.Add drops the delete flag of an equal entry): the path the intent dropped is never deleted from its stored version.")
	{
		n := 0
		for _, c := range core.Calls(low) {
			if !strings.HasPrefix(core.CalleeKey(c), "slices.Contains") {
				continue
			}
			a := c.Common().Args
			if len(a) != 2 {
				continue
			}
			isOwner := false
			for _, oc := range core.OriginCalls(a[1]) {
				if core.CalleeIs(oc, "cache.Update.Owner") {
					isOwner = true
				}
			}
			if !isOwner {
				continue
			}
			n++
			bad := ""
			core.WithHost(low, func() {
				for _, o := range core.OriginsThroughCaptures(a[0]) {
					if oc, ok := o.(*ssa.Call); ok && core.CalleeIs(oc, "datastore/types.Transaction.GetIntentNames") {
						continue
					}
					bad = o.String()
				}
			})
			r.Check(bad == "", "SKIP-ALL-ACTORS", core.Site(low, "alternatives skip every intent of the transaction"), w.InstrPos(c), "the skip list is "+bad+", not the names of all intents of the transaction")
		}
		if n == 0 {
			r.Viol("SKIP-ALL-ACTORS", core.Site(low, "alternatives skip every intent of the transaction"), w.Pos(low.Pos()), "the loaded alternatives are not filtered by owner at all")
		}
	}

	// ---- OLD-PRIO-DELETE (shared with C01)
	ruleOldPrioDelete(w, r, low)

	// ---- SEP (shared with C11): the owner's path set (PathSet) and the keys index decide which stored entries are loaded and marked
	ruleSEP(w, r)

	// ---- EQUAL-FIELDS
	r.Rule("EQUAL-FIELDS", 3, "cache.Update.EqualSkipPath compares owner, priority and value (all three fields in the backward slice of its result); LeafVariants.Add decides on it.")
	{
		sl := core.ReturnSlice(equal, -1)
		for _, fld := range []string{"owner", "priority", "value"} {
			r.Check(sl.HasFieldLoad("cache.Update."+fld), "EQUAL-FIELDS", core.Site(equal, "compares %s", fld), w.Pos(equal.Pos()), "two versions of an entry that differ in "+fld+" are not identical")
		}
	}
}

// ruleOldPrioDelete: shared by C01 and C02 (a stale version under the old priority is both a store defect and,
// being live for the merge, a convergence defect).
func ruleOldPrioDelete(w *core.World, r *core.Report, low *ssa.Function) {
	r.Rule("OLD-PRIO-DELETE", 3, "cache contract: a delete addresses (path, priority, owner). lowlevelTransactionSet contains a Modify(INTENDED) whose Opts.Priority is the OLD intent's priority (GetOldIntent(name).GetPriority()), whose owner is the same intent's name, whose deletes are the old intent's complete path set (GetPathSet/GetUpdates of that old intent, not the per-transaction deletes), and whose execution does not depend on the new content of the intent (a delete intent has none).")
	{
		olds := oldPrioModifies(low)
		if len(olds) == 0 {
			r.Viol("OLD-PRIO-DELETE", core.Site(low, "Modify(INTENDED) at the old priority"), w.Pos(low.Pos()), "entries stored under an intent's previous priority are never removed (re-prioritised or deleted-with-other-priority intents leave a stale version)")
		}
		for _, m := range olds {
			args := core.CallArgs(m)
			full := false
			var walk func(v ssa.Value, d int)
			walk = func(v ssa.Value, d int) {
				if d > 4 {
					return
				}
				for _, oc := range core.OriginCalls(v) {
					if os.Getenv("DSCHECK_DEBUG_OPD") != "" {
						fmt.Printf("OPD walk d=%d v=%s oc=%s key=%s\n", d, v, oc, core.CalleeKey(oc))
					}
					if core.CalleeIs(oc, kTIGetPathSet, kTIGetUpdates) {
						for _, o2 := range core.OriginCalls(core.CallRecv(oc)) {
							if core.CalleeIs(o2, kGetOldIntent) {
								full = true
							}
						}
					} else if rv := core.CallRecv(oc); rv != nil {
						walk(rv, d+1)
					}
				}
			}
			if len(args) == 5 {
				walk(args[3], 0)
			}
			r.Check(full, "OLD-PRIO-DELETE", core.Site(low, "old-priority delete covers the whole old content"), w.InstrPos(m), "all paths of the old version must be deleted under the old priority (kept paths are rewritten under the new one)")
			// guards must not depend on the new intent's content
			bad := false
			for _, g := range core.GuardsOf(m) {
				if x, _, isNil := core.NilTest(g.If.Cond); isNil && isErrorType(x.Type()) {
					continue // error checks of earlier stages
				}
				if !core.CanFollow(m, g.If) {
					continue // a branch of an earlier stage of the pipeline, not of the per-intent loop this write sits in
				}
				sl := core.DataSlice(low, []ssa.Value{g.If.Cond})
				for v := range sl.Values {
					c, ok := v.(*ssa.Call)
					if ok && core.CalleeIs(c, "tree.RootEntry.GetUpdatesForOwner", "tree.RootEntry.GetDeletesForOwner") {
						if os.Getenv("DSCHECK_DEBUG_OPD") != "" {
							fmt.Printf("OPD bad: guard %s at %s depends on %s\n", g.If.Cond, w.InstrPos(g.If), c)
						}
						bad = true // what the tree holds for the owner after the merge IS the new content
						continue
					}
					if !ok || !core.CalleeIs(c, kTIGetUpdates, "datastore/types.TransactionIntent.GetPathSet") {
						continue
					}
					fromOld := false
					for _, o2 := range core.OriginCalls(core.CallRecv(c)) {
						if core.CalleeIs(o2, kGetOldIntent) {
							fromOld = true
						}
					}
					if !fromOld {
						if os.Getenv("DSCHECK_DEBUG_OPD") != "" {
							fmt.Printf("OPD bad2: guard %s at %s depends on %s\n", g.If.Cond, w.InstrPos(g.If), c)
						}
						bad = true
					}
				}
			}
			r.Check(!bad, "OLD-PRIO-DELETE", core.Site(low, "old-priority delete independent of new content"), w.InstrPos(m), "whether the old version is removed must not depend on the new content (delete intents carry none)")
			owner, _ := optsField(m, "Owner")
			okOwner := false
			for _, oc := range core.OriginCalls(owner) {
				if core.CalleeIs(oc, kTIGetName) {
					okOwner = true
				}
			}
			r.Check(okOwner, "OLD-PRIO-DELETE", core.Site(low, "old-priority delete owner"), w.InstrPos(m), "owner must be the intent's name")
		}
	}
}

// valueFeedsCall: v is (transitively) an argument of call m rather than only a branch condition on the way to it.
func valueFeedsCall(v ssa.Value, m ssa.CallInstruction) bool {
	seen := map[ssa.Value]bool{}
	var rec func(x ssa.Value, d int) bool
	rec = func(x ssa.Value, d int) bool {
		if x == nil || seen[x] || d > 12 {
			return false
		}
		seen[x] = true
		if x == v {
			return true
		}
		in, ok := x.(ssa.Instruction)
		if !ok {
			return false
		}
		for _, op := range in.Operands(nil) {
			if op != nil && *op != nil && rec(*op, d+1) {
				return true
			}
		}
		if al, ok := x.(*ssa.Alloc); ok {
			for _, ref := range *al.Referrers() {
				if fa, ok := ref.(*ssa.FieldAddr); ok {
					for _, r2 := range *fa.Referrers() {
						if st, ok := r2.(*ssa.Store); ok && rec(st.Val, d+1) {
							return true
						}
					}
				}
			}
		}
		return false
	}
	for _, a := range m.Common().Args {
		if rec(a, 0) {
			return true
		}
	}
	return false
}

func c05(w *core.World, r *core.Report) {
	low := w.Func("pkg/datastore", "Datastore", "lowlevelTransactionSet")
	getRb := w.Func("pkg/datastore/types", "Transaction", "GetRollbackTransaction")
	cancel := w.Func("pkg/datastore/types", "TransactionManager", "Cancel")
	adapter := w.Func("pkg/datastore", "DatastoreRollbackAdapter", "TransactionRollback")
	tcbs := timerCallbacks(w)
	if len(tcbs) == 0 {
		w.NoteUnresolved("timer callback (function handed to types.NewTransactionCancelTimer)")
	}
	if low == nil || getRb == nil || cancel == nil || adapter == nil || len(tcbs) == 0 {
		return
	}
	tcb := tcbs[0]

	// ---- OLDPRIO-FLOW
	r.Rule("OLDPRIO-FLOW", 2, "value flow: the priority the old content was stored under (UpdateSlice.GetFirstPriorityValue of what LoadIntendedStoreOwnerData returned) reaches the priority field of the old TransactionIntent (through AddIntentContent -> NewTransactionIntent) and from there Opts.Priority of the Modify(INTENDED) calls: a rolled-back intent returns with its original priority.")
	{
		fl := w.NewFlow()
		n := 0
		for _, c := range core.CallsTo(low, kFirstPrioValue) {
			for _, oc := range core.OriginCalls(core.CallRecv(c)) {
				if core.CalleeIs(oc, kLoadOwnerData) {
					fl.AddSource(c.Value())
					n++
				}
			}
		}
		fl.Run()
		r.Check(n > 0 && fl.Fields[kFieldTIPrio], "OLDPRIO-FLOW", core.Site(low, "old priority -> TransactionIntent.priority"), w.Pos(low.Pos()), "the stored priority of the old content must be recorded with the old intent")
		main := mainIntendedModify(low)
		if main != nil {
			p, _ := optsField(main, "Priority")
			r.Check(p != nil && fl.Reaches(p), "OLDPRIO-FLOW", core.Site(low, "old priority -> Opts.Priority"), w.InstrPos(main), "a rollback persists the old intents under the priority recorded for them")
		}
	}

	// ---- SNAPSHOT-ORDER
	r.Rule("SNAPSHOT-ORDER", 4, "the old content of every intent is recorded (AddIntentContent(name, TransactionIntentOld, ..., content) with the slice LoadIntendedStoreOwnerData returned) before that intent's new content is added and before any store write; nothing reads the old intents (GetOldIntent, GetPathSet(Old), GetRollbackTransaction) at a point after which AddIntentContent can still execute.")
	{
		adds := core.CallsTo(low, kAddIntentCont)
		if len(adds) != 1 {
			r.Viol("SNAPSHOT-ORDER", core.Site(low, "AddIntentContent"), w.Pos(low.Pos()), fmt.Sprintf("expected one AddIntentContent call, found %d", len(adds)))
		} else {
			add := adds[0]
			args := core.CallArgs(add)
			okOld, okContent := false, false
			if len(args) == 4 {
				if n, isC := core.ConstInt(args[1]); isC && n == 1 {
					okOld = true
				}
				if cv, ok := args[1].(*ssa.Const); ok && cv.Int64() == 1 {
					okOld = true
				}
				for _, oc := range core.OriginCalls(args[3]) {
					if core.CalleeIs(oc, kLoadOwnerData) {
						okContent = true
					}
				}
			}
			r.Check(okOld, "SNAPSHOT-ORDER", core.Site(low, "recorded as TransactionIntentOld"), w.InstrPos(add), "the snapshot must go to the old intents")
			r.Check(okContent, "SNAPSHOT-ORDER", core.Site(low, "snapshot is the loaded owner data"), w.InstrPos(add), "the snapshot must be what was read from the intended store for that owner")
			for _, a := range core.CallsTo(low, "tree.RootEntry.AddCacheUpdatesRecursive") {
				r.Check(core.InstrBefore(add, a), "SNAPSHOT-ORDER", core.Site(low, "snapshot before new content"), w.InstrPos(a), "old content recorded before the tree is changed")
			}
			for i, m := range core.CallsTo(low, kModify) {
				r.Check(!core.CanFollow(m, add), "SNAPSHOT-ORDER", core.Site(low, "snapshot before Modify#%d", i), w.InstrPos(m), "no store write may precede a snapshot")
			}
			for _, c := range core.Calls(low) {
				if !core.CalleeIs(c, kGetOldIntent, "datastore/types.Transaction.GetRollbackTransaction") {
					isOldPathSet := false
					if core.CalleeIs(c, "datastore/types.Transaction.GetPathSet") {
						for _, a := range core.CallArgs(c) {
							if cv, ok := a.(*ssa.Const); ok && cv.Int64() == 1 {
								isOldPathSet = true
							}
						}
					}
					if !isOldPathSet {
						continue
					}
				}
				r.Check(!core.CanFollow(c, add), "SNAPSHOT-ORDER", core.Site(low, "old intents read only when complete (%s)", core.CalleeKey(c)), w.InstrPos(c), "the old intents are filled inside the loop; reading them while AddIntentContent can still run sees an incomplete snapshot")
			}
		}
	}

	// ---- ROLLBACK-COMPLETE
	r.Rule("ROLLBACK-COMPLETE", 1, "GetRollbackTransaction hands every old intent to AddTransactionIntent and discards the result, so AddTransactionIntent must not be able to refuse one of them: its only failing return is the duplicate-name one (guarded by the 'exists' outcome of the lookup in the intent map). Any other refusal (an input check added for the request path) silently drops that intent from the rollback: Cancel and the timeout then leave it changed. Likewise Transaction.AddIntentContent records an entry (map update) before every success return: the snapshot of an intent that did not exist is an empty entry, and without it the created intent is not part of the rollback.")
	if add := w.Func("pkg/datastore/types", "Transaction", "AddTransactionIntent"); add != nil {
		n := 0
		for i, re := range errorReturnsThroughHelpers(add, 0) {
			ret, ev := re.ret, re.err
			if ev == nil || core.IsNilConst(ev) {
				continue
			}
			n++
			dup := false
			core.WithHost(add, func() {
				for _, a := range core.GuardAtoms(ret) {
					if !a.True {
						continue
					}
					if ex, ok := a.Cond.(*ssa.Extract); ok && ex.Index == 1 {
						if _, isLookup := ex.Tuple.(*ssa.Lookup); isLookup {
							dup = true
						}
					}
				}
			})
			r.Check(dup, "ROLLBACK-COMPLETE", core.Site(add, "failing return#%d is the duplicate-name refusal", i), w.InstrPos(ret), "AddTransactionIntent refuses an intent for another reason than a duplicate name; GetRollbackTransaction ignores that error and the old intent is missing from the rollback")
		}
		if n == 0 {
			r.OK("ROLLBACK-COMPLETE", core.Site(add, "cannot fail"), w.Pos(add.Pos()), "")
		}
	}

	// the snapshot of an intent that did not exist before is an EMPTY entry: the rollback is built from the entries, and
	// an intent without one is not part of it (it stays, with its content, after Cancel / timeout)
	if aic := w.Func("pkg/datastore/types", "Transaction", "AddIntentContent"); aic != nil {
		var recorders []ssa.Instruction
		for _, b := range core.Blocks(aic) {
			for _, in := range b.Instrs {
				if _, ok := in.(*ssa.MapUpdate); ok {
					recorders = append(recorders, in)
				}
				if c, ok := in.(ssa.CallInstruction); ok && core.CalleeIs(c, "datastore/types.Transaction.AddTransactionIntent") {
					recorders = append(recorders, in)
				}
			}
		}
		for i, ret := range core.Returns(aic) {
			ev := errorOperand(ret)
			if ev == nil || !core.IsNilConst(ev) {
				continue
			}
			rec := false
			core.WithHost(aic, func() {
				rec, _ = core.AlwaysBefore(func(in ssa.Instruction) bool {
					for _, x := range recorders {
						if x == in {
							return true
						}
					}
					return false
				}, ret)
			})
			r.Check(rec, "ROLLBACK-COMPLETE", core.Site(aic, "success return#%d after the entry was recorded", i), w.InstrPos(ret), "AddIntentContent reports success without having recorded an entry for the intent (whatever its content, also none): GetRollbackTransaction builds the rollback from the entries, so an intent the transaction created is not removed by Cancel / timeout")
		}
	}

	// ---- ROLLBACK-REACH
	r.Rule("ROLLBACK-REACH", 6, "the timer callback and TransactionManager.Cancel reach RollbackInterface.TransactionRollback with dryRun=false; the adapter forwards to lowlevelTransactionSet with the same transaction and flag; GetRollbackTransaction stops the timer, ranges over ALL old intents adding each as a new intent of the rollback transaction on every path of the loop body, and marks the result as rollback.")
	{
		cg := w.CG()
		skip := func(e core.Edge) bool { return e.Kind == "ref" || e.Kind == "dynamic-sig" }
		reachT := cg.Reachable(skip, tcb)
		reachC := cg.Reachable(skip, cancel)
		r.Check(reachT[adapter], "ROLLBACK-REACH", core.Site(tcb, "reaches TransactionRollback"), w.Pos(tcb.Pos()), "timer expiry must trigger a rollback through the datastore adapter")
		r.Check(reachC[adapter], "ROLLBACK-REACH", core.Site(cancel, "reaches TransactionRollback"), w.Pos(cancel.Pos()), "cancel must trigger a rollback")
		for _, c := range w.CallersOfKey(kRollbackIface) {
			args := core.CallArgs(c)
			b, isC := false, false
			if len(args) == 3 {
				b, isC = core.ConstBool(args[2])
			}
			r.Check(isC && !b, "ROLLBACK-REACH", core.Site(c.Parent(), "TransactionRollback dryRun=false"), w.InstrPos(c), "a rollback is never a dry run")
		}
		// adapter forwards
		fw := core.CallsTo(adapter, kLowlevel)
		okFw := len(fw) == 1
		if okFw {
			args := core.CallArgs(fw[0])
			okFw = len(args) == 3 && args[1] == ssa.Value(core.Param(adapter, "transaction")) && (args[2] == ssa.Value(core.Param(adapter, "dryRun")) || (core.Param(adapter, "dryRun") != nil && encodesBool(args[2], core.Param(adapter, "dryRun")) != nil))
		}
		r.Check(okFw, "ROLLBACK-REACH", core.Site(adapter, "forwards to lowlevelTransactionSet"), w.Pos(adapter.Pos()), "the rollback runs the same pipeline with the given transaction")
		// GetRollbackTransaction
		var next *ssa.Next
		for _, b := range core.Blocks(getRb) {
			for _, in := range b.Instrs {
				if n, ok := in.(*ssa.Next); ok {
					if rg, ok := n.Iter.(*ssa.Range); ok {
						core.WithHost(getRb, func() {
							for _, o := range append(core.Origins(rg.X), rg.X) {
								if core.FieldOf(o) == "datastore/types.Transaction.oldIntents" {
									next = n // possibly the loop of a generic helper that is handed the map
								}
							}
						})
					}
				}
			}
		}
		if next == nil {
			r.Viol("ROLLBACK-REACH", core.Site(getRb, "ranges over oldIntents"), w.Pos(getRb.Pos()), "the rollback transaction is not built from the old intents")
		} else {
			adds := core.CallsTo(getRb, "datastore/types.Transaction.AddTransactionIntent")
			okAll := len(adds) == 1
			if okAll {
				skipPath, _ := core.PathQuery{Avoid: func(in ssa.Instruction) bool { return in == ssa.Instruction(adds[0]) }, Root: getRb}.Reaches(next.Block(), core.InstrIndex(next)+1, func(in ssa.Instruction) bool { return in == ssa.Instruction(next) })
				okAll = !skipPath
				a := core.CallArgs(adds[0])
				if len(a) == 2 {
					if cv, ok := a[1].(*ssa.Const); !ok || cv.Int64() != 0 {
						okAll = false
					}
				}
			}
			r.Check(okAll, "ROLLBACK-REACH", core.Site(getRb, "every old intent becomes a new intent"), w.Pos(getRb.Pos()), "no old intent may be skipped (an intent the transaction created has empty old content and must be rolled back to 'absent')")
		}
		okFlag := false
		for _, st := range core.StoresToField(getRb, "datastore/types.Transaction.isRollback") {
			if b, isC := core.ConstBool(st.Val); isC && b {
				okFlag = true
			}
		}
		r.Check(okFlag, "ROLLBACK-REACH", core.Site(getRb, "isRollback=true"), w.Pos(getRb.Pos()), "the rollback transaction must not arm a rollback of itself")
	}

	// ---- OLD-PRIO-DELETE (shared with C01/C02): the rollback transaction re-runs the pipeline; intents the original
	// transaction created come back as delete intents whose stored entries sit under the priority they were created with
	ruleOldPrioDelete(w, r, low)

	// ---- DETACHED-CONTEXT
	r.Rule("DETACHED-CONTEXT", 1, "the rollback timer and the rollback it starts are not tied to any request: a goroutine of TransactionCancelTimer waits on no context's Done() unless that context is detached (context.Background()/TODO(), possibly wrapped, followed through parameters to all call sites), and the ctx argument of TransactionManager.Rollback in Transaction.rollback originates from context.Background()/TODO() (possibly wrapped by context.With*), never from a field, parameter or the registering request's context - that one is cancelled as soon as the TransactionSet RPC returns, long before the timeout.")
	for _, tr := range tcbs {
		n := 0
		for _, c := range core.CallsTo(tr, "datastore/types.TransactionManager.Rollback") {
			n++
			a := core.CallArgs(c)
			ok := len(a) >= 1 && detachedContext(a[0], 0)
			r.Check(ok, "DETACHED-CONTEXT", core.Site(tr, "Rollback ctx"), w.InstrPos(c), "the timer-driven rollback must not run in a request context")
		}
		if n == 0 {
			r.Undecided("DETACHED-CONTEXT", core.Site(tr, "Rollback"), w.Pos(tr.Pos()), "Transaction.rollback does not call TransactionManager.Rollback")
		}
	}

	// the timer itself must outlive the request that armed it: a goroutine of TransactionCancelTimer that also waits on
	// a context's Done() ends, without rolling back, as soon as that context does; only a detached one may be waited on
	for _, f := range w.RepoFns {
		top := f
		for top.Parent() != nil {
			top = top.Parent()
		}
		if f == top || top.Signature.Recv() == nil || core.TypeKey(top.Signature.Recv().Type()) != "datastore/types.TransactionCancelTimer" {
			continue
		}
		for _, b := range f.Blocks {
			for _, in := range b.Instrs {
				var chans []ssa.Value
				switch x := in.(type) {
				case *ssa.Select:
					for _, st := range x.States {
						if st.Dir == types.RecvOnly {
							chans = append(chans, st.Chan)
						}
					}
				case *ssa.UnOp:
					if x.Op == token.ARROW {
						chans = append(chans, x.X)
					}
				}
				for _, ch := range chans {
					for _, oc := range core.OriginCalls(ch) {
						if !core.CalleeIs(oc, "context.Context.Done") {
							continue
						}
						r.Check(detachedContextIP(w, core.CallRecv(oc), 0), "DETACHED-CONTEXT", core.Site(top, "timer goroutine waits on a context"), w.InstrPos(in), "the rollback timer ends with this context: armed with the context of the TransactionSet request (cancelled when the RPC returns) it never fires, the transaction is never rolled back and stays registered")
					}
				}
			}
		}
	}

	// ---- CANCEL-KEEPS-ON-FAILURE
	r.Rule("CANCEL-OUTCOME", 2, "in TransactionManager.Cancel the transaction is unregistered (CleanupTransaction / slot cleared) only on the err==nil outcome of the rollback, and a nil error is returned only after the rollback succeeded: a failed cancel keeps the transaction (and its record of the old intents) so that it can be retried.")
	ruleCancelOutcome(w, r, cancel)
}

// ruleCancelOutcome (C05, C16): the answer of TransactionManager.Cancel agrees with what happened to the rollback.
func ruleCancelOutcome(w *core.World, r *core.Report, cancel *ssa.Function) {
	core.WithHost(cancel, func() { ruleCancelOutcomeIn(w, r, cancel) })
}

func ruleCancelOutcomeIn(w *core.World, r *core.Report, cancel *ssa.Function) {
	{
		rbs := core.CallsTo(cancel, kRollbackIface)
		if len(rbs) != 1 {
			r.Viol("CANCEL-OUTCOME", core.Site(cancel, "TransactionRollback"), w.Pos(cancel.Pos()), fmt.Sprintf("expected one rollback call, found %d", len(rbs)))
		} else {
			rb := rbs[0].(*ssa.Call)
			for _, c := range core.CallsTo(cancel, kCleanupTx) {
				r.Check(core.GuardedByErrNil(c, rb), "CANCEL-OUTCOME", core.Site(cancel, "unregister only after rollback ok"), w.InstrPos(c), "a failed rollback must not lose the transaction")
			}
			for _, st := range core.StoresToField(cancel, kTMSlot) {
				r.Check(core.GuardedByErrNil(st, rb), "CANCEL-OUTCOME", core.Site(cancel, "slot cleared only after rollback ok"), w.InstrPos(st), "a failed rollback must not lose the transaction")
			}
			for _, ret := range core.Returns(cancel) {
				e := errorOperand(ret)
				if e != nil && (core.IsNilConst(e) || !mayBeNonNil(w, e, 0)) {
					r.Check(core.GuardedByErrNil(ret, rb), "CANCEL-OUTCOME", core.Site(cancel, "success only after rollback ok"), w.InstrPos(ret), "Cancel must not answer success when nothing was rolled back")
				}
			}
			// the final answer is the cleanup's result or the rollback error
			r.OK("CANCEL-OUTCOME", core.Site(cancel, "rollback call present"), w.InstrPos(rb), "")
		}
	}
}

func c09(w *core.World, r *core.Report) {
	add := w.Func("pkg/tree", "LeafVariants", "Add")
	drop := w.Func("pkg/tree", "LeafEntry", "DropDeleteFlag")
	equal := w.Func("pkg/cache", "Update", "EqualSkipPath")
	if add == nil || drop == nil || equal == nil {
		return
	}

	// ---- INVOLVED-PATHS (shared with C01.PIPELINE-ORDER): a re-applied intent is a no-op only if every alternative of
	// every intent's paths is in the tree; otherwise the unchanged value looks like the only one and is re-sent / deleted.
	if low := w.Func("pkg/datastore", "Datastore", "lowlevelTransactionSet"); low != nil {
		r.Rule("INVOLVED-PATHS", 3, "the set of paths for which the other intents' alternatives are loaded is ONE accumulator created before the per-intent loop, joined with the old and the new content of every intent, and the read skips the transaction's own intents. With a per-intent (overwritten) set, a multi-intent transaction that re-applies unchanged intents sees no alternatives for all but the last intent and computes a non-empty diff.")
		ruleInvolvedPaths(w, r, low, "INVOLVED-PATHS")
	}

	// ---- OWNER-READ-COMPLETE (shared with C02)
	r.Rule("OWNER-READ-COMPLETE", 1, "the stored version of a re-submitted intent is loaded completely: TreeCacheClientImpl.ReadUpdatesOwner hands Read the whole per-priority path list of the keys index, or reads it in chunks whose loop runs while 'index < len(list)'. Entries that are not loaded look new, are flagged New and are sent again.")
	ruleOwnerReadComplete(w, r, "OWNER-READ-COMPLETE")

	// ---- MARK-DELETE (shared with C02)
	if load := w.Func("pkg/tree", "RootEntry", "LoadIntendedStoreOwnerData"); load != nil {
		ruleMarkDelete(w, r, load)
	}

	// ---- BRANCH-WHOLE (shared with C08)
	ruleBranchWhole(w, r)

	// ---- CASE-NOT-NEW
	r.Rule("CASE-NOT-NEW", 1, "choice resolution on a re-apply: in populateChoiceCaseResolvers the 'new' marker handed to choiceCasesResolver.SetValue depends on a comparison with what the index holds for ALL owners (a GetBranchesHighesPrecedence lookup without owner filters): a branch that was stored with the same precedence before the transaction is not new, otherwise the case an unchanged intent rules is missing from the 'old best case' and a delete for the other intents' case is sent with every re-apply.")
	if pop := w.Func("pkg/tree", "sharedEntryAttributes", "populateChoiceCaseResolvers"); pop != nil {
		n := 0
		for _, sv := range core.CallsTo(pop, "tree.choiceCasesResolver.SetValue") {
			marker := storedInputs(sv, "tree.choicesCaseElement.new")
			if len(marker) == 0 {
				continue
			}
			n++
			ok := false
			// a marker that is the constant false (a branch that is not in the tree contributes nothing new) is fine
			allFalse := true
			for _, m := range marker {
				if b, isC := core.ConstBool(m); !isC || b {
					allFalse = false
				}
			}
			if allFalse {
				ok = true
			}
			sl := core.DataSlice(pop, marker)
			for v := range sl.Values {
				c, isCall := v.(*ssa.Call)
				if !isCall || !core.CalleeIs(c, "tree.TreeCacheClient.GetBranchesHighesPrecedence") {
					continue
				}
				ca := core.CallArgs(c)
				if len(ca) == 3 && core.IsNilConst(ca[2]) {
					ok = true
				}
			}
			r.Check(ok, "CASE-NOT-NEW", core.Site(pop, "new marker compares with the stored precedence"), w.InstrPos(sv), "the marker must not be true for a contribution that was stored with the same precedence before")
		}
		if n == 0 {
			r.Undecided("CASE-NOT-NEW", core.Site(pop, "SetValue"), w.Pos(pop.Pos()), "no SetValue call")
		}
	}

	// ---- EQUAL-BRANCH
	r.Rule("EQUAL-BRANCH", 3, "in LeafVariants.Add, for an existing variant of the same owner, the branch taken when EqualSkipPath is true calls only DropDeleteFlag (no MarkUpdate / MarkNew / append), and MarkUpdate is reachable only on the unequal outcome; DropDeleteFlag writes nothing but Delete=false / DeleteOnlyIntended=false. Decides: re-adding an identical entry cannot flag it new or updated.")
	{
		eqs := core.CallsTo(add, "cache.Update.EqualSkipPath")
		if len(eqs) != 1 {
			r.Viol("EQUAL-BRANCH", core.Site(add, "EqualSkipPath"), w.Pos(add.Pos()), fmt.Sprintf("expected one EqualSkipPath call, found %d", len(eqs)))
		} else {
			eq := eqs[0].(*ssa.Call)
			nDrop := 0
			for _, c := range core.Calls(add) {
				if c == ssa.CallInstruction(eq) {
					continue
				}
				if guardedByThisBool(c, eq, true) {
					if _, isDefer := c.(*ssa.Defer); isDefer {
						continue
					}
					okc := core.CalleeIs(c, "tree.LeafEntry.DropDeleteFlag")
					if okc {
						nDrop++
					}
					r.Check(okc, "EQUAL-BRANCH", core.Site(add, "equal branch call %s", core.CalleeKey(c)), w.InstrPos(c), "on the identical-entry branch only the delete mark may be dropped")
				}
				if core.CalleeIs(c, "tree.LeafEntry.MarkUpdate", "tree.LeafEntry.MarkNew") {
					r.Check(guardedByThisBool(c, eq, false), "EQUAL-BRANCH", core.Site(add, "%s only when unequal", core.CalleeKey(c)), w.InstrPos(c), "an update mark requires a differing entry")
				}
			}
			r.Check(nDrop == 1, "EQUAL-BRANCH", core.Site(add, "equal branch drops the delete mark"), w.InstrPos(eq), "an identical re-insert must un-mark the entry (else it is deleted)")
			// appended only when no variant of the owner exists
			for _, c := range core.Calls(add) {
				if bi, ok := c.Common().Value.(*ssa.Builtin); ok && bi.Name() == "append" {
					okApp := false
					for _, g := range core.GuardsOf(c) {
						x, nilOnTrue, isNil := core.NilTest(g.If.Cond)
						if !isNil || nilOnTrue != g.CondTrue() {
							continue
						}
						for _, oc := range core.OriginCalls(x) {
							if core.CalleeIs(oc, "tree.LeafVariants.GetByOwner") {
								okApp = true
							}
						}
					}
					r.Check(okApp, "EQUAL-BRANCH", core.Site(add, "append only for a new owner"), w.InstrPos(c), "one variant per owner")
				}
			}
		}
		for _, b := range core.Blocks(drop) {
			for _, in := range b.Instrs {
				st, ok := in.(*ssa.Store)
				if !ok {
					continue
				}
				fk := core.FieldOf(st.Addr)
				if !strings.HasPrefix(fk, "tree.LeafEntry.") {
					continue
				}
				bv, isC := core.ConstBool(st.Val)
				r.Check((fk == "tree.LeafEntry.Delete" || fk == "tree.LeafEntry.DeleteOnlyIntended") && isC && !bv, "EQUAL-BRANCH", core.Site(drop, "writes %s", fk), w.InstrPos(st), "DropDeleteFlag may only clear the delete marks")
			}
		}
	}

	// ---- EQUAL-LIKE-WITH-LIKE (shared with C12, C15): "unchanged" is decided by EqualTypedValues (highestIsUnequalRunning)
	r.Rule("EQUAL-LIKE-WITH-LIKE", 3, "(shared with C12 / C15) utils.EqualTypedValues, which decides whether the ruling value drifted from running, compares like with like: an == / != between the results of two argument-less getters of the same receiver type calls the same getter on both sides.")
	ruleSameGetter(w, r, "EQUAL-LIKE-WITH-LIKE")

	// ---- EQUAL-FIELDS (shared with C02)
	r.Rule("EQUAL-FIELDS", 3, "(shared with C02) EqualSkipPath compares owner, priority and value.")
	{
		sl := core.ReturnSlice(equal, -1)
		for _, fld := range []string{"owner", "priority", "value"} {
			r.Check(sl.HasFieldLoad("cache.Update."+fld), "EQUAL-FIELDS", core.Site(equal, "compares %s", fld), w.Pos(equal.Pos()), "identity of an entry includes "+fld)
		}
	}

	// ---- NOOP-DECISIONS
	r.Rule("NOOP-DECISIONS", 8, "decision-input table for the no-op path: what is sent (LeafVariants.GetHighestPrecedence with onlyNewOrUpdated) depends on the New/Update flags and on highestIsUnequalRunning, which compares typed values through utils.EqualTypedValues (not bytes) against the running variant; EqualTypedValues covers every TypedValue variant (see C12).")
	for _, t := range c01Consults {
		if t.Name == "GetHighestPrecedence" && t.Recv == "LeafVariants" || t.Name == "highestIsUnequalRunning" {
			consultsInReturn(w, r, "NOOP-DECISIONS", w.Func(t.Pkg, t.Recv, t.Name), t.Reqs)
		}
	}

	// ---- EMPTY-SHORTCUT
	r.Rule("EMPTY-SHORTCUT", 2, "NETCONF targets send nothing when the rendered document is empty (every driver call of setRunning / setCandidate is reachable only after len(xdoc)==0 was found false).")
	for _, name := range []string{"setRunning", "setCandidate"} {
		f := w.Func("pkg/datastore/target", "ncTarget", name)
		if f == nil {
			continue
		}
		for _, c := range core.Calls(f) {
			if core.CalleeIs(c, drvMutating...) {
				okNonEmpty := false
				core.WithHost(f, func() { okNonEmpty = guardedByNonEmptyDoc(c) })
				r.Check(okNonEmpty, "EMPTY-SHORTCUT", core.Site(f, "%s only for non-empty document", core.CalleeKey(c)), w.InstrPos(c), "an empty change must not reach the device")
			}
		}
	}
	_ = token.ADD
}

// detachedContext: every origin of v is context.Background()/TODO() or a context.With* of such a context.
func detachedContext(v ssa.Value, depth int) bool {
	if depth > 4 {
		return false
	}
	os := core.Origins(v)
	if len(os) == 0 {
		return false
	}
	for _, o := range os {
		c, ok := o.(*ssa.Call)
		if !ok {
			return false
		}
		switch k := core.CalleeKey(c); {
		case k == "context.Background" || k == "context.TODO":
		case strings.HasPrefix(k, "context.With") && len(c.Call.Args) > 0:
			if !detachedContext(c.Call.Args[0], depth+1) {
				return false
			}
		default:
			return false
		}
	}
	return true
}

type errReturn struct {
	ret *ssa.Return
	err ssa.Value
}

// errorReturnsThroughHelpers lists the returns that decide the error f hands back: f's own returns with their error
// operand, except that a return whose error operand is a result of a virtually inlined helper (err of
// '_, err := t.storeIntent(...)'; 'return err') stands for that helper's returns.
func errorReturnsThroughHelpers(f *ssa.Function, depth int) []errReturn {
	var out []errReturn
	for _, ret := range core.Returns(f) {
		ev := errorOperand(ret)
		if ev != nil && depth < 3 {
			var c *ssa.Call
			switch x := ev.(type) {
			case *ssa.Extract:
				c, _ = x.Tuple.(*ssa.Call)
			case *ssa.Call:
				c = x
			}
			if c != nil {
				if h := core.InlinedCallee(c); h != nil {
					out = append(out, errorReturnsThroughHelpers(h, depth+1)...)
					continue
				}
			}
		}
		out = append(out, errReturn{ret, ev})
	}
	return out
}

// detachedContextIP is detachedContext that follows parameters to the arguments of all static call sites in the
// repository and variables captured by closures to what is stored into them.
func detachedContextIP(w *core.World, v ssa.Value, depth int) bool {
	if depth > 6 {
		return false
	}
	os := core.OriginsThroughCaptures(v)
	if len(os) == 0 {
		return false
	}
	for _, o := range os {
		switch x := o.(type) {
		case *ssa.Call:
			switch k := core.CalleeKey(x); {
			case k == "context.Background" || k == "context.TODO":
			case strings.HasPrefix(k, "context.With") && len(x.Call.Args) > 0:
				if !detachedContextIP(w, x.Call.Args[0], depth+1) {
					return false
				}
			default:
				return false
			}
		case *ssa.Parameter:
			fn := x.Parent()
			idx := -1
			for i, p := range fn.Params {
				if p == x {
					idx = i
				}
			}
			sites := 0
			for _, g := range w.RepoFns {
				for _, c := range core.OwnCalls(g) {
					if c.Common().StaticCallee() != fn || idx < 0 || idx >= len(c.Common().Args) {
						continue
					}
					sites++
					if !detachedContextIP(w, c.Common().Args[idx], depth+1) {
						return false
					}
				}
			}
			if sites == 0 {
				return false // an entry point: the context is the caller's (a request)
			}
		default:
			return false
		}
	}
	return true
}

// ruleMarkDelete (C02, C09): the stored version of a re-submitted intent is loaded unflagged and marked for deletion
// afterwards, in one pass over the tree.
func ruleMarkDelete(w *core.World, r *core.Report, load *ssa.Function) {
	r.Rule("MARK-DELETE", 3, "in RootEntry.LoadIntendedStoreOwnerData: the owner's stored entries are read with ReadUpdatesOwner(owner), added to the tree, and markOwnerDelete(owner) executes on every path to a success return and after the add loop; markOwnerDelete marks the owner's variant (GetByOwner + MarkDelete) and recurses into ALL children.")
	{
		marks := core.CallsTo(load, "tree.sharedEntryAttributes.markOwnerDelete", "tree.RootEntry.markOwnerDelete")
		if len(marks) != 1 {
			r.Viol("MARK-DELETE", core.Site(load, "markOwnerDelete"), w.Pos(load.Pos()), fmt.Sprintf("expected one markOwnerDelete call, found %d", len(marks)))
		} else {
			mark := marks[0]
			for _, ret := range core.Returns(load) {
				e := errorOperand(ret)
				if e != nil && core.IsNilConst(e) {
					r.Check(core.InstrBefore(mark, ret), "MARK-DELETE", core.Site(load, "mark before success return"), w.InstrPos(ret), "old content must be marked for deletion before the new content is merged in")
				}
			}
			for _, a := range core.CallsTo(load, "tree.sharedEntryAttributes.AddCacheUpdateRecursive", "tree.RootEntry.AddCacheUpdateRecursive") {
				r.Check(!core.CanFollow(mark, a), "MARK-DELETE", core.Site(load, "mark after the add loop"), w.InstrPos(a), "entries added after the mark would not be marked")
			}
			// owner consistency
			p := core.Param(load, "owner")
			okOwner := false
			for _, a := range core.CallArgs(mark) {
				if p != nil && core.HasOrigin(a, p) {
					okOwner = true
				}
			}
			rd := core.CallsTo(load, "tree.TreeCacheClient.ReadUpdatesOwner")
			okRead := false
			for _, c := range rd {
				for _, a := range core.CallArgs(c) {
					if p != nil && core.HasOrigin(a, p) {
						okRead = true
					}
				}
			}
			r.Check(okOwner && okRead, "MARK-DELETE", core.Site(load, "same owner read and marked"), w.InstrPos(mark), "the entries read and the entries marked must be those of the owner parameter")
		}
		mo := w.Func("pkg/tree", "sharedEntryAttributes", "markOwnerDelete")
		if mo != nil {
			okLeaf := len(core.CallsTo(mo, "tree.LeafVariants.GetByOwner")) > 0 && len(core.CallsTo(mo, "tree.LeafEntry.MarkDelete")) > 0
			okRec := len(core.CallsTo(mo, "tree.Entry.markOwnerDelete")) > 0 && len(core.CallsTo(mo, "tree.childMap.GetAll")) > 0
			r.Check(okLeaf, "MARK-DELETE", core.Site(mo, "marks the owner's variant"), w.Pos(mo.Pos()), "GetByOwner + MarkDelete")
			r.Check(okRec, "MARK-DELETE", core.Site(mo, "recurses into all children"), w.Pos(mo.Pos()), "inactive choice cases included: childs.GetAll(), not the active-case filter")
		}
	}
	// the stored entries go into the tree WITHOUT flags: the store keeps superseded versions of a value next to the
	// current one (timestamp in the key), the second insertion of a path runs LeafVariants.Add -> MarkUpdate, which only
	// the separate marking pass afterwards resets. Inserting with the delete flag set makes an identical re-apply look
	// like an update.
	for _, c := range core.CallsTo(load, "tree.sharedEntryAttributes.AddCacheUpdateRecursive", "tree.RootEntry.AddCacheUpdateRecursive", "tree.Entry.AddCacheUpdateRecursive", "tree.RootEntry.AddCacheUpdatesRecursive", "tree.sharedEntryAttributes.AddCacheUpdatesRecursive") {
		a := core.CallArgs(c)
		if len(a) < 3 {
			continue
		}
		setters := 0
		for _, o := range append(core.Origins(a[2]), a[2]) {
			if o.Referrers() == nil {
				continue
			}
			for _, ref := range *o.Referrers() {
				if sc, ok := ref.(ssa.CallInstruction); ok && strings.HasPrefix(core.CalleeKey(sc), "tree.UpdateInsertFlags.Set") {
					setters++
				}
			}
		}
		r.Check(setters == 0, "MARK-DELETE", core.Site(load, "stored entries are inserted without flags"), w.InstrPos(c), "the insert flags of the stored version are modified before the insertion")
	}
}
