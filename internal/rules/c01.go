package rules

import (
	"fmt"
	"go/constant"
	"go/types"
	"strings"

	"golang.org/x/tools/go/ssa"

	"verif/internal/core"
)

func init() { Registry["C01"] = c01 }

const (
	kReqGetPriority = "github.com/sdcio/sdc-protos/sdcpb.TransactionIntent.GetPriority"
	kTIGetPriority  = "datastore/types.TransactionIntent.GetPriority"
	kTIGetName      = "datastore/types.TransactionIntent.GetName"
)

// priorityFlow computes where the priority of a request's intent can flow.
func priorityFlow(w *core.World) (*core.Flow, int) {
	conv := w.Func("pkg/datastore", "Datastore", "SdcpbTransactionIntentToInternalTI")
	fl := w.NewFlow()
	n := 0
	for _, c := range core.CallsTo(conv, kReqGetPriority) {
		if v := c.Value(); v != nil {
			fl.AddSource(v)
			n++
		}
	}
	return fl.Run(), n
}

// intendedModifies returns the Modify(INTENDED) calls of fn.
func intendedModifies(fn *ssa.Function) []ssa.CallInstruction {
	var out []ssa.CallInstruction
	for _, m := range core.CallsTo(fn, kModify) {
		if modifyStore(m) == "INTENDED" {
			out = append(out, m)
		}
	}
	return out
}

// decision tables (CONSULTS): which inputs the delete / precedence decisions must depend on.
var c01Consults = []struct {
	Pkg, Recv, Name string
	Reqs            []consult
}{
	{"pkg/tree", "sharedEntryAttributes", "shouldDelete", []consult{
		{Calls: []string{"tree.LeafVariants.shouldDelete"}, Why: "a leaf is deleted when all its intent variants are"},
		{Calls: []string{"tree.LeafVariants.canDelete"}, Why: "a presence container carries its own per-owner value: it must not be deleted while another owner still defines it, even if all children go"},
		{Calls: []string{"tree.Entry.canDelete"}, Why: "a container is deleted only if every active child can be"},
		{Calls: []string{"tree.Entry.shouldDelete"}, Why: "an explicit delete is issued only if some child is explicitly deleted"},
		{Calls: []string{"tree.sharedEntryAttributes.filterActiveChoiceCaseChilds"}, Why: "only the active choice case counts"},
	}},
	{"pkg/tree", "sharedEntryAttributes", "canDelete", []consult{
		{Calls: []string{"tree.LeafVariants.canDelete"}, Why: "own variants"},
		{Calls: []string{"tree.Entry.canDelete"}, Why: "children"},
	}},
	{"pkg/tree", "sharedEntryAttributes", "remainsToExist", []consult{
		{Calls: []string{"tree.LeafVariants.remainsToExist"}, Why: "own variants"},
		{Calls: []string{"tree.Entry.remainsToExist"}, Why: "children"},
		{Calls: []string{"tree.choiceCasesResolvers.remainsToExist"}, Why: "an active choice case keeps the container"},
	}},
	{"pkg/tree", "LeafVariants", "canDelete", []consult{
		{Calls: []string{"tree.LeafEntry.GetDeleteFlag"}, Why: "variants not marked for deletion keep the leaf"},
		{Calls: []string{"tree.LeafEntry.GetDeleteOnlyIntendedFlag"}, Why: "orphan-deleted variants must not delete on the device"},
		{Calls: []string{"cache.Update.Owner"}, Why: "running and default variants do not count as intent content"},
	}},
	{"pkg/tree", "LeafVariants", "shouldDelete", []consult{
		{Calls: []string{"tree.LeafEntry.GetDeleteFlag"}, Why: "only if every intent variant is marked for deletion"},
		{Calls: []string{"tree.LeafEntry.GetDeleteOnlyIntendedFlag"}, Why: "orphan delete"},
		{Calls: []string{"cache.Update.Owner"}, Why: "running/default excluded"},
	}},
	{"pkg/tree", "LeafVariants", "remainsToExist", []consult{
		{Calls: []string{"tree.LeafEntry.GetDeleteFlag"}, Why: "a variant without delete flag remains"},
	}},
	{"pkg/tree", "LeafVariants", "GetHighestPrecedence", []consult{
		{Calls: []string{"cache.Update.Priority"}, Why: "precedence is the numerically lowest priority"},
		{Calls: []string{"tree.LeafVariants.shouldDelete"}, Why: "a leaf that is being deleted has no update"},
		{Calls: []string{"tree.LeafEntry.GetDeleteFlag"}, Why: "a ruler marked for deletion hands over to the next variant"},
		{Calls: []string{"tree.LeafEntry.GetNewFlag"}, Why: "new values are sent"},
		{Calls: []string{"tree.LeafEntry.GetUpdateFlag"}, Why: "updated values are sent"},
		{Calls: []string{"tree.LeafVariants.highestIsUnequalRunning"}, Why: "a ruler that differs from the device value is (re)sent"},
		{Calls: []string{"cache.Update.Owner"}, Why: "defaults / running are not sent as intent content"},
	}},
	{"pkg/tree", "LeafVariants", "highestIsUnequalRunning", []consult{
		{Calls: []string{"utils.EqualTypedValues"}, Why: "values are compared as typed values (normalised), not as bytes"},
		{Calls: []string{"tree.LeafVariants.GetByOwner"}, Why: "the device value is the running variant"},
	}},
	{"pkg/tree", "LeafVariants", "GetHighestPrecedenceValue", []consult{
		{Calls: []string{"cache.Update.Priority"}, Why: "branch precedence"},
		{Calls: []string{"tree.LeafEntry.GetDeleteFlag"}, Why: "variants being deleted do not count"},
	}},
	{"pkg/tree", "sharedEntryAttributes", "getRegularDeletes", []consult{
		{Calls: []string{"tree.sharedEntryAttributes.shouldDelete"}, Why: "delete decision"},
		{Calls: []string{"tree.sharedEntryAttributes.IsRoot"}, Why: "the root is never deleted"},
		{Calls: []string{"tree.sharedEntryAttributes.GetSchemaKeys"}, Why: "list containers are deleted per entry"},
		{Calls: []string{"tree.choiceCasesResolver.getOldBestCaseName"}, Why: "the previously active case must be deleted when the winner changes"},
		{Calls: []string{"tree.choiceCasesResolver.getBestCaseName"}, Why: "new winner"},
	}},
	{"pkg/tree", "sharedEntryAttributes", "getAggregatedDeletes", []consult{
		{Calls: []string{"tree.Entry.shouldDelete"}, Why: "a list entry is deleted as a whole only when all key leaves go"},
		{Calls: []string{"tree.Entry.GetSchemaKeys", "tree.sharedEntryAttributes.GetSchemaKeys"}, Why: "key names"},
	}},
}

func c01(w *core.World, r *core.Report) {
	low := w.Func("pkg/datastore", "Datastore", "lowlevelTransactionSet")
	expand := w.Func("pkg/datastore", "Datastore", "expandAndConvertIntent")
	if low == nil || expand == nil {
		return
	}
	ruleNoSplitOfJoin(w, r)

	// ---- PRIO-FLOW
	r.Rule("PRIO-FLOW", 2, "value flow (field-based, interprocedural): the priority of the request's intent (sdcpb.TransactionIntent.GetPriority in SdcpbTransactionIntentToInternalTI) reaches Opts.Priority of the per-intent Modify(INTENDED) in lowlevelTransactionSet and the priority argument of cache.NewUpdate in expandAndConvertIntent. Absence of a flow is definite: the stored precedence could not depend on the request.")
	fl, nsrc := priorityFlow(w)
	if nsrc == 0 {
		r.Viol("PRIO-FLOW", "source sdcpb.TransactionIntent.GetPriority", "", "the request priority is never read")
	}
	nMain := 0
	for _, m := range intendedModifies(low) {
		owner, _ := optsField(m, "Owner")
		prio, _ := optsField(m, "Priority")
		isNew := false
		for _, oc := range core.OriginCalls(prio) {
			if core.CalleeIs(oc, kTIGetPriority) {
				isNew = true
			}
		}
		_ = owner
		if m.Common().Args[len(m.Common().Args)-1] != nil && !core.IsNilConst(core.CallArgs(m)[4]) {
			// the Modify that writes updates
			nMain++
			r.Check(prio != nil && fl.Reaches(prio), "PRIO-FLOW", core.Site(low, "Modify(INTENDED) updates Opts.Priority"), w.InstrPos(m), "the priority under which an intent is persisted must flow from the request")
		}
		_ = isNew
	}
	if nMain == 0 {
		r.Viol("PRIO-FLOW", core.Site(low, "Modify(INTENDED) updates Opts.Priority"), w.Pos(low.Pos()), "no Modify(INTENDED) that writes updates")
	}
	for _, c := range core.CallsTo(expand, "cache.NewUpdate") {
		args := core.CallArgs(c)
		r.Check(len(args) == 5 && fl.Reaches(args[2]), "PRIO-FLOW", core.Site(expand, "cache.NewUpdate priority"), w.InstrPos(c), "the priority of the tree entries of a new intent must flow from the request")
	}

	// ---- LOOKAHEAD
	r.Rule("LOOKAHEAD", 1, "the number of alternatives loaded per involved path (count argument of ReadCurrentUpdatesHighestPriorities) must not be a compile-time constant independent of the number of intents the transaction removes: entries of the transaction's own intents are filtered out after the top-count read, so with a constant K a transaction naming the K highest owners of a path never sees the (K+1)-th, which must rule afterwards.")
	for _, c := range core.CallsTo(low, "tree.TreeCacheClient.ReadCurrentUpdatesHighestPriorities") {
		args := core.CallArgs(c)
		if len(args) != 3 {
			continue
		}
		cval, isConst := core.ConstInt(args[2])
		if cv, ok := args[2].(*ssa.Convert); ok {
			cval, isConst = core.ConstInt(cv.X)
		}
		r.Check(!isConst, "LOOKAHEAD", core.Site(low, "count=%d", cval), w.InstrPos(c), "alternatives are read with a constant depth; a transaction that removes that many top owners of a path deletes the path on the device although a further owner still defines it (reproduced: A(10),B(20),C(30), delete A+B => device delete)")
	}

	// ---- PIPELINE-ORDER
	r.Rule("PIPELINE-ORDER", 10, "stage order of lowlevelTransactionSet on every CFG path: per intent LoadIntendedStoreOwnerData and AddIntentContent(old) dominate AddCacheUpdatesRecursive; no intent is added after the alternatives/running were loaded; loadIntendedStoreHighestPrio and populateTreeWithRunning dominate FinishInsertionPhase, which dominates Validate, which dominates GetHighestPrecedence/GetDeletes, which dominate applyIntent; the set of involved paths is one accumulator that receives old and new content of every intent.")
	{
		L := firstCall(low, "tree.RootEntry.LoadIntendedStoreOwnerData")
		S := firstCall(low, "datastore/types.Transaction.AddIntentContent")
		A := firstCall(low, "tree.RootEntry.AddCacheUpdatesRecursive")
		// the two loaders are known by the store reads they wrap (the helpers around them are part of the pipeline)
		H := firstCall(low, "tree.TreeCacheClient.ReadCurrentUpdatesHighestPriorities")
		R := firstCall(low, "tree.TreeCacheClient.ReadRunningFull")
		F := firstCall(low, "tree.sharedEntryAttributes.FinishInsertionPhase", "tree.RootEntry.FinishInsertionPhase")
		V := firstCall(low, "tree.RootEntry.Validate")
		G := firstCall(low, "tree.RootEntry.GetHighestPrecedence")
		D := firstCall(low, "tree.RootEntry.GetDeletes")
		P := firstCall(low, kApplyIntent)
		checkOrder(w, r, "PIPELINE-ORDER", low, L, A, "load+mark old owner data before adding the new content")
		checkOrder(w, r, "PIPELINE-ORDER", low, S, A, "snapshot old content before adding the new content")
		checkOrder(w, r, "PIPELINE-ORDER", low, H, F, "alternatives loaded before FinishInsertionPhase")
		checkOrder(w, r, "PIPELINE-ORDER", low, R, F, "running loaded before FinishInsertionPhase")
		checkOrder(w, r, "PIPELINE-ORDER", low, F, V, "FinishInsertionPhase before Validate")
		checkOrder(w, r, "PIPELINE-ORDER", low, V, G, "Validate before computing the updates")
		checkOrder(w, r, "PIPELINE-ORDER", low, F, D, "FinishInsertionPhase before computing the deletes")
		checkOrder(w, r, "PIPELINE-ORDER", low, G, P, "updates computed before apply")
		checkOrder(w, r, "PIPELINE-ORDER", low, D, P, "deletes computed before apply")
		if A != nil && H != nil && R != nil {
			r.Check(!core.CanFollow(H, A) && !core.CanFollow(R, A), "PIPELINE-ORDER", core.Site(low, "no intent content added after alternatives/running"), w.InstrPos(A), "intent content must be complete before alternatives and running are loaded")
		}
		ruleInvolvedPaths(w, r, low, "PIPELINE-ORDER")
	}

	// ---- OLD-PRIO-DELETE (shared with C02): a version left under the old priority stays live for the merge
	ruleOldPrioDelete(w, r, low)

	// ---- CASE-ALTERNATIVES-LOADED (shared with C08)
	r.Rule("CASE-ALTERNATIVES-LOADED", 1, "value flow: some read of stored intent content takes its paths from the member names of a choice; otherwise the values of a case that becomes the winning one through another intent's removal or re-prioritisation are not in the tree and the device does not get the highest-precedence live value for those paths.")
	ruleCaseAlternativesLoaded(w, r, "CASE-ALTERNATIVES-LOADED")

	// ---- APPLY-SENDS (shared with C03)
	r.Rule("APPLY-SENDS", 2, "Datastore.applyIntent returns success only after target.Target.Set was called with the tree it was given: the computed deletes and updates reach the device whenever the stores are rewritten.")
	ruleApplySends(w, r, "APPLY-SENDS")

	// ---- SINGLE-WRITER
	r.Rule("SINGLE-WRITER", 3, "who-may-call over the whole repository: target.Target.Set only from Datastore.applyIntent; applyIntent only from lowlevelTransactionSet and replaceIntent; cache.Client.Modify with Store_INTENDED only from lowlevelTransactionSet.")
	for _, c := range w.CallersOfKey(kTargetSet) {
		f := c.Parent()
		if strings.Contains(core.FuncKey(f), "mocks/") {
			continue
		}
		r.Check(core.HostsIn(f, kApplyIntent), "SINGLE-WRITER", core.Site(f, "call target.Set"), w.InstrPos(c), "the device is written in one place only")
	}
	for _, c := range w.CallersOfKey(kApplyIntent) {
		f := c.Parent()
		r.Check(core.HostsIn(f, kLowlevel, kReplaceIntent), "SINGLE-WRITER", core.Site(f, "call applyIntent"), w.InstrPos(c), "applyIntent is called by the transaction pipeline only")
	}
	for _, f := range w.RepoFns {
		for _, m := range intendedModifies(f) {
			if m.Parent() != f {
				continue
			}
			r.Check(core.HostsIn(f, kLowlevel), "SINGLE-WRITER", core.Site(f, "Modify(INTENDED)"), w.InstrPos(m), "the intended store is written by the transaction pipeline only")
		}
	}

	// ---- DELETE-PAIR
	r.Rule("DELETE-PAIR", 1, "the two representations of a synthetic delete (sdcpb.Path for the device, path slice for the stores) handed to NewDeleteEntryImpl depend on the same inputs: both must depend on the name of the deactivated case.")
	for _, f := range w.RepoFns {
		for _, c := range core.OwnCallsTo(f, "tree.NewDeleteEntryImpl") {
			args := core.CallArgs(c)
			if len(args) != 2 {
				continue
			}
			s0 := core.DataSlice(f, []ssa.Value{args[0]})
			s1 := core.DataSlice(f, []ssa.Value{args[1]})
			name := "tree.choiceCasesResolver.getOldBestCaseName"
			r.Check(s0.HasCallTo(name) == s1.HasCallTo(name) && s1.HasCallTo(name), "DELETE-PAIR", core.Site(f, "NewDeleteEntryImpl"), w.InstrPos(c), "device path and store path of the delete must both address the old case (device path depends on it: "+fmt.Sprint(s0.HasCallTo(name))+")")
		}
	}

	// ---- DEVICE-ONLY-KEPT
	r.Rule("DEVICE-ONLY-KEPT", 1, "a leaf that holds nothing but the device's own value (the running variant) is not deletable: LeafVariants.canDelete has a 'false' answer that is given on the outcome 'owner == RunningIntentName' of a comparison. Without it a container whose other leaves an intent gives up is deleted as a whole, together with leaves no intent ever defined.")
	if cd := w.Func("pkg/tree", "LeafVariants", "canDelete"); cd != nil {
		ok := false
		for _, ret := range core.EffectiveReturns(cd) {
			vals := core.ReturnValues(ret)
			if len(vals) != 1 {
				continue
			}
			mayFalse := false
			for _, o := range append(core.Origins(vals[0]), vals[0]) {
				if b, isC := core.ConstBool(o); isC && !b {
					mayFalse = true
				}
			}
			if !mayFalse {
				continue
			}
			for _, a := range core.GuardAtoms(ret) {
				x, y, eqOnTrue, isEq := core.EqTest(a.Cond)
				if !isEq || eqOnTrue != a.True {
					continue
				}
				for _, side := range []ssa.Value{x, y} {
					if sv, isS := core.ConstString(side); isS && sv == "running" {
						ok = true
					}
				}
			}
		}
		r.Check(ok, "DEVICE-ONLY-KEPT", core.Site(cd, "false for a running-only leaf"), w.Pos(cd.Pos()), "no 'false' answer of canDelete is tied to the variant being the running one: device-only leaves become deletable")
	}

	// ---- ORIENT
	r.Rule("ORIENT", 8, "every ordered comparison that selects the value kept in a precedence accumulator keeps the numerically lower priority (LeafVariants.GetHighestPrecedence / GetHighestPrecedenceValue, UpdateSlice.GetLowestPriorityValue, choicesCase.GetLowestPriorityValue(Old), getHighestPrecedenceValueOfBranch, getBestCaseName / getOldBestCaseName, populateChoiceCaseResolvers).")
	for _, t := range []struct{ pkg, recv, name string }{
		{"pkg/tree", "LeafVariants", "GetHighestPrecedence"},
		{"pkg/tree", "LeafVariants", "GetHighestPrecedenceValue"},
		{"pkg/tree", "UpdateSlice", "GetLowestPriorityValue"},
		{"pkg/tree", "choicesCase", "GetLowestPriorityValue"},
		{"pkg/tree", "choicesCase", "GetLowestPriorityValueOld"},
		{"pkg/tree", "sharedEntryAttributes", "getHighestPrecedenceValueOfBranch"},
		{"pkg/tree", "choiceCasesResolver", "getBestCaseName"},
		{"pkg/tree", "choiceCasesResolver", "getOldBestCaseName"},
		{"pkg/tree", "TreeCacheClientImpl", "GetBranchesHighesPrecedence"},
	} {
		fn := w.Func(t.pkg, t.recv, t.name)
		if n := checkMinSelection(w, r, "ORIENT", fn); n == 0 && fn != nil {
			r.Viol("ORIENT", core.Site(fn, "selection"), w.Pos(fn.Pos()), "no ordered comparison selects the accumulator any more: the minimum selection is gone")
		}
	}

	// ---- ALL-ACTORS-EXCLUDED (shared with C08): precedence among the cases of a choice
	if pop := w.Func("pkg/tree", "sharedEntryAttributes", "populateChoiceCaseResolvers"); pop != nil {
		r.Rule("ALL-ACTORS-EXCLUDED", 4, "(shared with C08) below a choice the winner is selected among the live intents only: the stored (about to be replaced) content of EVERY intent of the transaction is kept out of the index lookup that feeds the case priorities - one exclude filter per acting owner, or one filter rejecting an update of any of them. With an any/all mix-up a transaction of two intents excludes nothing and an intent that changes case is beaten by its own stale entry.")
		ruleAllActorsExcluded(w, r, pop, low)
	}

	// ---- CONSULTS
	r.Rule("CONSULTS", 30, "decision-input table: the result of each delete / precedence decision function has, in its backward slice (data + control dependence, repository callees followed to depth 2), every input listed for it (frozen table, one reason per input). Decides: no input of these decisions was dropped; not that they are combined correctly.")
	for _, t := range c01Consults {
		consultsInReturn(w, r, "CONSULTS", w.Func(t.Pkg, t.Recv, t.Name), t.Reqs)
	}
}

// intentTypeConst: the value of a TransactionIntentType constant of package datastore/types (-1: not found).
func intentTypeConst(w *core.World, name string) int64 {
	p := w.Pkg("pkg/datastore/types")
	if p == nil {
		return -1
	}
	if c, ok := p.Pkg.Scope().Lookup(name).(*types.Const); ok {
		if v, exact := constant.Int64Val(c.Val()); exact {
			return v
		}
	}
	return -1
}

// ruleInvolvedPaths: the set of paths for which alternatives are loaded is one accumulator over all intents
// (shared by C01.PIPELINE-ORDER and C09.INVOLVED-PATHS).
func ruleInvolvedPaths(w *core.World, r *core.Report, low *ssa.Function, rule string) {
	H := firstCall(low, "tree.TreeCacheClient.ReadCurrentUpdatesHighestPriorities")
	// the paths the alternatives are read for come from ONE PathSet made before the loop, joined with old and new content
	if H != nil {
		args := core.CallArgs(H)
		// the sources of the path list: path sets (tree.NewPathSet joined with others, UpdateSlice.ToPathSet of the
		// old / new content, Transaction.GetPathSet(Old / New)), followed through Join and GetPaths
		var acc *ssa.Call
		single := true
		joinedOld, joinedNew := false, false
		seen := map[ssa.Value]bool{}
		perIteration := false
		var visit func(v ssa.Value, d int, base bool)
		visit = func(v ssa.Value, d int, base bool) {
			if d > 5 {
				return
			}
			for _, o := range core.Origins(v) {
				if seen[o] {
					continue
				}
				seen[o] = true
				c, ok := o.(*ssa.Call)
				switch {
				case core.IsNilConst(o):
					// the nil a helper returns next to its error
					continue
				case ok && core.CalleeIs(c, "tree.PathSet.GetPaths"):
					visit(core.CallRecv(c), d+1, base)
					continue
				case ok && core.CalleeIs(c, "tree.NewPathSet"):
				case ok && core.CalleeIs(c, "tree.UpdateSlice.ToPathSet"):
					for _, o2 := range core.OriginCalls(core.CallRecv(c)) {
						if core.CalleeIs(o2, "tree.RootEntry.LoadIntendedStoreOwnerData") {
							joinedOld = true
						}
						if core.CalleeIs(o2, "datastore/types.TransactionIntent.GetUpdates") {
							joinedNew = true
						}
					}
				case ok && core.CalleeIs(c, "datastore/types.Transaction.GetPathSet"):
					// the transaction keeps the old and the new content of all its intents
					if ca := core.CallArgs(c); len(ca) == 1 {
						if k, isC := ca[0].(*ssa.Const); isC && k.Value != nil {
							switch k.Int64() {
							case intentTypeConst(w, "TransactionIntentOld"):
								joinedOld = true
							case intentTypeConst(w, "TransactionIntentNew"):
								joinedNew = true
							}
						}
					}
				default:
					single = false
					continue
				}
				if acc == nil {
					acc = c
				}
				// the set the read is made for must collect over ALL intents: a base set that is (re)made inside the
				// per-intent loop holds the paths of the last intent only
				if base && core.OnCycle(c) {
					perIteration = true
				}
				// what is joined into this set before the read
				for _, j := range core.CallsTo(low, "tree.PathSet.Join") {
					if !core.HasOrigin(core.CallRecv(j), c) {
						continue
					}
					if !core.InstrBefore(j, H) && !core.CanFollow(j, H) {
						continue
					}
					if ja := core.CallArgs(j); len(ja) == 1 {
						visit(ja[0], d+1, false)
					}
				}
			}
		}
		if len(args) >= 2 {
			visit(args[1], 0, true)
		}
		r.Check(acc != nil && single && !perIteration, rule, core.Site(low, "involved paths accumulator"), w.InstrPos(H), "the involved paths the alternatives are read for must be path sets built from the content of ALL the transaction's intents (one tree.NewPathSet made before the per-intent loop and joined with them, or Transaction.GetPathSet): not a set that is re-made per intent")
		if acc != nil {
			r.Check(joinedOld, rule, core.Site(low, "involved paths include old content"), w.InstrPos(H), "paths of the owner's previous content must be joined into the involved paths (a shrunk/deleted intent uncovers shadowed values there)")
			r.Check(joinedNew, rule, core.Site(low, "involved paths include new content"), w.InstrPos(H), "paths of the new content must be joined into the involved paths")
			// skip list: the transaction's own intents
			if len(args) >= 5 {
				ok := false
				for _, oc := range core.OriginCalls(args[4]) {
					if core.CalleeIs(oc, "datastore/types.Transaction.GetIntentNames") {
						ok = true
					}
				}
				r.Check(ok, rule, core.Site(low, "alternatives skip the transaction's intents"), w.InstrPos(H), "stored entries of the intents being changed must not be re-loaded as alternatives")
			}
		}
	}

}
