package rules

import (
	"fmt"
	"go/token"
	"go/types"
	"os"
	"sort"
	"strings"

	"golang.org/x/tools/go/ssa"

	"verif/internal/core"
)

// mayReturnNilPtr: some return of f (pointer result idx) is the nil constant, directly or through a phi.
func mayReturnNilPtr(f *ssa.Function, idx int) bool {
	if f == nil || f.Blocks == nil {
		return false
	}
	for _, ret := range core.Returns(f) {
		rv := core.ReturnValues(ret)
		if idx >= len(rv) {
			continue
		}
		for _, o := range core.Origins(rv[idx]) {
			if core.IsNilConst(o) {
				return true
			}
		}
	}
	return false
}

// c20TypedNil (K7): a nil pointer converted to an interface is a non-nil interface. A function with an interface
// result must not return MakeInterface(p) where p is a pointer that may be nil (a nil constant, or the result of a
// repository function that has a 'return nil'), unless the conversion is dominated by a nil test of p: callers test
// the interface against nil and then call methods on it.
func c20TypedNil(w *core.World, r *core.Report, scope map[*ssa.Function]bool) int {
	n := 0
	for f := range scope {
		for _, ret := range core.Returns(f) {
			for ri, rv := range core.ReturnValues(ret) {
				if _, isIface := rv.Type().Underlying().(interface{ NumMethods() int }); !isIface {
					continue
				}
				for _, o := range core.Origins(rv) {
					// Origins looks through MakeInterface: find the MakeInterface instructions feeding this result
					_ = o
				}
				var mis []*ssa.MakeInterface
				seen := map[ssa.Value]bool{}
				var walk func(v ssa.Value)
				walk = func(v ssa.Value) {
					if v == nil || seen[v] {
						return
					}
					seen[v] = true
					switch x := v.(type) {
					case *ssa.MakeInterface:
						mis = append(mis, x)
					case *ssa.Phi:
						for _, e := range x.Edges {
							walk(e)
						}
					case *ssa.UnOp:
						if a, ok := x.X.(*ssa.Alloc); ok {
							for _, ref := range *a.Referrers() {
								if st, ok := ref.(*ssa.Store); ok && st.Addr == ssa.Value(a) {
									walk(st.Val)
								}
							}
						}
					}
				}
				walk(rv)
				for _, mi := range mis {
					if !strings.HasPrefix(mi.X.Type().String(), "*") {
						continue
					}
					why := ""
					for _, o := range core.Origins(mi.X) {
						if core.IsNilConst(o) {
							why = "a nil pointer constant"
						}
						if c, ok := o.(*ssa.Call); ok {
							if g := c.Call.StaticCallee(); g != nil && g.Pkg != nil && strings.HasPrefix(core.PkgPath(g), core.Module) {
								idx := 0
								if ex, isEx := mi.X.(*ssa.Extract); isEx {
									idx = ex.Index
								}
								if mayReturnNilPtr(g, idx) {
									why = "the result of " + core.FuncKey(g) + ", which can return nil"
								}
							}
						}
					}
					if why == "" {
						continue
					}
					n++
					guarded := nilGuarded(mi, mi.X) || okGuarded(mi) || errGuarded(mi)
					r.Check(guarded, "TYPED-NIL", core.Site(f, "result %d converts %s to an interface", ri, mi.X.Type()), w.InstrPos(mi), "a possibly nil pointer ("+why+") becomes a non-nil interface value: the caller's '== nil' test does not fire and the following method call dereferences nil")
				}
			}
		}
	}
	return n
}

// c20ExpandProgress (K8): ConvertNotificationTypedValues calls itself on the result of ExpandUpdate for a JSON blob on
// a container. The recursion ends only if the expansion never hands the blob back: in the container branch of
// ExpandUpdate (after the JSON document was decoded) the input update must not be an element of the returned slice.
func c20ExpandProgress(w *core.World, r *core.Report) {
	exp := w.Func("pkg/utils", "Converter", "ExpandUpdate")
	conv := w.Func("pkg/utils", "Converter", "ConvertNotificationTypedValues")
	if exp == nil || conv == nil {
		return
	}
	rec := false
	for _, c := range core.CallsTo(conv, "utils.Converter.ConvertNotificationTypedValues") {
		for _, a := range core.CallArgs(c) {
			sl := core.DataSlice(conv, []ssa.Value{a})
			if sl.HasCallTo("utils.Converter.ExpandUpdate") {
				rec = true
			}
		}
	}
	if !rec {
		r.OK("EXPAND-PROGRESS", core.Site(conv, "no recursion on the expansion"), w.Pos(conv.Pos()), "ConvertNotificationTypedValues does not call itself on ExpandUpdate's result")
		return
	}
	upd := core.Param(exp, "upd")
	decs := core.CallsTo(exp, "encoding/json.Decoder.Decode")
	if upd == nil || len(decs) == 0 {
		r.Undecided("EXPAND-PROGRESS", core.Site(exp, "container branch"), w.Pos(exp.Pos()), "cannot identify the JSON decode of the container branch")
		return
	}
	bad := false
	for _, b := range core.Blocks(exp) {
		for _, in := range b.Instrs {
			st, ok := in.(*ssa.Store)
			if !ok {
				continue
			}
			if _, isElem := st.Addr.(*ssa.IndexAddr); !isElem || !core.HasOrigin(st.Val, upd) {
				continue
			}
			for _, d := range decs {
				if core.InstrBefore(d, st) {
					bad = true
					r.Viol("EXPAND-PROGRESS", core.Site(exp, "container branch returns its input"), w.InstrPos(st), "after decoding the JSON blob of a container the input update itself is put into the result: ConvertNotificationTypedValues expands it again, without end (stack overflow on a device message)")
				}
			}
		}
	}
	if !bad {
		r.OK("EXPAND-PROGRESS", core.Site(exp, "container branch never returns its input"), w.Pos(exp.Pos()), "")
	}
}

// c20ExpandProgressKinds (K8b): for a leaf or a leaf-list ExpandUpdate hands its input back (there is nothing to
// expand), so the recursion of ConvertNotificationTypedValues ends for those kinds only because the conversion step
// (the callee whose nil result guards the call of ExpandUpdate) never answers (nil, nil) for an update that carries a
// value: it converts or reports an error. The rule finds the step structurally and demands, for every 'return nil,
// nil' of it that lies on the "schema is a leaf-list" / "schema is a leaf" outcome, a dominating 'value == nil'
// outcome (no value -> no JSON blob -> no expansion).
func c20ExpandProgressKinds(w *core.World, r *core.Report) {
	exp := w.Func("pkg/utils", "Converter", "ExpandUpdate")
	conv := w.Func("pkg/utils", "Converter", "ConvertNotificationTypedValues")
	if exp == nil || conv == nil {
		return
	}
	// kinds for which ExpandUpdate puts its input into the result without a preceding JSON decode of a container
	upd := core.Param(exp, "upd")
	handsBack := map[string]bool{}
	if upd != nil {
		decs := core.CallsTo(exp, "encoding/json.Decoder.Decode")
		for _, b := range core.Blocks(exp) {
			for _, in := range b.Instrs {
				st, ok := in.(*ssa.Store)
				if !ok {
					continue
				}
				if _, isElem := st.Addr.(*ssa.IndexAddr); !isElem || !core.HasOrigin(st.Val, upd) {
					continue
				}
				after := false
				for _, d := range decs {
					if core.InstrBefore(d, st) {
						after = true
					}
				}
				if after {
					continue
				}
				for _, a := range core.GuardAtoms(st) {
					if !a.True {
						continue
					}
					for _, o := range append(core.Origins(a.Cond), a.Cond) {
						var t types.Type
						switch x := o.(type) {
						case *ssa.TypeAssert:
							t = x.AssertedType
						case *ssa.Extract:
							if ta, ok := x.Tuple.(*ssa.TypeAssert); ok && x.Index == 1 {
								t = ta.AssertedType
							}
						}
						if t == nil {
							continue
						}
						switch {
						case strings.HasSuffix(t.String(), "sdcpb.SchemaElem_"+"Leaflist"):
							handsBack["Leaflist"] = true
						case strings.HasSuffix(t.String(), "sdcpb.SchemaElem_"+"Field"):
							handsBack["Field"] = true
						}
					}
				}
			}
		}
	}
	// the conversion step: result 0 of a repository callee, nil-tested on the way to the call of ExpandUpdate
	var step *ssa.Function
	core.WithoutInlining(func() {
		for _, c := range core.OwnCallsTo(conv, "utils.Converter.ExpandUpdate") {
			for _, a := range core.GuardAtoms(c) {
				x, nilOnTrue, ok := core.NilTest(a.Cond)
				if !ok || nilOnTrue != a.True {
					continue
				}
				for _, oc := range core.OriginCalls(x) {
					if g := oc.Call.StaticCallee(); g != nil && g.Blocks != nil && strings.HasPrefix(core.PkgPath(g), "github.com/sdcio/data-server") {
						step = g
					}
				}
			}
		}
	})
	if step == nil || len(handsBack) == 0 {
		r.Undecided("EXPAND-PROGRESS", core.Site(conv, "conversion step"), w.Pos(conv.Pos()), fmt.Sprintf("cannot identify the conversion step whose nil result leads to ExpandUpdate (found: %v) or the kinds ExpandUpdate hands back (%d)", step != nil, len(handsBack)))
		return
	}
	getter := map[string]string{"Leaflist": "github.com/sdcio/sdc-protos/sdcpb.SchemaElem.GetLeaflist", "Field": "github.com/sdcio/sdc-protos/sdcpb.SchemaElem.GetField"}
	isCallTo := func(v ssa.Value, key string) bool {
		for _, oc := range core.OriginCalls(v) {
			if core.CalleeIs(oc, key) {
				return true
			}
		}
		return false
	}
	core.WithoutInlining(func() {
		for _, ret := range core.Returns(step) {
			rv := core.ReturnValues(ret)
			if len(rv) != 2 || !core.IsNilConst(rv[0]) || !core.IsNilConst(rv[1]) {
				continue
			}
			atoms := core.GuardAtoms(ret)
			kind, noValue := "", false
			for _, a := range atoms {
				var x ssa.Value
				var isNil bool
				if y, nilOnTrue, ok := core.NilTest(a.Cond); ok {
					x, isNil = y, nilOnTrue == a.True
				} else if ta, ok := a.Cond.(*ssa.Extract); ok && a.True {
					// 'case *sdcpb.SchemaElem_Leaflist' of a type switch
					if t, ok := ta.Tuple.(*ssa.TypeAssert); ok && ta.Index == 1 {
						for k := range getter {
							if strings.HasSuffix(t.AssertedType.String(), "sdcpb.SchemaElem_"+k) {
								kind = k
							}
						}
					}
					continue
				} else {
					continue
				}
				for k, key := range getter {
					if !isNil && isCallTo(x, key) {
						kind = k
					}
				}
				if isNil && (isCallTo(x, "github.com/sdcio/sdc-protos/sdcpb.Update.GetValue") || core.FieldOf(x) == "github.com/sdcio/sdc-protos/sdcpb.Update.Value") {
					noValue = true
				}
			}
			if kind == "" || !handsBack[kind] {
				continue
			}
			site := core.Site(step, "answers nothing for a %s with a value", strings.ToLower(kind))
			if noValue {
				r.OK("EXPAND-PROGRESS", core.Site(step, "(nil, nil) for a %s only without a value", strings.ToLower(kind)), w.InstrPos(ret), "")
				continue
			}
			r.Viol("EXPAND-PROGRESS", site, w.InstrPos(ret), "the conversion step returns (nil, nil) for an update on a "+strings.ToLower(kind)+" that carries a value; for a JSON value ConvertNotificationTypedValues then calls ExpandUpdate, which hands the same update back for this kind, and recurses on it without end (stack overflow on a device message)")
		}
	})
	r.OK("EXPAND-PROGRESS", core.Site(step, "conversion step checked for the kinds ExpandUpdate hands back"), w.Pos(step.Pos()), fmt.Sprintf("kinds: %d", len(handsBack)))
}

// okGuarded: the converted pointer is result i of 'p, ok := f()' where every nil return of f carries ok == false, and
// the conversion executes only on the ok == true outcome of that call.
func okGuarded(mi *ssa.MakeInterface) bool {
	ex, isEx := mi.X.(*ssa.Extract)
	if !isEx {
		return false
	}
	call, ok := ex.Tuple.(*ssa.Call)
	if !ok {
		return false
	}
	g := call.Call.StaticCallee()
	if g == nil || g.Blocks == nil {
		return false
	}
	boolIdx := -1
	res := g.Signature.Results()
	for i := 0; i < res.Len(); i++ {
		if res.At(i).Type().String() == "bool" {
			boolIdx = i
		}
	}
	if boolIdx < 0 {
		return false
	}
	for _, ret := range forwardedReturns(g, 0) {
		rv := core.ReturnValues(ret)
		isNil := false
		for _, o := range core.Origins(rv[ex.Index]) {
			if core.IsNilConst(o) {
				isNil = true
			}
		}
		if isNil {
			if b, isC := core.ConstBool(rv[boolIdx]); !isC || b {
				return false
			}
		}
	}
	for _, gd := range core.GuardsOf(mi) {
		v, neg := core.StripNot(gd.If.Cond)
		val := gd.CondTrue()
		if neg {
			val = !val
		}
		if e2, ok := v.(*ssa.Extract); ok && e2.Tuple == ex.Tuple && e2.Index == boolIdx && val {
			return true
		}
	}
	return false
}

// forwardedReturns lists the returns that decide g's results: g's own, except that a return which hands on all the
// results of one call of a repository function with the same number of results, in order (return h(...)), stands for
// the returns of that function (a lookup delegating to a generic helper).
func forwardedReturns(g *ssa.Function, depth int) []*ssa.Return {
	var out []*ssa.Return
	for _, ret := range core.Returns(g) {
		var call *ssa.Call
		fw := len(ret.Results) > 1
		for i, rv := range ret.Results {
			ex, ok := rv.(*ssa.Extract)
			if !ok || ex.Index != i {
				fw = false
				break
			}
			c, ok := ex.Tuple.(*ssa.Call)
			if !ok || (call != nil && call != c) {
				fw = false
				break
			}
			call = c
		}
		if fw && call != nil && depth < 3 {
			if h := call.Call.StaticCallee(); h != nil && h.Blocks != nil && h.Signature.Results().Len() == len(ret.Results) && strings.HasPrefix(core.PkgPath(h), core.Module) {
				out = append(out, forwardedReturns(h, depth+1)...)
				continue
			}
		}
		out = append(out, ret)
	}
	return out
}

// errGuarded: the pointer is the first result of 'p, err := g(...)', the conversion executes only on the err == nil
// outcome, and g hands back a nil pointer only together with an error that is not the nil constant.
func errGuarded(mi *ssa.MakeInterface) bool {
	ex, isEx := mi.X.(*ssa.Extract)
	if !isEx {
		return false
	}
	call, ok := ex.Tuple.(*ssa.Call)
	if !ok {
		return false
	}
	g := call.Call.StaticCallee()
	if g == nil || g.Blocks == nil {
		return false
	}
	errIdx := -1
	res := g.Signature.Results()
	for i := 0; i < res.Len(); i++ {
		if isErrorType(res.At(i).Type()) {
			errIdx = i
		}
	}
	if errIdx < 0 {
		return false
	}
	tested := core.GuardedByErrNil(mi, call)
	for _, a := range core.GuardAtoms(mi) {
		v, nilOnTrue, isNil := core.NilTest(a.Cond)
		if !isNil || nilOnTrue != a.True {
			continue
		}
		if e2, isE := v.(*ssa.Extract); isE && e2.Tuple == ssa.Value(call) && e2.Index == errIdx {
			tested = true // the error co-result of this very call, found nil
		}
	}
	if !tested {
		return false
	}
	for _, ret := range core.Returns(g) {
		rv := core.ReturnValues(ret)
		if ex.Index >= len(rv) || errIdx >= len(rv) {
			return false
		}
		isNil := false
		for _, o := range core.Origins(rv[ex.Index]) {
			if core.IsNilConst(o) {
				isNil = true
			}
		}
		if isNil && core.IsNilConst(rv[errIdx]) {
			return false // (nil, nil) is possible
		}
	}
	return true
}

// nonNilAt: x executes only where pointer v was found non-nil (guards with && / || and helper predicates taken apart).
func nonNilAt(x ssa.Instruction, v ssa.Value) bool {
	for _, a := range core.GuardAtoms(x) {
		t, nilOnTrue, ok := core.NilTest(a.Cond)
		if !ok || nilOnTrue == a.True {
			continue
		}
		t = a.Bind(t)
		_, vPhi := v.(*ssa.Phi)
		_, tPhi := t.(*ssa.Phi)
		if t == v || (!vPhi && !tPhi && (sameExpr(t, v) || core.SameObject(t, v))) {
			return true // (two accumulators of one loop share origins without being the same variable)
		}
		// the tested value denotes v and nothing else (a parameter of a shared helper denotes all its arguments)
		if _, isParam := t.(*ssa.Parameter); isParam {
			os := core.Origins(t)
			all := len(os) > 0
			for _, o := range os {
				if o != v {
					all = false
				}
			}
			if all {
				return true
			}
		}
	}
	return false
}

// derefsParam: function g selects a field of (or calls a method through an embedded field of) its pointer parameter
// number i without testing it against nil first.
func derefsParam(g *ssa.Function, i int) bool {
	if g == nil || g.Blocks == nil || i >= len(g.Params) {
		return false
	}
	p := g.Params[i]
	if _, isPtr := p.Type().Underlying().(*types.Pointer); !isPtr {
		return false
	}
	found := false
	core.WithoutInlining(func() { // judged inside g alone: what its callers tested is the callers' business
		for _, ref := range *p.Referrers() {
			switch x := ref.(type) {
			case *ssa.FieldAddr:
				if x.X == ssa.Value(p) && !nonNilAt(x, p) {
					found = true
				}
			case *ssa.UnOp:
				if x.Op == token.MUL && x.X == ssa.Value(p) && !nonNilAt(x, p) {
					found = true
				}
			}
		}
	})
	return found
}

// c20RunnerUpNil (K10): a runner-up accumulator - a pointer variable of a loop that starts as nil and receives the
// displaced value of another accumulator of the same loop (secondHighest = highest) - is nil whenever the collection
// has a single element. It must not be dereferenced, nor handed to a function that dereferences its parameter, unless
// a nil test of it dominates the use.
func c20RunnerUpNil(w *core.World, r *core.Report, scope map[*ssa.Function]bool) int {
	n := 0
	fns := make([]*ssa.Function, 0, len(scope))
	for f := range scope {
		fns = append(fns, f)
	}
	sort.Slice(fns, func(i, j int) bool { return core.FuncKey(fns[i]) < core.FuncKey(fns[j]) })
	for _, f := range fns {
		var phis []*ssa.Phi
		for _, b := range f.Blocks {
			for _, in := range b.Instrs {
				if p, ok := in.(*ssa.Phi); ok {
					if _, isPtr := p.Type().Underlying().(*types.Pointer); isPtr {
						phis = append(phis, p)
					}
				}
			}
		}
		closure := func(p *ssa.Phi) map[*ssa.Phi]bool {
			cl := map[*ssa.Phi]bool{}
			var walk func(q *ssa.Phi)
			walk = func(q *ssa.Phi) {
				if cl[q] {
					return
				}
				cl[q] = true
				for _, e := range q.Edges {
					if pe, ok := e.(*ssa.Phi); ok {
						walk(pe)
					}
				}
			}
			walk(p)
			return cl
		}
		loopCarried := func(p *ssa.Phi, cl map[*ssa.Phi]bool) bool {
			for q := range cl {
				for _, e := range q.Edges {
					if e == ssa.Value(p) && q != p {
						return true
					}
				}
			}
			for _, e := range p.Edges {
				if e == ssa.Value(p) {
					return true
				}
			}
			return false
		}
		for _, p := range phis {
			cl := closure(p)
			if os.Getenv("DSCHECK_DEBUG_RU") != "" && strings.Contains(core.FuncKey(f), os.Getenv("DSCHECK_DEBUG_RU")) {
				fmt.Println("RU", core.FuncKey(f), p.Name(), p.Comment, len(cl), loopCarried(p, cl))
			}
			if !loopCarried(p, cl) {
				continue
			}
			hasNil := false
			for q := range cl {
				for _, e := range q.Edges {
					if core.IsNilConst(e) {
						hasNil = true
					}
				}
			}
			if !hasNil {
				continue
			}
			// runner-up: the closure is fed by another loop-carried accumulator whose own closure does not contain p
			runnerUp := false
			for _, o := range phis {
				if o == p || !cl[o] {
					continue
				}
				ocl := closure(o)
				if !ocl[p] && loopCarried(o, ocl) {
					runnerUp = true
				}
			}
			if os.Getenv("DSCHECK_DEBUG_RU") != "" && strings.Contains(core.FuncKey(f), os.Getenv("DSCHECK_DEBUG_RU")) {
				fmt.Println("RU2", p.Name(), "hasNil", hasNil, "runnerUp", runnerUp)
				for _, ref := range *p.Referrers() {
					if c, ok := ref.(ssa.CallInstruction); ok {
						g := c.Common().StaticCallee()
						fmt.Println("   call", core.CalleeKey(c), g != nil, g != nil && derefsParam(g, 0))
					}
				}
			}
			if !runnerUp {
				continue
			}
			for _, ref := range *p.Referrers() {
				in := ref
				bad := ""
				switch x := ref.(type) {
				case *ssa.FieldAddr:
					if x.X == ssa.Value(p) {
						bad = "its field " + core.FieldKey(x) + " is selected"
					}
				case ssa.CallInstruction:
					cc := x.Common()
					if g := cc.StaticCallee(); g != nil {
						for i, a := range cc.Args {
							if a == ssa.Value(p) && derefsParam(g, i) {
								bad = "it is handed to " + core.FuncKey(g) + ", which dereferences that parameter"
							}
						}
					}
				}
				if bad == "" {
					continue
				}
				n++
				if os.Getenv("DSCHECK_DEBUG_RU") != "" {
					for _, a := range core.GuardAtoms(in) {
						fmt.Println("   ATOM", a.Cond, a.True, a.Cond.Parent().Name(), a.Site != nil, nonNilAt(in, p))
					}
				}
				r.Check(nonNilAt(in, p), "RUNNER-UP-NIL", core.Site(f, "runner-up %s", p.Comment), w.InstrPos(in), "the second-best candidate is nil when there is only one candidate; "+bad+" without a nil test")
			}
		}
	}
	return n
}

// c20ProducerConcurrent (K11): a function that makes a channel and then drains it in a loop must start whatever
// fills the channel as a goroutine: a producer that is CALLED (a closure capturing the channel, or a function handed
// the channel) before the drain loop runs on the consumer's own goroutine and blocks for good once the buffer is full.
func c20ProducerConcurrent(w *core.World, r *core.Report, scope map[*ssa.Function]bool) int {
	n := 0
	fns := make([]*ssa.Function, 0, len(scope))
	for f := range scope {
		fns = append(fns, f)
	}
	sort.Slice(fns, func(i, j int) bool { return core.FuncKey(fns[i]) < core.FuncKey(fns[j]) })
	for _, f := range fns {
		for _, b := range f.Blocks {
			for _, in := range b.Instrs {
				mk, ok := in.(*ssa.MakeChan)
				if !ok {
					continue
				}
				isCh := func(v ssa.Value) bool {
					if v == ssa.Value(mk) {
						return true
					}
					for _, o := range core.Origins(v) {
						if o == ssa.Value(mk) {
							return true
						}
					}
					// the variable holding the channel, captured by reference
					if al, isAl := v.(*ssa.Alloc); isAl {
						for _, ref := range *al.Referrers() {
							if st, isSt := ref.(*ssa.Store); isSt && st.Addr == ssa.Value(al) && st.Val == ssa.Value(mk) {
								return true
							}
						}
					}
					return false
				}
				// the drain: a receive from the channel on a cycle of f
				var drain ssa.Instruction
				for _, b2 := range f.Blocks {
					for _, in2 := range b2.Instrs {
						switch x := in2.(type) {
						case *ssa.UnOp:
							if x.Op == token.ARROW && isCh(x.X) && core.OnCycle(x) {
								drain = x
							}
						case *ssa.Next:
							if rg, isRg := x.Iter.(*ssa.Range); isRg && isCh(rg.X) {
								drain = x
							}
						}
					}
				}
				if drain == nil {
					continue
				}
				// producers started from f
				for _, b2 := range f.Blocks {
					for _, in2 := range b2.Instrs {
						c, isCallInstr := in2.(ssa.CallInstruction)
						if !isCallInstr {
							continue
						}
						if _, isDefer := c.(*ssa.Defer); isDefer {
							continue
						}
						cc := c.Common()
						produces := false
						for _, o := range append(core.Origins(cc.Value), cc.Value) {
							if mc, isMC := o.(*ssa.MakeClosure); isMC {
								for _, bd := range mc.Bindings {
									if isCh(bd) {
										produces = true
									}
								}
							}
						}
						if !cc.IsInvoke() && cc.StaticCallee() != nil {
							for _, a := range cc.Args {
								if isCh(a) && cc.StaticCallee().Blocks != nil {
									produces = true
								}
							}
						}
						if bi, isB := cc.Value.(*ssa.Builtin); isB && (bi.Name() == "close" || bi.Name() == "len" || bi.Name() == "cap") {
							produces = false
						}
						if !produces || !core.CanFollow(c, drain) {
							continue
						}
						n++
						_, isGo := c.(*ssa.Go)
						r.Check(isGo, "PRODUCER-CONCURRENT", core.Site(f, "producer of the drained channel started with go"), w.InstrPos(c), "the code that fills the channel runs on the goroutine that is going to drain it: with more results than the buffer holds it blocks before the drain loop is reached")
					}
				}
			}
		}
	}
	return n
}
