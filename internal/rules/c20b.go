package rules

import (
	"strings"

	"golang.org/x/tools/go/ssa"

	"verif/internal/core"
)

// mayReturnNilPtr: some return of f (pointer result idx) is the nil constant, directly or through a phi.
func mayReturnNilPtr(f *ssa.Function, idx int) bool {
	if f == nil || f.Blocks == nil {
		return false
	}
	for _, ret := range core.Returns(f) {
		rv := core.ReturnValues(ret)
		if idx >= len(rv) {
			continue
		}
		for _, o := range core.Origins(rv[idx]) {
			if core.IsNilConst(o) {
				return true
			}
		}
	}
	return false
}

// c20TypedNil (K7): a nil pointer converted to an interface is a non-nil interface. A function with an interface
// result must not return MakeInterface(p) where p is a pointer that may be nil (a nil constant, or the result of a
// repository function that has a 'return nil'), unless the conversion is dominated by a nil test of p: callers test
// the interface against nil and then call methods on it.
func c20TypedNil(w *core.World, r *core.Report, scope map[*ssa.Function]bool) int {
	n := 0
	for f := range scope {
		for _, ret := range core.Returns(f) {
			for ri, rv := range core.ReturnValues(ret) {
				if _, isIface := rv.Type().Underlying().(interface{ NumMethods() int }); !isIface {
					continue
				}
				for _, o := range core.Origins(rv) {
					// Origins looks through MakeInterface: find the MakeInterface instructions feeding this result
					_ = o
				}
				var mis []*ssa.MakeInterface
				seen := map[ssa.Value]bool{}
				var walk func(v ssa.Value)
				walk = func(v ssa.Value) {
					if v == nil || seen[v] {
						return
					}
					seen[v] = true
					switch x := v.(type) {
					case *ssa.MakeInterface:
						mis = append(mis, x)
					case *ssa.Phi:
						for _, e := range x.Edges {
							walk(e)
						}
					case *ssa.UnOp:
						if a, ok := x.X.(*ssa.Alloc); ok {
							for _, ref := range *a.Referrers() {
								if st, ok := ref.(*ssa.Store); ok && st.Addr == ssa.Value(a) {
									walk(st.Val)
								}
							}
						}
					}
				}
				walk(rv)
				for _, mi := range mis {
					if !strings.HasPrefix(mi.X.Type().String(), "*") {
						continue
					}
					why := ""
					for _, o := range core.Origins(mi.X) {
						if core.IsNilConst(o) {
							why = "a nil pointer constant"
						}
						if c, ok := o.(*ssa.Call); ok {
							if g := c.Call.StaticCallee(); g != nil && g.Pkg != nil && strings.HasPrefix(g.Pkg.Pkg.Path(), core.Module) {
								idx := 0
								if ex, isEx := mi.X.(*ssa.Extract); isEx {
									idx = ex.Index
								}
								if mayReturnNilPtr(g, idx) {
									why = "the result of " + core.FuncKey(g) + ", which can return nil"
								}
							}
						}
					}
					if why == "" {
						continue
					}
					n++
					guarded := nilGuarded(mi, mi.X) || okGuarded(mi) || errGuarded(mi)
					r.Check(guarded, "TYPED-NIL", core.Site(f, "result %d converts %s to an interface", ri, mi.X.Type()), w.InstrPos(mi), "a possibly nil pointer ("+why+") becomes a non-nil interface value: the caller's '== nil' test does not fire and the following method call dereferences nil")
				}
			}
		}
	}
	return n
}

// c20ExpandProgress (K8): ConvertNotificationTypedValues calls itself on the result of ExpandUpdate for a JSON blob on
// a container. The recursion ends only if the expansion never hands the blob back: in the container branch of
// ExpandUpdate (after the JSON document was decoded) the input update must not be an element of the returned slice.
func c20ExpandProgress(w *core.World, r *core.Report) {
	exp := w.Func("pkg/utils", "Converter", "ExpandUpdate")
	conv := w.Func("pkg/utils", "Converter", "ConvertNotificationTypedValues")
	if exp == nil || conv == nil {
		return
	}
	rec := false
	for _, c := range core.CallsTo(conv, "utils.Converter.ConvertNotificationTypedValues") {
		for _, a := range core.CallArgs(c) {
			sl := core.DataSlice(conv, []ssa.Value{a})
			if sl.HasCallTo("utils.Converter.ExpandUpdate") {
				rec = true
			}
		}
	}
	if !rec {
		r.OK("EXPAND-PROGRESS", core.Site(conv, "no recursion on the expansion"), w.Pos(conv.Pos()), "ConvertNotificationTypedValues does not call itself on ExpandUpdate's result")
		return
	}
	upd := core.Param(exp, "upd")
	decs := core.CallsTo(exp, "encoding/json.Decoder.Decode")
	if upd == nil || len(decs) == 0 {
		r.Undecided("EXPAND-PROGRESS", core.Site(exp, "container branch"), w.Pos(exp.Pos()), "cannot identify the JSON decode of the container branch")
		return
	}
	bad := false
	for _, b := range core.Blocks(exp) {
		for _, in := range b.Instrs {
			st, ok := in.(*ssa.Store)
			if !ok {
				continue
			}
			if _, isElem := st.Addr.(*ssa.IndexAddr); !isElem || !core.HasOrigin(st.Val, upd) {
				continue
			}
			for _, d := range decs {
				if core.InstrBefore(d, st) {
					bad = true
					r.Viol("EXPAND-PROGRESS", core.Site(exp, "container branch returns its input"), w.InstrPos(st), "after decoding the JSON blob of a container the input update itself is put into the result: ConvertNotificationTypedValues expands it again, without end (stack overflow on a device message)")
				}
			}
		}
	}
	if !bad {
		r.OK("EXPAND-PROGRESS", core.Site(exp, "container branch never returns its input"), w.Pos(exp.Pos()), "")
	}
}

// okGuarded: the converted pointer is result i of 'p, ok := f()' where every nil return of f carries ok == false, and
// the conversion executes only on the ok == true outcome of that call.
func okGuarded(mi *ssa.MakeInterface) bool {
	ex, isEx := mi.X.(*ssa.Extract)
	if !isEx {
		return false
	}
	call, ok := ex.Tuple.(*ssa.Call)
	if !ok {
		return false
	}
	g := call.Call.StaticCallee()
	if g == nil || g.Blocks == nil {
		return false
	}
	boolIdx := -1
	res := g.Signature.Results()
	for i := 0; i < res.Len(); i++ {
		if res.At(i).Type().String() == "bool" {
			boolIdx = i
		}
	}
	if boolIdx < 0 {
		return false
	}
	for _, ret := range core.Returns(g) {
		rv := core.ReturnValues(ret)
		isNil := false
		for _, o := range core.Origins(rv[ex.Index]) {
			if core.IsNilConst(o) {
				isNil = true
			}
		}
		if isNil {
			if b, isC := core.ConstBool(rv[boolIdx]); !isC || b {
				return false
			}
		}
	}
	for _, gd := range core.GuardsOf(mi) {
		v, neg := core.StripNot(gd.If.Cond)
		val := gd.CondTrue()
		if neg {
			val = !val
		}
		if e2, ok := v.(*ssa.Extract); ok && e2.Tuple == ex.Tuple && e2.Index == boolIdx && val {
			return true
		}
	}
	return false
}

// errGuarded: the pointer is the first result of 'p, err := g(...)', the conversion executes only on the err == nil
// outcome, and g hands back a nil pointer only together with an error that is not the nil constant.
func errGuarded(mi *ssa.MakeInterface) bool {
	ex, isEx := mi.X.(*ssa.Extract)
	if !isEx {
		return false
	}
	call, ok := ex.Tuple.(*ssa.Call)
	if !ok {
		return false
	}
	g := call.Call.StaticCallee()
	if g == nil || g.Blocks == nil {
		return false
	}
	errIdx := -1
	res := g.Signature.Results()
	for i := 0; i < res.Len(); i++ {
		if isErrorType(res.At(i).Type()) {
			errIdx = i
		}
	}
	if errIdx < 0 {
		return false
	}
	tested := core.GuardedByErrNil(mi, call)
	for _, a := range core.GuardAtoms(mi) {
		v, nilOnTrue, isNil := core.NilTest(a.Cond)
		if !isNil || nilOnTrue != a.True {
			continue
		}
		if e2, isE := v.(*ssa.Extract); isE && e2.Tuple == ssa.Value(call) && e2.Index == errIdx {
			tested = true // the error co-result of this very call, found nil
		}
	}
	if !tested {
		return false
	}
	for _, ret := range core.Returns(g) {
		rv := core.ReturnValues(ret)
		if ex.Index >= len(rv) || errIdx >= len(rv) {
			return false
		}
		isNil := false
		for _, o := range core.Origins(rv[ex.Index]) {
			if core.IsNilConst(o) {
				isNil = true
			}
		}
		if isNil && core.IsNilConst(rv[errIdx]) {
			return false // (nil, nil) is possible
		}
	}
	return true
}
