package rules

import (
	"fmt"
	"go/token"
	"go/types"
	"sort"
	"strings"

	"golang.org/x/tools/go/ssa"

	"verif/internal/core"
)

func init() {
	Registry["C08"] = c08
	Registry["C10"] = c10
}

// childEnumerators: the ways a traversal can obtain the children of an entry.
var childEnumerators = map[string]string{
	"tree.sharedEntryAttributes.filterActiveChoiceCaseChilds": "active",
	"tree.childMap.GetAll":                    "all",
	"tree.childMap.GetKeys":                   "all",
	"tree.sharedEntryAttributes.getChildren":  "all",
	"tree.Entry.getChildren":                  "all",
	"tree.sharedEntryAttributes.FilterChilds": "list-entries",
	"tree.Entry.FilterChilds":                 "list-entries",
	"tree.childMap.GetEntry":                  "by-name",
}

// activeCaseTable: which children each recursive traversal of the tree must look at.
//
//	active : only the members of the winning choice case (filterActiveChoiceCaseChilds)
//	all    : every child, inactive cases included
//
// "list-entries" (FilterChilds) and "by-name" lookups are allowed additionally where listed.
var activeCaseTable = []struct {
	Name string
	Want []string
	Why  string
}{
	{"Validate", []string{"active"}, "only what remains on the device is validated"},
	{"GetHighestPrecedence", []string{"active"}, "updates of a losing case must not be sent"},
	{"toJsonInternal", []string{"active", "list-entries"}, "rendering of the winning case"},
	{"toXmlInternal", []string{"active", "all", "by-name", "list-entries"}, "rendering of the winning case; all children are listed only to find deletes, each is filtered by membership in the active set or shouldDelete()"},
	{"canDelete", []string{"active"}, "delete decision over what is active"},
	{"shouldDelete", []string{"active"}, "delete decision over what is active"},
	{"remainsToExist", []string{"active"}, "existence decision over what is active"},
	{"FinishInsertionPhase", []string{"active"}, "resolvers of inactive branches are irrelevant"},
	{"validateMandatoryWithKeys", []string{"active"}, "mandatory children of the active case"},
	{"NavigateSdcpbPath", []string{"active"}, "leafref / must navigation sees the resulting config"},
	{"Navigate", []string{"active"}, "leafref / must navigation sees the resulting config"},
	{"tryLoading", []string{"by-name"}, "hands back the child it just loaded from the running store (lazy loading during navigation)"},
	{"GetDeletes", []string{}, "dispatcher"},
	{"getRegularDeletes", []string{"all", "by-name"}, "children of a case that just became inactive must be visited: their deletes are the point"},
	{"getAggregatedDeletes", []string{"all", "by-name"}, "same as getRegularDeletes"},
	{"markOwnerDelete", []string{"all"}, "an owner's entries in inactive cases must be marked too, else they survive in the store"},
	{"GetByOwner", []string{"all"}, "an owner's entries in inactive cases are persisted / deleted too"},
	{"Walk", []string{"all"}, "generic visitor"},
	{"getHighestPrecedenceValueOfBranch", []string{"all"}, "this is what the case decision itself is computed from"},
	{"StringIndent", []string{"all"}, "debug rendering"},
}

func enumeratorsUsed(f *ssa.Function) []string {
	set := map[string]bool{}
	for _, c := range core.Calls(f) {
		if kind, ok := childEnumerators[core.CalleeKey(c)]; ok {
			set[kind] = true
		}
	}
	var out []string
	for k := range set {
		out = append(out, k)
	}
	sort.Strings(out)
	return out
}

func ruleActiveCaseAgree(w *core.World, r *core.Report) {
	r.Rule("ACTIVE-CASE-AGREE", 18, "sibling agreement of the recursive tree traversals (frozen table, one reason each): every traversal obtains the children through the enumerator its job requires — filterActiveChoiceCaseChilds for everything that describes the resulting configuration (validation, updates, JSON/XML rendering, delete decisions, navigation), all children for bookkeeping over owners and for finding deletes. In toXmlInternal, where all children are listed to find deletes, the recursion into a child is guarded by 'member of the active set or shouldDelete()'.")
	for _, t := range activeCaseTable {
		f := w.Func("pkg/tree", "sharedEntryAttributes", t.Name)
		if f == nil {
			continue
		}
		used := enumeratorsUsed(f)
		want := map[string]bool{}
		for _, x := range t.Want {
			want[x] = true
		}
		bad := []string{}
		for _, u := range used {
			if !want[u] {
				bad = append(bad, u)
			}
		}
		// the primary enumerator must be present
		missing := ""
		if len(t.Want) > 0 {
			has := false
			for _, u := range used {
				if u == t.Want[0] {
					has = true
				}
			}
			if !has {
				missing = t.Want[0]
			}
		}
		r.Check(len(bad) == 0 && missing == "", "ACTIVE-CASE-AGREE", core.Site(f, "children enumerator"), w.Pos(f.Pos()), fmt.Sprintf("%s: uses %v, allowed %v (unexpected %v, missing %q)", t.Why, used, t.Want, bad, missing))
	}
	// toXmlInternal: recursion in the plain-container branch guarded by active membership or shouldDelete
	if f := w.Func("pkg/tree", "sharedEntryAttributes", "toXmlInternal"); f != nil {
		for _, c := range core.CallsTo(f, "tree.Entry.toXmlInternal") {
			recv := core.CallRecv(c)
			fromGetEntry := false
			for _, oc := range core.OriginCalls(recv) {
				if core.CalleeIs(oc, "tree.childMap.GetEntry") {
					fromGetEntry = true
				}
			}
			if !fromGetEntry {
				continue // children taken from the filtered map / FilterChilds
			}
			ok := false
			// guarded by: lookup in the active map found (comma-ok true) OR child.shouldDelete() true
			sl := core.BackwardSlice(f, nil, []ssa.Instruction{c})
			hasActiveLookup, hasShouldDelete := false, false
			for v := range sl.Values {
				if lk, isL := v.(*ssa.Lookup); isL {
					for _, oc := range core.OriginCalls(lk.X) {
						if core.CalleeIs(oc, "tree.sharedEntryAttributes.filterActiveChoiceCaseChilds") {
							hasActiveLookup = true
						}
					}
				}
				if cc, isC := v.(*ssa.Call); isC && core.CalleeIs(cc, "tree.Entry.shouldDelete") && core.SameObject(core.CallRecv(cc), recv) {
					hasShouldDelete = true
				}
			}
			ok = hasActiveLookup && hasShouldDelete
			r.Check(ok, "ACTIVE-CASE-AGREE", core.Site(f, "recursion over all children filtered"), w.InstrPos(c), "a child obtained from the unfiltered list may only be rendered if it is in the active set or is being deleted")
		}
	}
}

// ruleNoSplitOfJoin (shared by C01 and C11): a joined instance path is a one-way form. Key values are instance data
// and may contain the separator (interface ethernet-1/1, an IPv6 prefix), so strings.Split / SplitN / Fields of a
// text that comes (by value flow through variables, slices, results and fields) from a strings.Join in the
// repository does not give the elements back. The rule reports every such split in pkg/.
func ruleNoSplitOfJoin(w *core.World, r *core.Report) {
	r.Rule("NO-SPLIT-OF-JOIN", 1, "(shared by C01 and C11) no strings.Split / SplitN / SplitAfter / Fields in pkg/ takes a text that comes, by value flow through variables, slices, results and fields of all repository packages, from a strings.Join made in the same function or received as the result of a call (arguments handed in by callers are not followed): a joined instance path cannot be taken apart again because key values may contain the separator (ethernet-1/1, 2001:db8::/64); a path rebuilt that way addresses another node, e.g. a delete sent to the device or the cache for a node nobody asked to delete.")
	fl := w.NewFlow()
	fl.NoParams = true
	for _, f := range w.RepoFns {
		for _, c := range core.OwnCallsTo(f, "strings.Join") {
			v := c.Value()
			args := core.CallArgs(c)
			if v == nil || len(args) == 0 {
				continue
			}
			// split - edit the parts - join again gives the text itself back, not a joined path
			if core.DataSlice(f, []ssa.Value{args[0]}).HasCallTo("strings.Split", "strings.SplitN", "strings.SplitAfter", "strings.Fields") {
				continue
			}
			fl.AddSource(v)
		}
	}
	fl.Run()
	n, bad := 0, 0
	for _, f := range w.RepoFns {
		if f.Pkg == nil || !strings.HasPrefix(core.PkgPath(f), core.Module+"/pkg/") || strings.Contains(core.PkgPath(f), "/mocks/") {
			continue
		}
		ord := 0
		for _, c := range core.OwnCallsTo(f, "strings.Split", "strings.SplitN", "strings.SplitAfter", "strings.Fields") {
			args := core.CallArgs(c)
			if len(args) == 0 {
				continue
			}
			n++
			ord++
			if fl.Reaches(args[0]) {
				bad++
				r.Viol("NO-SPLIT-OF-JOIN", core.Site(f, "split #%d does not take a joined path apart", ord), w.InstrPos(c), "the text that is split comes from a strings.Join: elements (key values) that contain the separator are cut in two and the rebuilt path addresses a different node")
			}
		}
	}
	r.Extra["splits_examined"] = n
	if bad == 0 {
		r.OK("NO-SPLIT-OF-JOIN", "no split of a joined text in pkg/", "", fmt.Sprintf("%d split calls examined", n))
	}
}

func ruleNoPrefixOnJoin(w *core.World, r *core.Report) {
	r.Rule("NO-PREFIX-ON-JOIN", 1, "(shared by C08, C11, C14) a prefix test against a joined instance path must test whole elements: the prefix operand ends with the separator ('<joined path> + sep'). A bare HasPrefix(key, join(path)) also matches siblings whose name merely starts with the last element (eth1 vs eth10, case member 'log' vs leaf 'log-level'). Joined paths are followed by value flow through variables, slices and maps in all repository packages.")
	fl := w.NewFlow()
	for _, f := range w.RepoFns {
		for _, c := range core.OwnCallsTo(f, "strings.Join") {
			if v := c.Value(); v != nil {
				fl.AddSource(v)
			}
		}
	}
	fl.Run()
	n := 0
	for _, f := range w.RepoFns {
		if f.Pkg == nil || !strings.HasPrefix(core.PkgPath(f), core.Module+"/pkg/") || strings.Contains(core.PkgPath(f), "/mocks/") {
			continue
		}
		for _, c := range core.OwnCallsTo(f, "strings.HasPrefix") {
			args := core.CallArgs(c)
			if len(args) != 2 {
				continue
			}
			fromJoin, endsWithSep := fl.Reaches(args[1]), false
			var visit func(v ssa.Value, d int)
			visit = func(v ssa.Value, d int) {
				if d > 4 {
					return
				}
				for _, o := range append(core.Origins(v), v) {
					switch x := o.(type) {
					case *ssa.Call:
						if core.CalleeIs(x, "strings.Join") {
							fromJoin = true
						}
					case *ssa.BinOp:
						if s, isC := core.ConstString(x.Y); isC && s != "" {
							endsWithSep = true
						}
						visit(x.X, d+1)
					}
				}
			}
			visit(args[1], 0)
			if fromJoin {
				n++
				r.Check(endsWithSep, "NO-PREFIX-ON-JOIN", core.Site(f, "HasPrefix on joined path"), w.InstrPos(c), "prefix operand must end with the separator")
			}
		}
	}
	r.Extra["prefix_on_join_sites"] = n
}

func c08(w *core.World, r *core.Report) {
	pop := w.Func("pkg/tree", "sharedEntryAttributes", "populateChoiceCaseResolvers")
	low := w.Func("pkg/datastore", "Datastore", "lowlevelTransactionSet")
	reg := w.Func("pkg/tree", "sharedEntryAttributes", "getRegularDeletes")
	if pop == nil || low == nil || reg == nil {
		return
	}
	ruleNoPrefixOnJoin(w, r)
	ruleActiveCaseAgree(w, r)

	// ---- ALL-ACTORS-EXCLUDED
	r.Rule("ALL-ACTORS-EXCLUDED", 4, "when the resolvers are seeded from the intended-store index, the stored content of EVERY intent of the transaction is excluded: the filters handed to GetBranchesHighesPrecedence are built in a loop over TreeContext.GetActualOwners() with CacheUpdateFilterExcludeOwner (or by one constructor of package tree that is handed the owners and whose closure rejects an update of ANY listed owner: 'false' on the equal outcome of the owner comparison, never 'true' on the unequal one), SetActualOwner records every owner it is given, and lowlevelTransactionSet calls it for every intent before FinishInsertionPhase.")
	ruleAllActorsExcluded(w, r, pop, low)

	// ---- PATH-FRESH (shared with C11): getRegularDeletes appends the old case's name to the path SdcpbPath() returns
	r.Rule("PATH-FRESH", 2, "(shared with C11) sharedEntryAttributes.SdcpbPath / SdcpbPathInternal build the entry's path per call; the returned path is not one kept in a field of the entry. getRegularDeletes extends that path by the deactivated case: on a memoised, shared path the second computation of the deletes (the one that is sent) addresses <container>/<case>/<case>.")
	rulePathFresh(w, r)

	// ---- DELETE-PAIR (shared with C01)
	r.Rule("DELETE-PAIR", 1, "(shared with C01) the synthetic delete of the deactivated case addresses the same node in its device path and its store path.")
	for _, c := range core.CallsTo(reg, "tree.NewDeleteEntryImpl") {
		args := core.CallArgs(c)
		if len(args) != 2 {
			continue
		}
		s0 := core.DataSlice(reg, []ssa.Value{args[0]})
		s1 := core.DataSlice(reg, []ssa.Value{args[1]})
		name := "tree.choiceCasesResolver.getOldBestCaseName"
		r.Check(s0.HasCallTo(name) && s1.HasCallTo(name), "DELETE-PAIR", core.Site(reg, "NewDeleteEntryImpl"), w.InstrPos(c), "both representations must depend on the old case")
	}

	// ---- BRANCH-WHOLE (shared with C09)
	ruleBranchWhole(w, r)

	// ---- CASE-ALTERNATIVES-LOADED (shared with C01)
	r.Rule("CASE-ALTERNATIVES-LOADED", 1, "value flow: some read of stored intent content (TreeCacheClient.Read / ReadCurrentUpdatesHighestPriorities / cache.Client.Read) takes its paths from the member names of a choice (GetElementNames / GetChoiceElementNeighbors / elementToCaseMapping). Without it the content of a case that only other intents contribute to is never in the tree, so it cannot be sent when that case becomes the winning one.")
	ruleCaseAlternativesLoaded(w, r, "CASE-ALTERNATIVES-LOADED")

	// ---- LOSER-DELETED
	r.Rule("LOSER-DELETED", 2, "when the best case of a choice changes, the old case's node is itself put on the delete list: in getRegularDeletes the entry found for the old best case (childs.GetEntry) is appended to deletes as an element, and otherwise a synthetic delete entry is appended; the decision depends on nothing but 'old and new best case differ'. Asking the losing case for its own deletes is not enough: its owner's intent is still live, so it does not consider itself deletable.")
	{
		nEntry := 0
		for _, c := range core.CallsTo(reg, "tree.childMap.GetEntry") {
			nEntry++
			appended := false
			for _, b := range core.Blocks(reg) {
				for _, in := range b.Instrs {
					st, ok := in.(*ssa.Store)
					if !ok {
						continue
					}
					if _, isElem := st.Addr.(*ssa.IndexAddr); isElem && core.HasOrigin(st.Val, c.Value()) {
						appended = true
					}
				}
			}
			r.Check(appended, "LOSER-DELETED", core.Site(reg, "old case entry appended to deletes"), w.InstrPos(c), "the entry of the deactivated case must be deleted as a whole")
		}
		r.Check(nEntry > 0 && len(core.CallsTo(reg, "tree.NewDeleteEntryImpl")) > 0, "LOSER-DELETED", core.Site(reg, "synthetic delete when the old case is not loaded"), w.Pos(reg.Pos()), "the old case is deleted also when its entry is not in the tree")
	}

	// ---- CASE-ELEMENTS
	r.Rule("CASE-ELEMENTS", 1, "names of choice CASES (keys of choiceCasesResolver.cases, results of get(Old)BestCaseName) are not data node names: a value that flows from them must not be used to look up a child (childMap.GetEntry) or to build a path element. With an explicit 'case foo { leaf a; leaf b; }' the old case would be 'deleted' as a non-existent node foo while a and b stay on the device.")
	{
		fl := w.NewFlow()
		for _, c := range core.CallsTo(reg, "tree.choiceCasesResolver.getOldBestCaseName", "tree.choiceCasesResolver.getBestCaseName") {
			fl.AddSource(c.Value())
		}
		fl.Run()
		n := 0
		for _, c := range core.CallsTo(reg, "tree.childMap.GetEntry") {
			for _, a := range core.CallArgs(c) {
				if fl.Reaches(a) {
					n++
					r.Viol("CASE-ELEMENTS", core.Site(reg, "case name used as child name"), w.InstrPos(c), "the old best CASE name is used as the name of a child entry / path element; correct only for shorthand cases whose single member is named like the case")
				}
			}
		}
		if n == 0 {
			r.OK("CASE-ELEMENTS", core.Site(reg, "case name used as child name"), w.Pos(reg.Pos()), "case names do not reach child lookups")
		}
	}

	// ---- CONSULTS / ORIENT
	r.Rule("CONSULTS", 9, "decision-input table for case selection: getBestCaseName / getOldBestCaseName depend on the per-case lowest priority (and the old one on the 'new' marker), GetSkipElements on the best case and the element->case mapping, populateChoiceCaseResolvers on both the index value and the tree's branch value, SetValue stores value and marker.")
	consultsInReturn(w, r, "CONSULTS", w.Func("pkg/tree", "choiceCasesResolver", "getBestCaseName"), []consult{{Calls: []string{"tree.choicesCase.GetLowestPriorityValue"}, Why: "case precedence"}})
	consultsInReturn(w, r, "CONSULTS", w.Func("pkg/tree", "choiceCasesResolver", "getOldBestCaseName"), []consult{{Calls: []string{"tree.choicesCase.GetLowestPriorityValueOld"}, Why: "precedence before the transaction"}})
	consultsInReturn(w, r, "CONSULTS", w.Func("pkg/tree", "choicesCase", "GetLowestPriorityValueOld"), []consult{{Field: "tree.choicesCaseElement.new", Why: "new contributions are not 'old'"}, {Field: "tree.choicesCaseElement.value", Why: "priority"}})
	consultsInReturn(w, r, "CONSULTS", w.Func("pkg/tree", "choicesCase", "GetLowestPriorityValue"), []consult{{Field: "tree.choicesCaseElement.value", Why: "priority"}})
	consultsInReturn(w, r, "CONSULTS", w.Func("pkg/tree", "choiceCasesResolver", "GetSkipElements"), []consult{{Calls: []string{"tree.choiceCasesResolver.getBestCaseName"}, Why: "members of every other case are skipped"}, {Field: "tree.choiceCasesResolver.elementToCaseMapping", Why: "which case an element belongs to"}})
	{
		// populate: SetValue's value argument depends on both sources
		svs := core.CallsTo(pop, "tree.choiceCasesResolver.SetValue")
		anyTree := false
		for _, c := range svs {
			in := append(storedInputs(c, "tree.choicesCaseElement.value"), storedInputs(c, "tree.choicesCaseElement.new")...)
			if len(in) > 0 && core.BackwardSlice(pop, in, []ssa.Instruction{c}).HasCallTo("tree.Entry.getHighestPrecedenceValueOfBranch") {
				anyTree = true
			}
		}
		for _, c := range svs {
			in := append(storedInputs(c, "tree.choicesCaseElement.value"), storedInputs(c, "tree.choicesCaseElement.new")...)
			if len(in) == 0 {
				continue
			}
			sl := core.BackwardSlice(pop, in, []ssa.Instruction{c})
			r.Check(sl.HasCallTo("tree.TreeCacheClient.GetBranchesHighesPrecedence"), "CONSULTS", core.Site(pop, "value from the index"), w.InstrPos(c), "stored content of other owners")
			// ... for EVERY member: the lookup that feeds the value is not skipped because of what the tree holds for
			// the member (the tree holds only what the transaction touches; an intent that does not act may hold a
			// better value on another leaf of the same case)
			for v := range sl.Values {
				ic, isCall := v.(*ssa.Call)
				if !isCall || !core.CalleeIs(ic, "tree.TreeCacheClient.GetBranchesHighesPrecedence") {
					continue
				}
				if ia := core.CallArgs(ic); len(ia) == 3 && core.IsNilConst(ia[2]) {
					continue // the unfiltered lookup of the 'stored before' comparison
				}
				dep := false
				for _, cond := range core.ControlConds(ic) {
					cs := core.DataSlice(pop, []ssa.Value{cond})
					if cs.HasCallTo("tree.Entry.getHighestPrecedenceValueOfBranch", "tree.childMap.GetEntry") {
						dep = true
					}
				}
				r.Check(!dep, "CONSULTS", core.Site(pop, "index consulted whatever the tree holds"), w.InstrPos(ic), "the index lookup that feeds the case value is skipped depending on the member's content in the tree: contributions of intents that do not take part in the transaction are then not counted")
			}
			// the tree's value, or: this SetValue is the branch for a member that has no entry in the tree (decided by
			// the child lookup) while another SetValue takes the tree's value into account
			fromTree := sl.HasCallTo("tree.Entry.getHighestPrecedenceValueOfBranch") || (anyTree && sl.HasCallTo("tree.childMap.GetEntry"))
			r.Check(fromTree, "CONSULTS", core.Site(pop, "value from the tree"), w.InstrPos(c), "content of the transaction")
		}
	}
	// ---- BRANCH-PRIO-WHOLE
	r.Rule("BRANCH-PRIO-WHOLE", 1, "the tree side of the case decision: getHighestPrecedenceValueOfBranch descends into the children whether or not the entry itself carries leaf variants - a case member that is a presence container has an own value AND children, and its priority is the best of both: the recursive call is not control-dependent on the entry's own variants.")
	if f := w.Func("pkg/tree", "sharedEntryAttributes", "getHighestPrecedenceValueOfBranch"); f != nil {
		for _, c := range core.CallsTo(f, "tree.Entry.getHighestPrecedenceValueOfBranch", "tree.sharedEntryAttributes.getHighestPrecedenceValueOfBranch") {
			dep := false
			for _, cond := range core.ControlConds(c) {
				sl := core.DataSlice(f, []ssa.Value{cond})
				for v := range sl.Values {
					if vc, ok := v.(*ssa.Call); ok && strings.HasPrefix(core.CalleeKey(vc), "tree.LeafVariants.") {
						dep = true
					}
				}
			}
			r.Check(!dep, "BRANCH-PRIO-WHOLE", core.Site(f, "children visited regardless of own variants"), w.InstrPos(c), "an entry with an own value (presence container) still has children whose priorities count for the case")
		}
	}
	r.Rule("ORIENT", 4, "(shared with C01) the case with the numerically lowest priority wins.")
	for _, t := range []struct{ recv, name string }{{"choicesCase", "GetLowestPriorityValue"}, {"choicesCase", "GetLowestPriorityValueOld"}, {"choiceCasesResolver", "getBestCaseName"}, {"choiceCasesResolver", "getOldBestCaseName"}} {
		fn := w.Func("pkg/tree", t.recv, t.name)
		if n := checkMinSelection(w, r, "ORIENT", fn); n == 0 && fn != nil {
			r.Viol("ORIENT", core.Site(fn, "selection"), w.Pos(fn.Pos()), "the minimum selection is gone")
		}
	}
}

func c10(w *core.World, r *core.Report) {
	xml := w.Func("pkg/tree", "sharedEntryAttributes", "toXmlInternal")
	js := w.Func("pkg/tree", "sharedEntryAttributes", "toJsonInternal")
	ghp := w.Func("pkg/tree", "sharedEntryAttributes", "GetHighestPrecedence")
	if xml == nil || js == nil || ghp == nil {
		return
	}
	ruleActiveCaseAgree(w, r)

	// ---- LEAFLIST-RECURSE (shared with C12)
	r.Rule("LEAFLIST-RECURSE", 4, "(shared with C12) the value renderers of the encodings (GetJsonValue for JSON / JSON_IETF, TypedValueToXML and valueAsString for NETCONF, ToGNMITypedValue for gNMI proto) convert the elements of a leaf-list by calling THEMSELVES in the element loop: an element gets exactly the rendering a leaf of that kind gets in that encoding (module-qualified identityref in JSON_IETF, decimal64 as number text), so all encodings denote the same element values.")
	ruleLeaflistRecurse(w, r, "LEAFLIST-RECURSE", map[string]bool{"GetJsonValue": true, "TypedValueToXML": true, "valueAsString": true, "ToGNMITypedValue": true})

	// ---- LOSSY (shared with C12)
	r.Rule("LOSSY", 5, "(shared with C12) no encoding renders a value through a lossy numeric conversion (64-bit integer or decimal64 digits -> float64, narrowing, sign change) in pkg/utils, pkg/tree, pkg/datastore and the netconf package: a decimal64 that goes through float64 in one encoding only no longer denotes the value the other encodings carry.")
	ruleLossy(w, r, "LOSSY")

	// ---- ALL-DELETES-SENT
	r.Rule("ALL-DELETES-SENT", 1, "RootEntry.ToProtoDeletes (the delete list of gNMI proto / JSON / JSON_IETF) hands on every delete that GetDeletes computed - the same set the XML renderer walks: the returned list is filled by one append inside the loop over the GetDeletes result, and no path through the loop body reaches the next element without that append or a return. A 'de-duplication' or 'covered by another delete' filter here makes the encodings disagree on what is deleted.")
	ruleAllDeletesSent(w, r)

	// ---- FORWARD
	r.Rule("FORWARD", 8, "the recursive encoders (toXmlInternal, toJsonInternal, GetHighestPrecedence, GetDeletes) pass every option parameter of the caller unchanged and in the same position to every recursive call; toXmlInternal hands operationWithNamespace / useOperationRemove (and onlyNewOrUpdated) unchanged to AddXMLOperation / TypedValueToXML; the public entry points (ToXML, ToJson, ToJsonIETF, TargetSourceReplace.ToXML) forward their parameters.")
	// isParam: v is parameter p of host f and nothing else, possibly carried through an options struct or a helper
	isParam := func(f *ssa.Function, v ssa.Value, p *ssa.Parameter) bool {
		if p == nil || v == nil {
			return false
		}
		if v == ssa.Value(p) {
			return true
		}
		ok := false
		core.WithHost(f, func() {
			os := core.Origins(v)
			ok = len(os) == 1 && os[0] == ssa.Value(p)
		})
		return ok
	}
	forward := func(f *ssa.Function, recKeys []string, optNames []string) {
		pidx := map[string]int{}
		for i, p := range f.Params {
			pidx[p.Name()] = i
		}
		for _, c := range core.CallsTo(f, recKeys...) {
			callee := core.CalleeKey(c)
			all := c.Common().Args
			off := 0
			if c.Common().IsInvoke() {
				off = 1 // receiver is not in Args for invoke-mode calls, but is params[0] of the caller
			}
			for _, on := range optNames {
				pi, ok := pidx[on]
				if !ok {
					continue
				}
				ai := pi - off
				okArg := false
				okArg = ai >= 0 && ai < len(all) && isParam(f, all[ai], f.Params[pi])
				r.Check(okArg, "FORWARD", core.Site(f, "%s passes %s to %s", f.Name(), on, shortSrc(callee)), w.InstrPos(c), "option must be forwarded unchanged and in position")
			}
		}
	}
	forward(xml, []string{"tree.Entry.toXmlInternal"}, []string{"onlyNewOrUpdated", "honorNamespace", "operationWithNamespace", "useOperationRemove"})
	forward(js, []string{"tree.Entry.toJsonInternal"}, []string{"onlyNewOrUpdated", "ietf"})
	forward(ghp, []string{"tree.Entry.GetHighestPrecedence"}, []string{"onlyNewOrUpdated"})
	if gd := w.Func("pkg/tree", "sharedEntryAttributes", "getRegularDeletes"); gd != nil {
		forward(gd, []string{"tree.Entry.GetDeletes"}, []string{"aggregate"})
	}
	// helper calls inside toXmlInternal
	for _, c := range core.CallsTo(xml, "utils.AddXMLOperation") {
		a := core.CallArgs(c)
		ok := len(a) == 4 && isParam(xml, a[2], core.Param(xml, "operationWithNamespace")) && isParam(xml, a[3], core.Param(xml, "useOperationRemove"))
		r.Check(ok, "FORWARD", core.Site(xml, "AddXMLOperation flags"), w.InstrPos(c), "operation flags forwarded in position")
		if len(a) == 4 {
			s, isC := core.ConstString(a[1])
			if cv, isCv := a[1].(*ssa.Const); isCv && !isC {
				s = cv.Value.ExactString()
			}
			r.Check(strings.Contains(s, "delete"), "FORWARD", core.Site(xml, "AddXMLOperation is a delete"), w.InstrPos(c), "the tree renderer only marks deletions (replace is added by TargetSourceReplace / leaf-lists)")
		}
	}
	for _, c := range core.CallsTo(xml, "utils.TypedValueToXML") {
		a := core.CallArgs(c)
		ok := len(a) == 7 && isParam(xml, a[4], core.Param(xml, "onlyNewOrUpdated")) && isParam(xml, a[5], core.Param(xml, "operationWithNamespace")) && isParam(xml, a[6], core.Param(xml, "useOperationRemove"))
		r.Check(ok, "FORWARD", core.Site(xml, "TypedValueToXML flags"), w.InstrPos(c), "flags forwarded in position")
	}
	for _, e := range []struct{ recv, name, callee string }{
		{"sharedEntryAttributes", "ToXML", "tree.sharedEntryAttributes.toXmlInternal"},
		{"sharedEntryAttributes", "ToJson", "tree.sharedEntryAttributes.toJsonInternal"},
		{"sharedEntryAttributes", "ToJsonIETF", "tree.sharedEntryAttributes.toJsonInternal"},
	} {
		f := w.Func("pkg/tree", e.recv, e.name)
		if f == nil {
			continue
		}
		for _, c := range core.CallsTo(f, e.callee) {
			args := core.CallArgs(c)
			ok := true
			core.WithHost(f, func() {
				// every parameter of the entry point (after the receiver) appears as an argument in order (possibly through a
				// helper shared by the entry points)
				pi := 1
				for _, a := range args {
					if pi < len(f.Params) && core.HasOrigin(a, f.Params[pi]) {
						pi++
					}
				}
				if pi != len(f.Params) {
					ok = false
				}
				if e.name == "ToJsonIETF" || e.name == "ToJson" {
					os := core.Origins(args[len(args)-1])
					for _, o := range os {
						b, isC := core.ConstBool(o)
						ok = ok && isC && b == (e.name == "ToJsonIETF")
					}
					ok = ok && len(os) > 0
				}
			})
			r.Check(ok, "FORWARD", core.Site(f, "entry point forwards"), w.InstrPos(c), "public rendering entry points hand their options through")
		}
	}
	if f := w.Func("pkg/datastore/types", "TargetSourceReplace", "ToXML"); f != nil {
		for _, c := range core.Calls(f) {
			if !strings.HasSuffix(core.CalleeKey(c), "TargetSource.ToXML") {
				continue
			}
			args := core.CallArgs(c)
			ok := len(args) == 4
			for i := 0; ok && i < 4; i++ {
				if !isParam(f, args[i], f.Params[i+1]) {
					ok = false
				}
			}
			r.Check(ok, "FORWARD", core.Site(f, "replace wrapper forwards"), w.InstrPos(c), "the replace wrapper must render with the caller's options")
		}
	}

	// ---- TARGET-OPTIONS
	r.Rule("TARGET-OPTIONS", 6, "sibling agreement of the targets: setRunning and setCandidate call ToXML(true, IncludeNS, OperationWithNamespace, UseOperationRemove) with exactly this field->position map; the three gNMI encodings call their encoder with onlyNewOrUpdated=true and all take the deletes from ToProtoDeletes.")
	// every ToXML call of the target package (the rendering may live in a shared helper), and both setters reach one
	for _, f := range w.RepoFns {
		if f.Pkg == nil || core.PkgPath(f) != core.Module+"/pkg/datastore/target" {
			continue
		}
		for _, c := range core.OwnCallsTo(f, "datastore/target.TargetSource.ToXML") {
			a := core.CallArgs(c)
			ok := len(a) == 4
			if ok {
				b, isC := core.ConstBool(a[0])
				ok = isC && b
				for i, fld := range []string{"IncludeNS", "OperationWithNamespace", "UseOperationRemove"} {
					if core.FieldOf(a[i+1]) != "config.SBINetconfOptions."+fld {
						ok = false
					}
				}
			}
			r.Check(ok, "TARGET-OPTIONS", core.Site(f, "ToXML options"), w.InstrPos(c), "ToXML(true, IncludeNS, OperationWithNamespace, UseOperationRemove)")
		}
	}
	for _, n := range []string{"setRunning", "setCandidate"} {
		if f := w.Func("pkg/datastore/target", "ncTarget", n); f != nil {
			r.Check(mayCall(f, 2, "datastore/target.TargetSource.ToXML"), "TARGET-OPTIONS", core.Site(f, "renders with ToXML"), w.Pos(f.Pos()), "the NETCONF setters render the tree with ToXML")
		}
	}
	if f := w.Func("pkg/datastore/target", "gnmiTarget", "Set"); f != nil {
		encs := map[string]bool{}
		var sends, encCalls []ssa.Instruction
		for _, c := range core.Calls(f) {
			// an encoder may be called directly or handed on as a method value (source.ToJson) to a shared helper
			for _, k := range core.ResolvedCalleeKeys(c) {
				if k == "datastore/target.TargetSource.ToJson" || k == "datastore/target.TargetSource.ToJsonIETF" || k == "datastore/target.TargetSource.ToProtoUpdates" {
					encs[k] = true
					encCalls = append(encCalls, c)
					a := c.Common().Args
					b, isC := false, false
					if len(a) > 0 {
						b, isC = core.ConstBool(a[len(a)-1])
					}
					r.Check(isC && b, "TARGET-OPTIONS", core.Site(f, "%s onlyNewOrUpdated=true", shortSrc(k)), w.InstrPos(c), "targets send the changes only")
				}
			}
			if core.CalleeIs(c, "github.com/openconfig/gnmic/pkg/target.Target.Set") {
				sends = append(sends, c)
			}
		}
		// whatever the encoding, the deletes come from ToProtoDeletes: no path to the request being sent avoids it
		isDel := func(in ssa.Instruction) bool {
			c, ok := in.(ssa.CallInstruction)
			return ok && core.CalleeIs(c, "datastore/target.TargetSource.ToProtoDeletes")
		}
		nDel := len(core.CallsTo(f, "datastore/target.TargetSource.ToProtoDeletes"))
		okDel := nDel > 0 && len(sends) > 0
		for _, s := range sends {
			for _, e := range encCalls {
				// a run that encodes with e and sends s without asking for the deletes in between (before or after e)
				before, _ := core.AlwaysBefore(isDel, e)
				after, _ := core.PathQuery{Avoid: isDel}.Reaches(e.Block(), core.InstrIndex(e)+1, func(in ssa.Instruction) bool { return in == s })
				if !before && after {
					okDel = false
				}
			}
		}
		r.Check(len(encs) == 3 && okDel, "TARGET-OPTIONS", core.Site(f, "every encoding takes deletes from ToProtoDeletes"), w.Pos(f.Pos()), fmt.Sprintf("%d encoders, %d ToProtoDeletes calls, %d sends", len(encs), nDel, len(sends)))
	}

	// ---- SORT-SHARED (shared with C11): the XML renderer needs the key names in key-statement order
	r.Rule("SORT-SHARED", 12, "(shared with C11) no in-place sort / reverse of a slice that shares its backing array with a struct field, a package variable or the result of a repository function handing out such state: key names must stay in key-statement order for the XML key elements while tree levels use name order.")
	ruleSortShared(w, r, "SORT-SHARED", "pkg/tree", "pkg/utils", "pkg/datastore", "pkg/datastore/clients/schema", "pkg/datastore/target", "pkg/datastore/target/netconf", "pkg/tree/importer/xml", "pkg/tree/importer/json", "pkg/tree/importer/proto")

	// ---- KEYS
	r.Rule("KEYS", 4, "key completion: xmlAddKeyElements / jsonAddKeyElements take the key values from keyLevelValues (which sorts the key names, see C11.KEY-ORDER) and xmlAddKeyElements inserts missing key elements at the position of the key in the key statement (InsertChildAt with the index of a range over the schema keys), so that keys come first and in key-statement order.")
	if f := w.Func("pkg/tree", "", "xmlAddKeyElements"); f != nil {
		r.Check(len(core.CallsTo(f, "tree.keyLevelValues")) == 1, "KEYS", core.Site(f, "values from keyLevelValues"), w.Pos(f.Pos()), "level -> key mapping")
		ok := false
		for _, c := range core.CallsTo(f, "github.com/beevik/etree.Element.InsertChildAt") {
			a := core.CallArgs(c)
			if len(a) == 2 {
				// index is the loop index of a range over the schema keys (declared order)
				for _, o := range core.Origins(a[0]) {
					if bo, isB := o.(*ssa.BinOp); isB {
						_ = bo
						ok = true
					}
					if ph, isP := o.(*ssa.Phi); isP && ph.Comment == "rangeindex" {
						ok = true
					}
				}
			}
		}
		r.Check(ok, "KEYS", core.Site(f, "keys inserted at their declared position"), w.Pos(f.Pos()), "keys first, in key-statement order")
		r.Check(len(core.CallsTo(f, "github.com/beevik/etree.Element.CreateElement")) == 0, "KEYS", core.Site(f, "no append of key elements"), w.Pos(f.Pos()), "appending would put keys after the other children")
	}
	if f := w.Func("pkg/tree", "", "jsonAddKeyElements"); f != nil {
		r.Check(len(core.CallsTo(f, "tree.keyLevelValues")) == 1, "KEYS", core.Site(f, "values from keyLevelValues"), w.Pos(f.Pos()), "level -> key mapping")
	}
	if f := w.Func("pkg/tree", "", "keyLevelValues"); f != nil {
		// the cursor moves up on every iteration: the GetParent call is not control-dependent on anything but the loop condition
		for _, c := range core.CallsTo(f, "tree.Entry.GetParent") {
			n := 0
			for _, g := range core.GuardsOf(c) {
				_ = g
				n++
			}
			sl := core.BackwardSlice(f, nil, []ssa.Instruction{c})
			dependsOnLookup := false
			for v := range sl.Values {
				if _, isL := v.(*ssa.Lookup); isL {
					dependsOnLookup = true
				}
				if cc, isC := v.(*ssa.Call); isC && strings.Contains(core.CalleeKey(cc), "SelectElement") {
					dependsOnLookup = true
				}
			}
			r.Check(!dependsOnLookup, "KEYS", core.Site(f, "cursor moves every level"), w.InstrPos(c), "the tree cursor must move up one level per key unconditionally (lock-step with the key index)")
		}
	}

	// ---- DELETE-OP
	r.Rule("DELETE-OP", 4, "deletions are marked only through utils.AddXMLOperation (which applies the delete/remove choice and the namespace option): no CreateAttr(\"operation\"...) in pkg/tree; in toXmlInternal the delete branch of a container comes before its presence branch (a presence container that must be deleted is rendered as a delete, not as a plain or missing element); AddXMLOperation honours useOperationRemove and operationWithNamespace.")
	for _, f := range w.RepoFns {
		if f.Pkg == nil || core.PkgPath(f) != core.Module+"/pkg/tree" {
			continue
		}
		for _, c := range core.OwnCallsTo(f, "github.com/beevik/etree.Element.CreateAttr") {
			a := core.CallArgs(c)
			if len(a) == 2 {
				if s, isC := core.ConstString(a[0]); isC && strings.Contains(s, "operation") {
					r.Viol("DELETE-OP", core.Site(f, "raw operation attribute"), w.InstrPos(c), "operation attributes must be created by utils.AddXMLOperation")
				}
			}
		}
	}
	{
		// presence branch guarded by shouldDelete()==false
		n := 0
		for _, c := range core.CallsTo(xml, "tree.sharedEntryAttributes.containsOnlyDefaults") {
			n++
			ok := core.GuardedByBoolCall(c, false, "tree.sharedEntryAttributes.shouldDelete")
			if !ok {
				// 'case s.shouldDelete() && !s.IsRoot()' compiles to 'if phi(false [shouldDelete()==false], !IsRoot())': the
				// presence branch is then reached with shouldDelete()==true only for the root (which is no presence container)
				for _, g := range core.GuardsOf(c) {
					ph, isPhi := g.If.Cond.(*ssa.Phi)
					if !isPhi || g.CondTrue() || len(ph.Edges) != 2 {
						continue
					}
					constFalse, notRoot := false, false
					for i, e := range ph.Edges {
						if b, isC := core.ConstBool(e); isC && !b {
							// the edge comes from the block that tests shouldDelete()
							pred := ph.Block().Preds[i]
							if iff, ok := pred.Instrs[len(pred.Instrs)-1].(*ssa.If); ok {
								for _, oc := range core.OriginCalls(iff.Cond) {
									if core.CalleeIs(oc, "tree.sharedEntryAttributes.shouldDelete") {
										constFalse = true
									}
								}
							}
							continue
						}
						v, neg := core.StripNot(e)
						for _, oc := range core.OriginCalls(v) {
							if neg && core.CalleeIs(oc, "tree.sharedEntryAttributes.IsRoot") {
								notRoot = true
							}
						}
					}
					if constFalse && notRoot {
						ok = true
					}
				}
			}
			r.Check(ok, "DELETE-OP", core.Site(xml, "delete branch before presence branch"), w.InstrPos(c), "a presence container that must be deleted must reach the delete branch first")
		}
		// the root has no element of its own: a delete element is created from s.pathElemName only where !IsRoot() holds
		for _, c := range core.CallsTo(xml, "github.com/sdcio/data-server/pkg/utils.AddXMLOperation", "utils.AddXMLOperation") {
			a := core.CallArgs(c)
			if len(a) < 1 {
				continue
			}
			fromName := false
			for _, oc := range core.OriginCalls(a[0]) {
				if core.CalleeIs(oc, "github.com/beevik/etree.Element.CreateElement") {
					for _, x := range core.CallArgs(oc) {
						if core.FieldOf(x) == "tree.sharedEntryAttributes.pathElemName" {
							fromName = true
						}
					}
				}
			}
			if !fromName {
				continue
			}
			// only the container branch of the type switch can be the root
			inContainer := false
			for _, g := range core.GuardsOf(c) {
				if !g.CondTrue() {
					continue
				}
				if ex, isEx := g.If.Cond.(*ssa.Extract); isEx {
					if ta, isTA := ex.Tuple.(*ssa.TypeAssert); isTA && strings.HasSuffix(ta.AssertedType.String(), "SchemaElem_Container") {
						inContainer = true
					}
				}
			}
			if !inContainer {
				continue
			}
			okRoot := core.GuardedByBoolCall(c, false, "tree.sharedEntryAttributes.IsRoot")
			if !okRoot {
				for _, g := range core.GuardsOf(c) {
					if ph, isPhi := g.If.Cond.(*ssa.Phi); isPhi && g.CondTrue() {
						for _, e := range ph.Edges {
							v, neg := core.StripNot(e)
							for _, oc := range core.OriginCalls(v) {
								if neg && core.CalleeIs(oc, "tree.sharedEntryAttributes.IsRoot") {
									okRoot = true
								}
							}
						}
					}
				}
			}
			r.Check(okRoot, "DELETE-OP", core.Site(xml, "no delete element for the root"), w.InstrPos(c), "a delete element named after the entry must not be created for the root (empty name, not well formed)")
		}
		if n == 0 {
			r.Info("DELETE-OP", core.Site(xml, "delete branch before presence branch"), w.Pos(xml.Pos()), "no presence special case")
		}
	}
	if f := w.Func("pkg/utils", "", "AddXMLOperation"); f != nil {
		sl := core.BackwardSlice(f, nil, func() []ssa.Instruction {
			var out []ssa.Instruction
			for _, c := range core.CallsTo(f, "github.com/beevik/etree.Element.CreateAttr") {
				out = append(out, c)
			}
			return out
		}())
		r.Check(sl.HasValue(core.Param(f, "useOperationRemove")), "DELETE-OP", core.Site(f, "honours useOperationRemove"), w.Pos(f.Pos()), "delete vs remove is configurable")
		r.Check(sl.HasValue(core.Param(f, "operationWithNamespace")), "DELETE-OP", core.Site(f, "honours operationWithNamespace"), w.Pos(f.Pos()), "namespace of the operation attribute is configurable")
	}

	// ---- RECURSE
	r.Rule("RECURSE", 3, "the proto view (sharedEntryAttributes.GetHighestPrecedence) and GetByOwner / markOwnerDelete descend into the children whether or not the entry itself carries a leaf variant (presence containers carry a value AND children): the recursive call is not control-dependent on the entry's own variant.")
	for _, t := range []struct{ name, rec, own string }{
		{"GetHighestPrecedence", "tree.Entry.GetHighestPrecedence", "tree.LeafVariants.GetHighestPrecedence"},
		{"GetByOwner", "tree.Entry.GetByOwner", "tree.LeafVariants.GetByOwner"},
		{"markOwnerDelete", "tree.Entry.markOwnerDelete", "tree.LeafVariants.GetByOwner"},
	} {
		f := w.Func("pkg/tree", "sharedEntryAttributes", t.name)
		if f == nil {
			continue
		}
		for _, c := range core.CallsTo(f, t.rec) {
			dep := false
			for _, cond := range core.ControlConds(c) {
				if core.DataSlice(f, []ssa.Value{cond}).HasCallTo(strings.Split(t.own, "|")...) {
					dep = true
				}
			}
			r.Check(!dep, "RECURSE", core.Site(f, "children visited regardless of own variant"), w.InstrPos(c), "an entry with an own value (presence container) still has children to visit")
		}
	}
}

// ruleAllActorsExcluded (C08, C01): the stored content of every intent of the transaction is kept out of the case
// decision.
func ruleAllActorsExcluded(w *core.World, r *core.Report, pop, low *ssa.Function) {
	{
		// the lookups whose result becomes a case's value (SetValue) must exclude the acting owners; a lookup that is
		// only compared with the tree's value (was this precedence stored before the transaction?) may see everything
		var calls []ssa.CallInstruction
		for _, c := range core.CallsTo(pop, "tree.TreeCacheClient.GetBranchesHighesPrecedence") {
			for _, sv := range core.CallsTo(pop, "tree.choiceCasesResolver.SetValue") {
				for _, v := range storedInputs(sv, "tree.choicesCaseElement.value") {
					if core.HasOrigin(v, c.Value()) {
						calls = append(calls, c)
						break
					}
				}
			}
		}
		if len(calls) == 0 {
			r.Viol("ALL-ACTORS-EXCLUDED", core.Site(pop, "GetBranchesHighesPrecedence"), w.Pos(pop.Pos()), "no index lookup feeds the case values")
		}
		for _, c := range calls {
			args := core.CallArgs(c)
			ok := false
			if len(args) == 3 {
				sl := core.DataSlice(pop, []ssa.Value{args[2]})
				ok = sl.HasCallTo("tree.CacheUpdateFilterExcludeOwner") && sl.HasCallTo("tree.TreeContext.GetActualOwners")
				if ok {
					// the filter constructor must run once per owner: inside a loop over GetActualOwners()
					loop := false
					for _, fc := range core.CallsTo(pop, "tree.CacheUpdateFilterExcludeOwner") {
						if core.OnCycle(fc) {
							loop = true
						}
					}
					ok = loop
				}
				if !ok && sl.HasCallTo("tree.TreeContext.GetActualOwners") {
					// one filter for the whole list of owners: a constructor of package tree that is handed the owners and
					// returns a closure rejecting an update of ANY of them
					for v := range sl.Values {
						fc, isCall := v.(*ssa.Call)
						if !isCall {
							continue
						}
						g := fc.Call.StaticCallee()
						if g == nil || g.Blocks == nil || g.Pkg == nil || core.PkgPath(g) != core.Module+"/pkg/tree" {
							continue
						}
						fromOwners := false
						for _, a := range fc.Call.Args {
							for _, oc := range core.OriginCalls(a) {
								if core.CalleeIs(oc, "tree.TreeContext.GetActualOwners") {
									fromOwners = true
								}
							}
						}
						if fromOwners && excludesEveryOwner(g) {
							ok = true
						}
					}
				}
			}
			r.Check(ok, "ALL-ACTORS-EXCLUDED", core.Site(pop, "filters exclude all acting owners"), w.InstrPos(c), "the index lookup must exclude every acting owner, not one")
		}
		set := w.Func("pkg/tree", "TreeContext", "SetActualOwner")
		if set != nil {
			acc := false
			for _, st := range core.StoresToField(set, "tree.TreeContext.actualOwners") {
				for _, oc := range core.OriginCalls(st.Val) {
					if bi, isB := oc.Common().Value.(*ssa.Builtin); isB && bi.Name() == "append" {
						acc = true
					}
				}
			}
			r.Check(acc, "ALL-ACTORS-EXCLUDED", core.Site(set, "accumulates owners"), w.Pos(set.Pos()), "every owner that acted on the tree must be remembered")
		}
		sets := core.CallsTo(low, "tree.TreeContext.SetActualOwner")
		fin := firstCall(low, "tree.sharedEntryAttributes.FinishInsertionPhase", "tree.RootEntry.FinishInsertionPhase")
		okSet := len(sets) >= 1 && fin != nil
		for _, s := range sets {
			a := core.CallArgs(s)
			fromIntent := false
			for _, oc := range core.OriginCalls(a[0]) {
				if core.CalleeIs(oc, kTIGetName) {
					fromIntent = true
				}
			}
			if !fromIntent || !core.OnCycle(s) || core.CanFollow(fin, s) {
				okSet = false
			}
		}
		r.Check(okSet, "ALL-ACTORS-EXCLUDED", core.Site(low, "SetActualOwner per intent before FinishInsertionPhase"), w.Pos(low.Pos()), "every intent of the transaction must be registered as acting owner before the resolvers are populated")
		// the first loop must register every intent: no path through the loop body skips it
		for _, s := range sets {
			var next *ssa.Next
			for _, oc := range core.OriginCalls(core.CallArgs(s)[0]) {
				for _, o := range core.Origins(core.CallRecv(oc)) {
					if n, ok := o.(*ssa.Next); ok {
						next = n
					}
				}
			}
			if next != nil {
				skip, _ := core.PathQuery{Avoid: func(in ssa.Instruction) bool { return in == ssa.Instruction(s) }}.Reaches(next.Block(), core.InstrIndex(next)+1, func(in ssa.Instruction) bool { return in == ssa.Instruction(next) })
				r.Check(!skip, "ALL-ACTORS-EXCLUDED", core.Site(low, "no intent skipped when registering owners"), w.InstrPos(s), "an intent that is not registered keeps its stale stored content in the case decision")
			}
		}
	}
}

// excludesEveryOwner: g returns a filter closure (func(*cache.Update) bool) that rejects an update whose owner is any
// of the owners g was given: in the closure every return that is confined to the EQUAL outcome of a comparison of
// Update.Owner() (with an owner of the list) returns false, no return confined to the UNEQUAL outcome returns true
// (that would accept as soon as ONE owner differs), and the remaining returns return true; or the closure returns
// the negation of slices.Contains(owners, u.Owner()).
func excludesEveryOwner(g *ssa.Function) bool {
	if len(g.AnonFuncs) != 1 {
		return false
	}
	cl := g.AnonFuncs[0]
	isOwnerCall := func(v ssa.Value) bool {
		for _, oc := range core.OriginCalls(v) {
			if core.CalleeIs(oc, "cache.Update.Owner") {
				return true
			}
		}
		return false
	}
	nEq := 0
	for _, ret := range core.Returns(cl) {
		if len(ret.Results) != 1 {
			return false
		}
		// return !slices.Contains(owners, u.Owner())
		if v, neg := core.StripNot(ret.Results[0]); neg {
			if c, ok := v.(*ssa.Call); ok && core.CalleeIs(c, "slices.Contains") && len(c.Call.Args) == 2 && isOwnerCall(c.Call.Args[1]) {
				nEq++
				continue
			}
		}
		b, isConst := core.ConstBool(ret.Results[0])
		if !isConst {
			return false
		}
		confinedEq, confinedNe := false, false
		for _, gd := range core.GuardsOf(ret) {
			x, y, eqOnTrue, isEq := core.EqTest(gd.If.Cond)
			if !isEq || !(isOwnerCall(x) || isOwnerCall(y)) {
				continue
			}
			if gd.CondTrue() == eqOnTrue {
				confinedEq = true
			} else {
				confinedNe = true
			}
		}
		switch {
		case confinedEq && !confinedNe:
			if b {
				return false // accepts an update of a listed owner
			}
			nEq++
		case confinedNe && !confinedEq:
			if b {
				return false // accepts as soon as one listed owner differs: excludes nothing for two or more owners
			}
		default:
			if !b && !confinedEq {
				// a default 'false' is fine only for an empty list; treat as not understood
				return false
			}
		}
	}
	return nEq > 0
}

// ruleAllDeletesSent (C10, C03): ToProtoDeletes hands on every delete GetDeletes computed.
func ruleAllDeletesSent(w *core.World, r *core.Report) {
	if f := w.Func("pkg/tree", "RootEntry", "ToProtoDeletes"); f != nil {
		ok, why := false, "no append of the converted delete path inside the loop over the GetDeletes result"
		for _, c := range core.Calls(f) {
			cc, isCall := c.(*ssa.Call)
			if !isCall {
				continue
			}
			bi, isB := cc.Call.Value.(*ssa.Builtin)
			if !isB || bi.Name() != "append" || !core.OnCycle(cc) {
				continue
			}
			// the loop header: index < len(<GetDeletes result>)
			var head *ssa.If
			for _, g := range core.GuardsOf(cc) {
				if bo, isBo := g.If.Cond.(*ssa.BinOp); isBo && bo.Op == token.LSS && g.CondTrue() {
					if lc, isL := bo.Y.(*ssa.Call); isL {
						if lb, isLB := lc.Call.Value.(*ssa.Builtin); isLB && lb.Name() == "len" {
							for _, oc := range core.OriginCalls(lc.Call.Args[0]) {
								if strings.HasSuffix(core.CalleeKey(oc), ".GetDeletes") {
									head = g.If
								}
							}
						}
					}
				}
			}
			if head == nil {
				continue
			}
			body := head.Block().Succs[0]
			skip, tr := core.PathQuery{Avoid: func(in ssa.Instruction) bool { return in == ssa.Instruction(cc) }}.Reaches(body, 0, func(in ssa.Instruction) bool { return in == ssa.Instruction(head) })
			ok = !skip
			why = fmt.Sprintf("an iteration reaches the next delete without handing this one on (blocks %v)", tr)
		}
		r.Check(ok, "ALL-DELETES-SENT", core.Site(f, "every computed delete is handed on"), w.Pos(f.Pos()), why)
	}
}

// ruleBranchWhole (C08, C09): GetBranchesHighesPrecedence answers from a walk over the whole index, for this call's
// filters.
func ruleBranchWhole(w *core.World, r *core.Report) {
	r.Rule("BRANCH-WHOLE", 2, "GetBranchesHighesPrecedence answers for the path itself AND everything below it: every return comes after the walk over the whole keys index (no early answer from an exact hit), the loop accepts a key equal to the joined path (an equality test of the range key with the join result exists) as well as keys below it. Presence containers are stored at their own path while other intents may hold values below them.")
	if f := w.Func("pkg/tree", "TreeCacheClientImpl", "GetBranchesHighesPrecedence"); f != nil {
		var rng *ssa.Range
		for _, b := range core.Blocks(f) {
			for _, in := range b.Instrs {
				// the walk over the keys index: a range over a map from index key to the entries stored under it
				if x, ok := in.(*ssa.Range); ok {
					if mt, isMap := x.X.Type().Underlying().(*types.Map); isMap && core.TypeKey(mt.Elem()) == "tree.UpdateSlice" {
						rng = x
					}
				}
			}
		}
		if rng == nil {
			r.Undecided("BRANCH-WHOLE", core.Site(f, "range over the keys index"), w.Pos(f.Pos()), "no range over intendedStoreIndex")
		} else {
			for i, ret := range core.Returns(f) {
				r.Check(core.InstrBefore(rng, ret), "BRANCH-WHOLE", core.Site(f, "return#%d after the index walk", i), w.InstrPos(ret), "an answer given before the whole index was walked ignores contributions below (or at) the path")
			}
			eq := false
			for _, b := range core.Blocks(f) {
				for _, in := range b.Instrs {
					bo, ok := in.(*ssa.BinOp)
					if !ok || (bo.Op != token.EQL && bo.Op != token.NEQ) {
						continue
					}
					isJoin := func(v ssa.Value) bool {
						for _, oc := range core.OriginCalls(v) {
							if core.CalleeIs(oc, "strings.Join") {
								return true
							}
						}
						return false
					}
					isKey := func(v ssa.Value) bool {
						for _, o := range core.Origins(v) {
							if n, ok := o.(*ssa.Next); ok && n.Iter == ssa.Value(rng) {
								return true
							}
						}
						return false
					}
					if (isJoin(bo.X) && isKey(bo.Y)) || (isJoin(bo.Y) && isKey(bo.X)) {
						eq = true
					}
				}
			}
			r.Check(eq, "BRANCH-WHOLE", core.Site(f, "the path itself is part of the branch"), w.InstrPos(rng), "index key == joined path must be accepted")
		}
	}
	// the answer is computed for the filters of THIS call: every return that is not a constant depends on them (a
	// result memoised per path is the filtered answer of an earlier call)
	if f := w.Func("pkg/tree", "TreeCacheClientImpl", "GetBranchesHighesPrecedence"); f != nil {
		fp := core.Param(f, "filters")
		for i, ret := range core.EffectiveReturns(f) {
			vals := core.ReturnValues(ret)
			if len(vals) != 1 || fp == nil {
				continue
			}
			if _, isC := vals[0].(*ssa.Const); isC {
				continue
			}
			sl := core.BackwardSlice(f, []ssa.Value{vals[0]}, nil)
			r.Check(sl.HasValue(fp), "BRANCH-WHOLE", core.Site(f, "return#%d depends on the filters", i), w.InstrPos(ret), "the answer must be computed with the owner filters of this call (the caller asks once with the acting owners excluded and once for everything)")
		}
	}
}
