package rules

import (
	"fmt"
	"go/token"
	"go/types"
	"os"
	"strings"

	"golang.org/x/tools/go/ssa"

	"verif/internal/core"
)

func init() { Registry["C19"] = c19 }

// c19Scope: functions reachable (including goroutines they start) from the streaming RPC entry points.
func c19Scope(w *core.World) map[*ssa.Function]bool {
	roots := []*ssa.Function{
		w.Func("pkg/server", "Server", "GetData"),
		w.Func("pkg/server", "Server", "Subscribe"),
		w.Func("pkg/server", "Server", "WatchDeviations"),
		w.Func("pkg/datastore", "Datastore", "Get"),
		w.Func("pkg/datastore", "Datastore", "Subscribe"),
		w.Func("pkg/datastore", "Datastore", "DeviationMgr"),
		// both cache clients: the datastore calls them through the cache.Client interface
		w.Func("pkg/cache", "localCache", "ReadCh"),
		w.Func("pkg/cache", "localCache", "GetKeys"),
		w.Func("pkg/cache", "remoteCache", "ReadCh"),
		w.Func("pkg/cache", "remoteCache", "GetKeys"),
	}
	return w.CG().Reachable(func(e core.Edge) bool { return e.Kind == "dynamic-sig" }, roots...)
}

func isCtxDoneChan(v ssa.Value) bool {
	for _, oc := range core.OriginCalls(v) {
		if core.CalleeIs(oc, "context.Context.Done") {
			return true
		}
	}
	return false
}

// chanOrigin follows a channel value to where it was made: a MakeChan, a parameter, a call result.
func chanOrigins(w *core.World, v ssa.Value) []ssa.Value {
	var out []ssa.Value
	seen := map[ssa.Value]bool{}
	var rec func(v ssa.Value, d int)
	rec = func(v ssa.Value, d int) {
		if v == nil || seen[v] || d > 6 {
			return
		}
		seen[v] = true
		for _, o := range core.Origins(v) {
			if u, ok := o.(*ssa.UnOp); ok {
				if fv, ok := u.X.(*ssa.FreeVar); ok {
					o = fv // load through a by-reference capture
				}
				if fa, ok := u.X.(*ssa.FieldAddr); ok {
					// field of a struct that a goroutine started with 'go x.f(...)' / 'go f(x, ...)' is handed: what the
					// function that starts it stored into that field of its local variable
					if p, isP := fa.X.(*ssa.Parameter); isP {
						pf := p.Parent()
						found := false
						for _, sp := range goSitesOf(w, pf) {
							for i, q := range pf.Params {
								if q != p || i >= len(sp.Call.Args) {
									continue
								}
								for _, sv := range core.LocalFieldStores(sp.Call.Args[i], fa.Field) {
									found = true
									rec(sv, d+1)
								}
							}
						}
						if found {
							continue
						}
					}
				}
			}
			switch x := o.(type) {
			case *ssa.Parameter:
				// parameter of a named function that is started as a goroutine: the channel the go statement passes
				found := false
				pf := x.Parent()
				for _, sp := range goSitesOf(w, pf) {
					for i, q := range pf.Params {
						if q == x && i < len(sp.Call.Args) {
							found = true
							rec(sp.Call.Args[i], d+1)
						}
					}
				}
				if !found {
					out = append(out, o)
				}
			case *ssa.FreeVar:
				fn := x.Parent()
				idx := -1
				for i, fv := range fn.FreeVars {
					if fv == x {
						idx = i
					}
				}
				found := false
				if fn.Parent() != nil {
					for _, b := range fn.Parent().Blocks {
						for _, in := range b.Instrs {
							if mc, ok := in.(*ssa.MakeClosure); ok && mc.Fn == fn && idx >= 0 && idx < len(mc.Bindings) {
								found = true
								rec(mc.Bindings[idx], d+1)
							}
						}
					}
				}
				if !found {
					out = append(out, o)
				}
			case *ssa.Alloc:
				n := 0
				for _, ref := range *x.Referrers() {
					if st, ok := ref.(*ssa.Store); ok && st.Addr == x {
						n++
						rec(st.Val, d+1)
					}
				}
				if n == 0 {
					out = append(out, o)
				}
			default:
				out = append(out, o)
			}
		}
	}
	rec(v, 0)
	return out
}

// spawnedOnCycle: closure fn is started with `go` (or called) from a statement that lies on a CFG cycle of its parent.
func spawnSites(fn *ssa.Function) (sites []ssa.Instruction) {
	p := fn.Parent()
	if p == nil {
		return nil
	}
	for _, b := range core.Blocks(p) {
		for _, in := range b.Instrs {
			if c, ok := in.(ssa.CallInstruction); ok {
				if mc, ok := c.Common().Value.(*ssa.MakeClosure); ok && mc.Fn == fn {
					sites = append(sites, in)
				} else if c.Common().StaticCallee() == fn {
					sites = append(sites, in)
				}
			}
		}
	}
	return sites
}

func c19(w *core.World, r *core.Report) {
	scope := c19Scope(w)
	inScope := func(f *ssa.Function) bool {
		if !scope[f] || f.Pkg == nil {
			return false
		}
		p := core.PkgPath(f)
		return strings.HasPrefix(p, core.Module+"/pkg/datastore") && !strings.Contains(p, "/target") || strings.HasPrefix(p, core.Module+"/pkg/server") || strings.HasPrefix(p, core.Module+"/pkg/cache")
	}

	r.Rule("SEND-GUARD", 3, "every stand-alone channel send (an ssa Send instruction, i.e. not a case of a select) in the functions and goroutines reachable from GetData / Subscribe / WatchDeviations / the deviation manager and the cache read producers: the channel must be buffered with capacity len(X), the goroutine that sends must be started once per element of the same X, and it must send at most once (send not on a cycle). Any other stand-alone send can block forever once its consumer stopped. Sends that are select cases together with a cancellation case are counted as discharged obligations.")
	r.Rule("SELECT-CANCEL", 5, "every blocking select on a CFG cycle in that scope has a receive case on a context's Done() channel, and from that case a function exit is reachable without passing the select again. Decides: each loop of a streaming handler can be ended by cancelling its context.")
	r.Rule("CLOSE-SINGLE", 3, "every close() in that scope closes a channel that has exactly one closing site, and the closing function is not started more than once per channel (the closure is not spawned on a CFG cycle of the function that made the channel). Decides: no double close, no send on a channel closed by another sender.")
	r.Rule("WG-PAIR", 2, "every goroutine started in a function of that scope that waits on a sync.WaitGroup defers wg.Done() as its first deferred action path-independently (Done on every exit), and an Add precedes the go statement.")

	r.Rule("LOCK-RELEASE", 1, "every Lock/RLock taken in a function of that scope is released on every path to the function's exits (deferred unlock, or an unlock call on the path): an error return that keeps a mutex blocks the other streaming goroutines forever.")
	r.Rule("CONSUMER-DRAINS", 2, "the goroutine in Server.GetData that forwards responses to the gRPC stream stops reading only when the stream's context is done, the channel was closed, or a send failed with one of the frozen dead-stream texts (strings.Contains on the error): any other early return leaves Datastore.Get blocked on its send while it holds Server.md.")
	// ---- NO-SELF-DEADLOCK
	r.Rule("NO-SELF-DEADLOCK", 0, "no function of that scope calls, while it holds a sync.Mutex / RWMutex of its receiver, a repository function that (itself or through synchronous callees) takes the same mutex class on the same receiver: Go's mutexes are not re-entrant, the call blocks for ever with the lock held, and so does every later handler that needs it (WatchDeviations registering a stream, StopDeviationsWatch when the client cancels, the deviation manager's next tick).")
	{
		lw := w.Locks(nil)
		nHeldCalls := 0
		for _, f := range w.RepoFns {
			if !inScope(f) || f.Blocks == nil {
				continue
			}
			fl := lw.Funcs[f]
			if fl == nil {
				fl = core.AnalyzeLocks(f)
			}
			for _, c := range core.OwnCalls(f) {
				if _, isGo := c.(*ssa.Go); isGo {
					continue
				}
				g := c.Common().StaticCallee()
				if g == nil || g.Blocks == nil || lw.AcqTrans[g] == nil {
					continue
				}
				for _, h := range fl.HeldBefore(c) {
					if !lw.AcqTrans[g][h.Class] || h.Base == nil {
						continue
					}
					recv := core.CallRecv(c)
					if recv == nil || !(recv == h.Base || core.SameObject(recv, h.Base)) {
						continue
					}
					nHeldCalls++
					r.Viol("NO-SELF-DEADLOCK", core.Site(f, "call %s with %s held", core.CalleeKey(c), h.Class), w.InstrPos(c), "the callee takes "+h.Class+" of the same object again while the caller holds it: the goroutine blocks on itself and the lock is never released")
				}
			}
		}
		r.Extra["calls_reacquiring_a_held_lock"] = nHeldCalls
	}

	// ---- SIBLINGS-CANCELLED
	r.Rule("SIBLINGS-CANCELLED", 0, "when one subscription of a Subscribe stream fails, the others are stopped: in every goroutine Datastore.Subscribe starts, each path from the err != nil outcome of doSubscribeOnce to the goroutine's exit calls the cancel function of the very context whose Done() channel the goroutines' select waits on (the WithCancel made in Subscribe; a cancel of a per-round context that shadows it stops nobody). Otherwise wg.Wait() returns only when every other subscription fails on its own next tick, which is client-chosen.")
	if sub := w.Func("pkg/datastore", "Datastore", "Subscribe"); sub != nil {
		// the context.With* calls whose result #idx v is (through local variables and variables captured by closures)
		bound := map[*ssa.Parameter]ssa.Value{} // parameters of the goroutine function -> arguments of the go statement
		ctxMaker := func(v ssa.Value, idx int) map[*ssa.Call]bool {
			out := map[*ssa.Call]bool{}
			seen := map[ssa.Value]bool{}
			var rec func(v ssa.Value, d int)
			stores := func(al *ssa.Alloc, d int) {
				for _, ref := range *al.Referrers() {
					if st, ok := ref.(*ssa.Store); ok && st.Addr == ssa.Value(al) {
						rec(st.Val, d+1)
					}
				}
			}
			rec = func(v ssa.Value, d int) {
				if v == nil || seen[v] || d > 8 {
					return
				}
				seen[v] = true
				switch x := v.(type) {
				case *ssa.Extract:
					if mk, ok := x.Tuple.(*ssa.Call); ok && x.Index == idx && core.CalleeIs(mk, "context.WithCancel", "context.WithTimeout", "context.WithDeadline") {
						out[mk] = true
					}
				case *ssa.Parameter:
					if a, ok := bound[x]; ok {
						rec(a, d+1)
					}
				case *ssa.Phi:
					for _, e := range x.Edges {
						rec(e, d+1)
					}
				case *ssa.ChangeType:
					rec(x.X, d+1)
				case *ssa.MakeInterface:
					rec(x.X, d+1)
				case *ssa.UnOp:
					if x.Op != token.MUL {
						return
					}
					switch y := x.X.(type) {
					case *ssa.Alloc:
						stores(y, d)
					case *ssa.FieldAddr:
						// a field of the struct the goroutines share (s.ctx, s.cancel): what Subscribe stored into it
						base := y.X
						if p, ok := base.(*ssa.Parameter); ok {
							if a, ok := bound[p]; ok {
								base = a
							}
						}
						for _, o := range append(core.Origins(base), base) {
							al, ok := o.(*ssa.Alloc)
							if !ok {
								continue
							}
							for _, ref := range *al.Referrers() {
								if fa, ok := ref.(*ssa.FieldAddr); ok && fa.Field == y.Field {
									for _, r2 := range *fa.Referrers() {
										if st, ok := r2.(*ssa.Store); ok && st.Addr == ssa.Value(fa) {
											rec(st.Val, d+1)
										}
									}
								}
							}
						}
					case *ssa.FreeVar:
						for _, o := range core.OriginsThroughCaptures(y) {
							if al, ok := o.(*ssa.Alloc); ok {
								stores(al, d)
							}
						}
					}
				}
			}
			rec(v, 0)
			return out
		}
		check := func(g *ssa.Function) {
			// the contexts this goroutine waits on
			waits := map[*ssa.Call]bool{}
			for _, b := range g.Blocks {
				for _, in := range b.Instrs {
					sel, ok := in.(*ssa.Select)
					if !ok {
						continue
					}
					for _, st := range sel.States {
						for _, oc := range core.OriginCalls(st.Chan) {
							if core.CalleeIs(oc, "context.Context.Done") {
								for mk := range ctxMaker(core.CallRecv(oc), 0) {
									waits[mk] = true
								}
							}
						}
					}
				}
			}
			if os.Getenv("DSCHECK_DEBUG_C19") != "" {
				fmt.Println("C19 debug closure", g.Name(), "waits", len(waits), "calls", len(core.OwnCallsTo(g, "datastore.Datastore.doSubscribeOnce")))
			}
			if len(waits) == 0 {
				return
			}
			isCancel := func(in ssa.Instruction) bool {
				c, ok := in.(*ssa.Call)
				if !ok || c.Call.IsInvoke() || c.Call.StaticCallee() != nil {
					return false
				}
				for mk := range ctxMaker(c.Call.Value, 1) {
					if waits[mk] {
						return true
					}
				}
				return false
			}
			for _, c := range core.OwnCallsTo(g, "datastore.Datastore.doSubscribeOnce") {
				cc, ok := c.(*ssa.Call)
				if !ok {
					continue
				}
				for _, iff := range core.Ifs(g) {
					x, nilOnTrue, isNil := core.NilTest(iff.Cond)
					if !isNil {
						continue
					}
					hit := false
					for _, oc := range core.OriginCalls(x) {
						if oc == cc {
							hit = true
						}
					}
					if !hit {
						continue
					}
					fail := iff.Block().Succs[0]
					if nilOnTrue {
						fail = iff.Block().Succs[1]
					}
					leaves, _ := core.PathQuery{Avoid: isCancel}.Reaches(fail, 0, func(in ssa.Instruction) bool {
						_, isRet := in.(*ssa.Return)
						return isRet && in.Parent() == g
					})
					r.Check(!leaves, "SIBLINGS-CANCELLED", core.Site(sub, "failed subscription cancels the shared context"), w.InstrPos(iff), "a path from the failure of doSubscribeOnce leaves the goroutine without cancelling the context the sibling goroutines wait on")
				}
			}
		}
		// the goroutines Subscribe starts: closures and functions of the package named in a go statement
		var starts func(f *ssa.Function)
		starts = func(f *ssa.Function) {
			for _, b := range f.Blocks {
				for _, in := range b.Instrs {
					gs, ok := in.(*ssa.Go)
					if !ok {
						continue
					}
					var g *ssa.Function
					if mc, ok := gs.Call.Value.(*ssa.MakeClosure); ok {
						g, _ = mc.Fn.(*ssa.Function)
					} else {
						g = gs.Call.StaticCallee()
					}
					if g == nil || g.Blocks == nil {
						continue
					}
					for k := range bound {
						delete(bound, k)
					}
					args := gs.Call.Args
					np := len(g.Params)
					for i := 0; i < np && i < len(args); i++ {
						bound[g.Params[i]] = args[i]
					}
					check(g)
				}
			}
			for _, a := range f.AnonFuncs {
				starts(a)
			}
		}
		starts(sub)
	}

	nLocks := 0
	closers := map[ssa.Value][]ssa.Instruction{} // made channel -> close sites
	for _, f := range w.RepoFns {
		if !inScope(f) {
			continue
		}
		for _, b := range f.Blocks {
			for _, in := range b.Instrs {
				switch x := in.(type) {
				case *ssa.Send:
					site := core.Site(f, "send")
					ok, why := buffersPerSender(w, x)
					r.Check(ok, "SEND-GUARD", site, w.InstrPos(x), "stand-alone send: "+why)
				case *ssa.UnOp:
					// a plain receive (a select with a single case is compiled to one) from a ticker/timer channel inside a loop can never be cancelled
					if x.Op == token.ARROW && core.OnCycle(x) {
						fk := core.FieldOf(x.X)
						if fk == "time.Ticker.C" || fk == "time.Timer.C" {
							r.Viol("SELECT-CANCEL", core.Site(f, "receive %s in loop", fk), w.InstrPos(x), "loop blocks on a ticker/timer channel without a <-ctx.Done() alternative")
						}
					}
				case *ssa.Select:
					nSend := 0
					hasCancel := false
					for _, st := range x.States {
						if st.Dir == types.SendOnly {
							nSend++
						}
						if st.Dir == types.RecvOnly && isCtxDoneChan(st.Chan) {
							hasCancel = true
						}
					}
					for i := 0; i < nSend; i++ {
						r.Check(hasCancel || !x.Blocking, "SEND-GUARD", core.Site(f, "select-send"), w.InstrPos(x), "send as a select case needs a cancellation case in the same select")
					}
					if x.Blocking && core.OnCycle(x) {
						site := core.Site(f, "select in loop")
						if !hasCancel {
							r.Viol("SELECT-CANCEL", site, w.InstrPos(x), "blocking select in a loop without a <-ctx.Done() case")
							continue
						}
						r.Check(cancelCaseLeaves(x), "SELECT-CANCEL", site, w.InstrPos(x), "the <-ctx.Done() case must lead to a function exit without re-entering the select")
					}
				}
				if c, ok := in.(ssa.CallInstruction); ok {
					if bi, ok := c.Common().Value.(*ssa.Builtin); ok && bi.Name() == "close" {
						for _, o := range chanOrigins(w, c.Common().Args[0]) {
							closers[o] = append(closers[o], in)
						}
					}
				}
			}
		}
		for _, c := range core.OwnCalls(f) {
			if k, _, _ := core.LockOp(c); k == "lock" || k == "rlock" {
				nLocks++
			}
		}
		for _, lk := range core.LockLeaks(f) {
			r.Viol("LOCK-RELEASE", core.Site(f, "lock %s", lk.Class), w.InstrPos(lk.Lock), fmt.Sprintf("a path reaches a function exit with the lock still held (blocks %v)", lk.Trace))
		}
		// goroutines started here
		for _, c := range core.OwnCalls(f) {
			g, isGo := c.(*ssa.Go)
			if !isGo {
				continue
			}
			callee := g.Common().StaticCallee()
			if callee == nil || callee.Blocks == nil {
				continue
			}
			// does f wait on a WaitGroup?
			waits := core.OwnCallsTo(f, "sync.WaitGroup.Wait")
			if len(waits) == 0 {
				continue
			}
			site := core.Site(f, "go %s", core.FuncKey(callee))
			doneDeferred := false
			for _, d := range core.CallsTo(callee, "sync.WaitGroup.Done") {
				if _, isDefer := d.(*ssa.Defer); isDefer {
					// deferred before anything that can return: it must dominate all returns
					all := true
					for _, ret := range core.Returns(callee) {
						if !core.InstrBefore(d, ret) {
							all = false
						}
					}
					if all {
						doneDeferred = true
					}
				}
			}
			r.Check(doneDeferred, "WG-PAIR", site+" defers Done", w.InstrPos(g), "the goroutine must defer wg.Done() on every exit, else wg.Wait() never returns")
			added := false
			for _, a := range core.OwnCallsTo(f, "sync.WaitGroup.Add") {
				if core.InstrBefore(a, g) {
					added = true
				}
			}
			r.Check(added, "WG-PAIR", site+" Add before go", w.InstrPos(g), "wg.Add must precede the go statement")
		}
	}
	r.OK("LOCK-RELEASE", "scope", "", fmt.Sprintf("%d lock acquisitions in scope examined", nLocks))
	if gd := w.Func("pkg/server", "Server", "GetData"); gd != nil {
		fwd := append([]*ssa.Function{}, gd.AnonFuncs...)
		for _, sp := range core.Spawned(gd) {
			dup := false
			for _, x := range fwd {
				if x == sp {
					dup = true
				}
			}
			if !dup {
				fwd = append(fwd, sp) // the forwarder as a named function
			}
		}
		for _, a := range fwd {
			// the forwarder: has a select receiving from a channel of GetDataResponse
			var sel *ssa.Select
			for _, b := range core.Blocks(a) {
				for _, in := range b.Instrs {
					if x, ok := in.(*ssa.Select); ok {
						sel = x
					}
				}
			}
			if sel == nil {
				continue
			}
			accept := func(cond ssa.Value, condTrue bool) bool {
				v, neg := core.StripNot(cond)
				val := condTrue
				if neg {
					val = !val
				}
				// select case index of the ctx.Done state
				if bo, isB := v.(*ssa.BinOp); isB && val {
					if ex, isEx := bo.X.(*ssa.Extract); isEx && ex.Tuple == ssa.Value(sel) && ex.Index == 0 {
						if n, isC := core.ConstInt(bo.Y); isC && int(n) < len(sel.States) && isCtxDoneChan(sel.States[n].Chan) {
							return true
						}
					}
				}
				// channel closed: recvOk false
				if ex, isEx := v.(*ssa.Extract); isEx && ex.Tuple == ssa.Value(sel) && ex.Index == 1 && !val {
					return true
				}
				// frozen dead-stream heuristic
				for _, oc := range core.OriginCalls(v) {
					if core.CalleeIs(oc, "strings.Contains") && val {
						return true
					}
				}
				return false
			}
			for _, ret := range core.Returns(a) {
				ok := false
				for _, g := range core.GuardsOf(ret) {
					if accept(g.If.Cond, g.CondTrue()) {
						ok = true
					}
				}
				if !ok {
					// a disjunction (a || b): every edge into the return block is an accepted outcome
					blk := ret.Block()
					all := len(blk.Preds) > 0
					for _, p := range blk.Preds {
						iff, isIf := p.Instrs[len(p.Instrs)-1].(*ssa.If)
						if !isIf {
							all = false
							continue
						}
						idx := 0
						if p.Succs[1] == blk {
							idx = 1
						}
						if !accept(iff.Cond, idx == 0) {
							all = false
						}
					}
					ok = all
				}
				r.Check(ok, "CONSUMER-DRAINS", core.Site(a, "return"), w.InstrPos(ret), "the forwarder may stop only on context done, channel closed or a dead-stream error text")
			}
		}
	}
	for ch, sites := range closers {
		where := "?"
		if in, ok := ch.(ssa.Instruction); ok {
			where = w.InstrPos(in)
		} else if p, ok := ch.(*ssa.Parameter); ok {
			where = "parameter " + p.Name() + " of " + core.FuncKey(p.Parent())
		}
		site0 := "channel made at " + where
		if mk, ok := ch.(*ssa.MakeChan); ok {
			site0 = core.Site(mk.Parent(), "chan %s", mk.Name())
		} else if p, ok := ch.(*ssa.Parameter); ok {
			site0 = core.Site(p.Parent(), "chan param %s", p.Name())
		}
		// several closing sites are fine only when they are mutually exclusive: neither can execute after the other
		excl := true
		for i, a := range sites {
			for j, b := range sites {
				if i >= j {
					continue
				}
				if !closeSitesExclusive(a, b) {
					excl = false
				}
			}
		}
		r.Check(excl, "CLOSE-SINGLE", site0+" one closing site", where, fmt.Sprintf("%d close sites for one channel that are not mutually exclusive", len(sites)))
		for _, cs := range sites {
			fn := cs.Parent()
			multi := false
			// closing function spawned repeatedly for the same channel?
			if mk, ok := ch.(*ssa.MakeChan); ok && fn != mk.Parent() {
				for g := fn; g != nil && g != mk.Parent(); g = g.Parent() {
					for _, sp := range spawnSites(g) {
						if core.OnCycle(sp) && !core.OnCycle(mk) {
							multi = true
						}
						// channel made outside the loop that spawns the closer
						if core.OnCycle(sp) && core.OnCycle(mk) && !core.InstrBefore(mk, sp) {
							multi = true
						}
					}
				}
			}
			if core.OnCycle(cs) {
				multi = true
			}
			r.Check(!multi, "CLOSE-SINGLE", site0+" closed once", w.InstrPos(cs), "the close can execute more than once for the same channel (closer spawned in a loop / close in a loop)")
		}
	}
}

// buffersPerSender: the Send's channel is made with capacity len(X), the sending closure is
// spawned in a range over the same X, and the send is not on a cycle.
func buffersPerSender(w *core.World, s *ssa.Send) (bool, string) {
	if core.OnCycle(s) {
		return false, "the send executes repeatedly (on a CFG cycle); it must be a select case with a cancellation case"
	}
	var mk *ssa.MakeChan
	for _, o := range chanOrigins(w, s.Chan) {
		if m, ok := o.(*ssa.MakeChan); ok {
			mk = m
		} else {
			return false, "the channel is not made in the repository function that starts the sender (cannot bound its capacity)"
		}
	}
	if mk == nil {
		return false, "cannot find where the channel is made"
	}
	lenCall, ok := mk.Size.(*ssa.Call)
	if !ok {
		return false, "the channel capacity is not len(<collection>)"
	}
	if bi, ok := lenCall.Common().Value.(*ssa.Builtin); !ok || bi.Name() != "len" {
		return false, "the channel capacity is not len(<collection>)"
	}
	coll := lenCall.Common().Args[0]
	// the sender closure must be spawned in a range over a collection obtained the same way
	fn := s.Parent()
	var spawn ssa.Instruction
	for g := fn; g != nil && g != mk.Parent(); g = g.Parent() {
		if g.Parent() == mk.Parent() {
			sp := spawnSites(g)
			if len(sp) != 1 {
				return false, "the sending goroutine has several spawn sites"
			}
			spawn = sp[0]
		}
		if g.Parent() == nil {
			// a named function started with 'go f(...)' by the function that made the channel
			gs := goSitesOf(w, g)
			if len(gs) == 1 && gs[0].Parent() == mk.Parent() {
				spawn = gs[0]
			} else if len(gs) > 1 {
				return false, "the sending goroutine has several spawn sites"
			}
		}
	}
	if spawn == nil {
		return false, "sender is not a goroutine started by the function that made the channel"
	}
	// find the range the spawn is in: a Next instruction whose iterator ranges over `coll`-equivalent
	ranged := false
	for _, b := range mk.Parent().Blocks {
		for _, in := range b.Instrs {
			if rg, ok := in.(*ssa.Range); ok {
				if sameExpr(rg.X, coll) {
					ranged = true
				}
			}
			// slices are ranged by index: look for len(X) of the same expression compared in the loop header
			if c, ok := in.(*ssa.Call); ok && c != lenCall {
				if bi, ok := c.Common().Value.(*ssa.Builtin); ok && bi.Name() == "len" && sameExpr(c.Common().Args[0], coll) && core.OnCycle(spawn) {
					ranged = true
				}
			}
		}
	}
	if !ranged || !core.OnCycle(spawn) {
		return false, "the capacity len(X) is not tied to the loop that starts one sender per element of X"
	}
	return true, "capacity len(X), one sender per element of X, at most one send per sender"
}

// sameExpr: two values are the same SSA value or calls of the same callee on the same receiver/arguments (go/ssa does no CSE).
func sameExpr(a, b ssa.Value) bool {
	if a == b {
		return true
	}
	ca, ok1 := a.(*ssa.Call)
	cb, ok2 := b.(*ssa.Call)
	if ok1 && ok2 && core.CalleeKey(ca) == core.CalleeKey(cb) && len(ca.Common().Args) == len(cb.Common().Args) {
		for i := range ca.Common().Args {
			if !sameExpr(ca.Common().Args[i], cb.Common().Args[i]) {
				return false
			}
		}
		if ca.Common().IsInvoke() && !sameExpr(ca.Common().Value, cb.Common().Value) {
			return false
		}
		return true
	}
	return core.SameObject(a, b)
}

// cancelCaseLeaves: from the successor taken when the ctx.Done() state of the select fires, an exit is reachable without executing the select again.
func cancelCaseLeaves(sel *ssa.Select) bool {
	// go/ssa lowers the dispatch to a chain of `index == k` tests; find the Extract #0 (index) and the If comparing it with the state's position.
	for k, st := range sel.States {
		if st.Dir != types.RecvOnly || !isCtxDoneChan(st.Chan) {
			continue
		}
		for _, ref := range *sel.Referrers() {
			ex, ok := ref.(*ssa.Extract)
			if !ok || ex.Index != 0 {
				continue
			}
			for _, r2 := range *ex.Referrers() {
				bo, ok := r2.(*ssa.BinOp)
				if !ok {
					continue
				}
				n, isC := core.ConstInt(bo.Y)
				if !isC || int(n) != k {
					continue
				}
				for _, r3 := range *bo.Referrers() {
					iff, ok := r3.(*ssa.If)
					if !ok {
						continue
					}
					target := iff.Block().Succs[0]
					reach, _ := core.PathQuery{Avoid: func(in ssa.Instruction) bool { return in == ssa.Instruction(sel) }}.Reaches(target, 0, core.IsExit)
					if reach {
						return true
					}
				}
			}
		}
	}
	return false
}

// closeSitesExclusive: two close sites of one channel can never both execute: in the same function neither follows
// the other; across a function and a closure it starts, the parent's close cannot be followed by the spawn nor follow it.
func closeSitesExclusive(a, b ssa.Instruction) bool {
	fa, fb := a.Parent(), b.Parent()
	if fa == fb {
		return !core.CanFollow(a, b) && !core.CanFollow(b, a)
	}
	check := func(parentSite ssa.Instruction, closure *ssa.Function) bool {
		for g := closure; g != nil; g = g.Parent() {
			if g.Parent() == parentSite.Parent() {
				for _, sp := range spawnSites(g) {
					if core.CanFollow(parentSite, sp) || core.CanFollow(sp, parentSite) {
						return false
					}
				}
				return true
			}
		}
		return false
	}
	if check(a, fb) {
		return true
	}
	return check(b, fa)
}

// goSitesOf lists the go statements of the repository that start the named function fn.
func goSitesOf(w *core.World, fn *ssa.Function) []*ssa.Go {
	if fn == nil || fn.Parent() != nil {
		return nil
	}
	var out []*ssa.Go
	for _, f := range w.RepoFns {
		for _, b := range f.Blocks {
			for _, in := range b.Instrs {
				if g, ok := in.(*ssa.Go); ok && g.Call.StaticCallee() == fn {
					out = append(out, g)
				}
			}
		}
	}
	return out
}
