package core

import (
	"fmt"
	"go/token"
	"go/types"
	"strings"

	"golang.org/x/tools/go/ssa"
)

func shortPkg(path string) string {
	if strings.HasPrefix(path, Module+"/") {
		p := strings.TrimPrefix(path, Module+"/")
		p = strings.TrimPrefix(p, "pkg/")
		return p
	}
	return path
}

// TypeKey renders a named type as "<short pkg>.<Name>" (pointers stripped).
func TypeKey(t types.Type) string {
	for {
		if p, ok := t.(*types.Pointer); ok {
			t = p.Elem()
			continue
		}
		break
	}
	switch t := t.(type) {
	case *types.Named:
		if t.Obj().Pkg() == nil {
			return t.Obj().Name()
		}
		return aliasTypeKey(shortPkg(t.Obj().Pkg().Path()) + "." + t.Obj().Name())
	case *types.Alias:
		return TypeKey(types.Unalias(t))
	}
	return t.String()
}

// ObjKey renders a function object as "<short pkg>.<Recv>.<Name>" or "<short pkg>.<Name>".
func objKeyRaw(f *types.Func) string {
	if f == nil {
		return "?"
	}
	sig, _ := f.Type().(*types.Signature)
	if sig != nil && sig.Recv() != nil {
		return TypeKey(sig.Recv().Type()) + "." + f.Name()
	}
	if f.Pkg() == nil {
		return f.Name()
	}
	return shortPkg(f.Pkg().Path()) + "." + f.Name()
}

// ObjKey renders a function object as "<short pkg>.<Recv>.<Name>" or "<short pkg>.<Name>" (renamed anchors keep
// the key the rule tables know, see ResolveRenamedFuncs).
func ObjKey(f *types.Func) string { return aliasFuncKey(objKeyRaw(f)) }

// FuncKey is the stable, line-independent name of an SSA function. Anonymous
// functions are "<parent>$<n>".
func FuncKey(f *ssa.Function) string {
	if f == nil {
		return "?"
	}
	if f.Parent() != nil {
		// f.Name() is "parent$n"
		n := f.Name()
		if i := strings.LastIndex(n, "$"); i >= 0 {
			return FuncKey(f.Parent()) + n[i:]
		}
		return FuncKey(f.Parent()) + "$" + n
	}
	if o, ok := f.Object().(*types.Func); ok && o != nil {
		if f.Origin() != nil && f.Origin() != f {
			return ObjKey(o)
		}
		return ObjKey(o)
	}
	if f.Signature != nil && f.Signature.Recv() != nil {
		return TypeKey(f.Signature.Recv().Type()) + "." + f.Name()
	}
	if f.Pkg != nil {
		return shortPkg(f.Pkg.Pkg.Path()) + "." + f.Name()
	}
	return f.Name()
}

// CalleeKey names what a call instruction calls: the static callee, the
// interface method for invoke-mode calls, "builtin.<name>" or "dynamic".
func CalleeKey(c ssa.CallInstruction) string {
	cc := c.Common()
	if cc.IsInvoke() {
		return ObjKey(cc.Method)
	}
	switch v := cc.Value.(type) {
	case *ssa.Builtin:
		return "builtin." + v.Name()
	case *ssa.Function:
		if fw := passThrough(v); fw != nil {
			return CalleeKey(fw)
		}
		return FuncKey(v)
	case *ssa.MakeClosure:
		if f, ok := v.Fn.(*ssa.Function); ok {
			return FuncKey(f)
		}
	}
	if f := cc.StaticCallee(); f != nil {
		return FuncKey(f)
	}
	return "dynamic"
}

var passThroughCache = map[*ssa.Function]ssa.CallInstruction{}

// passThrough: f is an exported-named method of an unexported type of the repository that hands ALL its parameters,
// in order, to one call and returns that call's results (an adapter mirroring a collaborator's interface). A call of
// f is a call of what it forwards to, with the same arguments in the same positions: CalleeKey answers with the key
// of the forwarded call, so rule tables that name the collaborator's method keep applying at the adapter's call
// sites. (Unexported helpers of that shape are virtually inlined instead.)
func passThrough(f *ssa.Function) ssa.CallInstruction {
	if c, ok := passThroughCache[f]; ok {
		return c
	}
	passThroughCache[f] = nil
	if f == nil || f.Blocks == nil || !token.IsExported(f.Name()) || !thinForwarder(f) || !strings.HasPrefix(PkgPath(f), Module) {
		return nil
	}
	var call *ssa.Call
	for _, in := range f.Blocks[0].Instrs {
		if c, ok := in.(*ssa.Call); ok {
			call = c
		}
	}
	if call == nil {
		return nil
	}
	args := call.Call.Args
	if !call.Call.IsInvoke() {
		if g := call.Call.StaticCallee(); g == nil || g.Signature.Recv() == nil || len(args) == 0 {
			return nil
		}
		args = args[1:]
	}
	if len(args) != len(f.Params)-1 {
		return nil
	}
	for i, a := range args {
		if a != ssa.Value(f.Params[i+1]) {
			return nil
		}
	}
	passThroughCache[f] = call
	return call
}

// CalleeIs reports whether the call's callee key equals one of keys.
func CalleeIs(c ssa.CallInstruction, keys ...string) bool {
	k := CalleeKey(c)
	for _, x := range keys {
		if k == x {
			return true
		}
	}
	return false
}

// CallArgs returns the call's arguments without the receiver for both call modes.
func CallArgs(c ssa.CallInstruction) []ssa.Value {
	cc := c.Common()
	if cc.IsInvoke() {
		return cc.Args
	}
	if f := cc.StaticCallee(); f != nil && f.Signature.Recv() != nil && len(cc.Args) > 0 {
		return cc.Args[1:]
	}
	if _, ok := cc.Value.(*ssa.MakeClosure); ok {
		return cc.Args
	}
	return cc.Args
}

// CallRecv returns the receiver value of a method call (nil for plain functions).
func CallRecv(c ssa.CallInstruction) ssa.Value {
	cc := c.Common()
	if cc.IsInvoke() {
		return cc.Value
	}
	if f := cc.StaticCallee(); f != nil && f.Signature.Recv() != nil && len(cc.Args) > 0 {
		return cc.Args[0]
	}
	return nil
}

// Calls lists the call instructions (call, go, defer) of f in block/instruction order.
func Calls(f *ssa.Function) []ssa.CallInstruction {
	var out []ssa.CallInstruction
	if f == nil {
		return nil
	}
	for _, b := range Blocks(f) {
		for _, in := range b.Instrs {
			if c, ok := in.(ssa.CallInstruction); ok {
				out = append(out, c)
			}
		}
	}
	return out
}

// CallsTo lists the calls in f whose callee key is one of keys.
func CallsTo(f *ssa.Function, keys ...string) []ssa.CallInstruction {
	var out []ssa.CallInstruction
	for _, c := range Calls(f) {
		if CalleeIs(c, keys...) {
			out = append(out, c)
		}
	}
	return out
}

// InstrIndex returns the index of in within its block.
func InstrIndex(in ssa.Instruction) int {
	for i, x := range in.Block().Instrs {
		if x == in {
			return i
		}
	}
	return -1
}

// Site renders "<function>/<what>".
func Site(f *ssa.Function, what string, args ...any) string {
	return FuncKey(f) + "/" + fmt.Sprintf(what, args...)
}

// CalleeKey2 returns the callee key when v is a call value, else "".
func CalleeKey2(v ssa.Value) string {
	if c, ok := v.(*ssa.Call); ok {
		return CalleeKey(c)
	}
	return ""
}

// OwnCalls lists the call instructions of f itself (nothing that is inlined into it): for rules that visit every
// function of a scope on its own.
func OwnCalls(f *ssa.Function) []ssa.CallInstruction {
	var out []ssa.CallInstruction
	if f == nil {
		return nil
	}
	for _, b := range f.Blocks {
		for _, in := range b.Instrs {
			if c, ok := in.(ssa.CallInstruction); ok {
				out = append(out, c)
			}
		}
	}
	return out
}

// OwnCallsTo lists the calls of f itself whose callee key is one of keys.
func OwnCallsTo(f *ssa.Function, keys ...string) []ssa.CallInstruction {
	var out []ssa.CallInstruction
	for _, c := range OwnCalls(f) {
		if CalleeIs(c, keys...) {
			out = append(out, c)
		}
	}
	return out
}

// RecursesInLoop tells whether f calls itself from inside a loop of its (inlined) body: directly, or by handing
// itself (or a closure that calls it) as the function argument a helper applies to the elements in its own loop.
func RecursesInLoop(f *ssa.Function) bool {
	return RecursesInLoopVia(f, func(k string) bool { return strings.HasPrefix(k, "slices.") })
}

// RecursesInLoopVia is RecursesInLoop with the library helpers that count given by the caller (a rule that needs the
// elements of two lists compared PAIRWISE accepts slices.EqualFunc but not slices.ContainsFunc).
func RecursesInLoopVia(f *ssa.Function, helper func(calleeKey string) bool) bool {
	rec := false
	WithHost(f, func() {
		loopCalled := map[*ssa.Function]bool{}
		excluded := map[*ssa.Function]bool{}
		// f (or a closure calling f) handed to an element-wise helper of the standard library (slices.EqualFunc,
		// slices.ContainsFunc, slices.IndexFunc, ...): the helper applies it to the elements in its own loop
		for _, c := range Calls(f) {
			sc := c.Common().StaticCallee()
			if sc == nil || !strings.HasPrefix(CalleeKey(c), "slices.") {
				continue
			}
			if !helper(CalleeKey(c)) {
				// a closure handed to a helper that does not count is not a per-element call of the rule's kind
				for _, a := range c.Common().Args {
					for _, o := range append(Origins(a), a) {
						if g, ok := o.(*ssa.MakeClosure); ok {
							if fn, ok := g.Fn.(*ssa.Function); ok {
								excluded[fn] = true
							}
						}
					}
				}
				continue
			}
			for _, a := range c.Common().Args {
				for _, o := range append(Origins(a), a) {
					switch g := o.(type) {
					case *ssa.Function:
						if g == f {
							rec = true
						} else if g.Parent() != nil {
							loopCalled[g] = true
						}
					case *ssa.MakeClosure:
						if fn, ok := g.Fn.(*ssa.Function); ok {
							loopCalled[fn] = true
						}
					}
				}
			}
		}
		if rec {
			return
		}
		for _, c := range Calls(f) {
			if !OnCycle(c) && !loopCalled[c.Parent()] || excluded[c.Parent()] {
				continue
			}
			if c.Common().StaticCallee() == f {
				rec = true
				return
			}
			if c.Common().IsInvoke() || c.Common().StaticCallee() != nil {
				continue
			}
			for _, o := range Origins(c.Common().Value) {
				switch g := o.(type) {
				case *ssa.Function:
					if g == f {
						rec = true
						return
					}
				case *ssa.MakeClosure:
					if fn, ok := g.Fn.(*ssa.Function); ok {
						loopCalled[fn] = true
					}
				}
			}
		}
		// closures applied in a loop: a direct call of f inside them is a call per element
		for g := range loopCalled {
			for _, c := range OwnCalls(g) {
				if c.Common().StaticCallee() == f {
					rec = true
				}
			}
		}
	})
	return rec
}

// ResolvedCalleeKeys lists the callee keys call c may reach: its static callee / interface method, or - for a call
// through a function value - the functions and method values (x.M) that flow into that value, through parameters of
// virtually inlined helpers.
func ResolvedCalleeKeys(c ssa.CallInstruction) []string {
	cc := c.Common()
	if cc.IsInvoke() || cc.StaticCallee() != nil {
		return []string{CalleeKey(c)}
	}
	if _, isB := cc.Value.(*ssa.Builtin); isB {
		return []string{CalleeKey(c)}
	}
	var out []string
	seen := map[string]bool{}
	add := func(k string) {
		if k != "" && !seen[k] {
			seen[k] = true
			out = append(out, k)
		}
	}
	for _, o := range append(Origins(cc.Value), cc.Value) {
		var fn *ssa.Function
		switch x := o.(type) {
		case *ssa.Function:
			fn = x
		case *ssa.MakeClosure:
			fn, _ = x.Fn.(*ssa.Function)
		}
		if fn == nil {
			continue
		}
		if fn.Synthetic != "" {
			if m, ok := fn.Object().(*types.Func); ok && m != nil {
				add(ObjKey(m)) // bound method value / method expression
				continue
			}
		}
		add(FuncKey(fn))
	}
	return out
}
