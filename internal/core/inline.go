package core

import (
	"fmt"
	"go/token"
	"go/types"
	"os"
	"sort"
	"strings"

	"golang.org/x/tools/go/ssa"
)

// Virtual inlining.
//
// Rules are anchored in named functions. "Extract method" - moving a block of an anchored function into a new
// unexported helper of the same package - is the most common behaviour-preserving change, and it must not make a
// rule lose sight of the moved code. go/ssa has no inliner, so inlining is done at the level of the analysis
// primitives: for a selected set of static call sites the callee's blocks are treated as part of the caller
//   - PathQuery walks into the callee at the call and comes back after it at the callee's returns,
//   - dominance / guard queries start at the entry of the top-level host(s),
//   - Calls / Ifs / StoresToField / LoadsOfField / Blocks of a function include its inlined callees,
//   - Origins and the backward slices bind parameters to arguments and call results to returned values.
// A callee is inlined when it is an unexported, non-recursive function or method of the caller's package that no
// rule mentions by name (rules name their anchors and the callees they look for; everything else is "just code").
// Several call sites and several hosts are allowed; returns then continue after every site (context-insensitive,
// restricted to the host the query started from when there is one).

type inlining struct {
	callee map[ssa.Instruction]*ssa.Function
	sites  map[*ssa.Function][]*ssa.Call
	body   map[*ssa.Function][]*ssa.Function
	inBody map[*ssa.Function]map[*ssa.Function]bool
}

var inl *inlining

// errorSentinels: package-level variables of an interface type that the whole repository assigns exactly once, in
// their package initialiser, with a fresh errors.New / fmt.Errorf value (var ErrX = errors.New("...")): a load of
// such a variable is never nil.
var errorSentinels map[*ssa.Global]bool

func (w *World) findErrorSentinels() {
	stores := map[*ssa.Global][]*ssa.Store{}
	for _, f := range w.RepoFns {
		for _, b := range f.Blocks {
			for _, in := range b.Instrs {
				if st, ok := in.(*ssa.Store); ok {
					if g, ok := st.Addr.(*ssa.Global); ok {
						stores[g] = append(stores[g], st)
					}
				}
			}
		}
	}
	errorSentinels = map[*ssa.Global]bool{}
	for g, sts := range stores {
		if len(sts) != 1 || sts[0].Parent().Name() != "init" || sts[0].Parent().Parent() != nil {
			continue
		}
		v := sts[0].Val
		if mi, ok := v.(*ssa.MakeInterface); ok {
			v = mi.X
		}
		if c, ok := v.(*ssa.Call); ok {
			if k := CalleeKey(c); k == "errors.New" || k == "fmt.Errorf" {
				errorSentinels[g] = true
			}
		}
	}
}

// IsErrorSentinel reports whether v is a load of an error sentinel variable (see errorSentinels).
func IsErrorSentinel(v ssa.Value) bool {
	u, ok := v.(*ssa.UnOp)
	if !ok || u.Op != token.MUL {
		return false
	}
	g, ok := u.X.(*ssa.Global)
	return ok && errorSentinels[g]
}

// DisableInlining turns virtual inlining off (every primitive is intra-procedural again).
func DisableInlining() { inl = nil }

// InliningEnabled reports whether virtual inlining is active.
func InliningEnabled() bool { return inl != nil }

// EnableInlining selects the call sites to inline. mentioned(key, name) tells whether a rule names the function.
func (w *World) EnableInlining(mentioned func(key, name string) bool) int {
	w.findErrorSentinels()
	st := &inlining{callee: map[ssa.Instruction]*ssa.Function{}, sites: map[*ssa.Function][]*ssa.Call{}, body: map[*ssa.Function][]*ssa.Function{}, inBody: map[*ssa.Function]map[*ssa.Function]bool{}}
	top := func(f *ssa.Function) *ssa.Function {
		for f.Parent() != nil {
			f = f.Parent()
		}
		return f
	}
	// static call graph among candidate callees, for the recursion test
	static := map[*ssa.Function][]*ssa.Function{}
	for _, f := range w.RepoFns {
		for _, b := range f.Blocks {
			for _, in := range b.Instrs {
				if c, ok := in.(ssa.CallInstruction); ok {
					if g := c.Common().StaticCallee(); g != nil && g.Blocks != nil {
						static[f] = append(static[f], g)
					}
				}
			}
		}
	}
	pre := map[*ssa.Function]bool{}
	preCandidate := func(h *ssa.Function) bool {
		if v, done := pre[h]; done {
			return v
		}
		r := h != nil && h.Blocks != nil && h.Parent() == nil && pkgOf(h) != nil &&
			strings.HasPrefix(pkgOf(h).Pkg.Path(), Module) && !strings.Contains(pkgOf(h).Pkg.Path(), "/mocks/") &&
			!token.IsExported(h.Name()) && h.Name() != "init" && !strings.HasPrefix(h.Name(), "init#") &&
			!mentioned(FuncKey(h), h.Name())
		pre[h] = r
		return r
	}
	// a cycle of inlinable functions cannot be inlined; recursion that passes through a function that is not
	// inlinable (an anchor, an exported function) is an ordinary call there and does no harm
	recursive := func(h *ssa.Function) bool {
		seen := map[*ssa.Function]bool{}
		var work []*ssa.Function
		for _, g := range static[h] {
			if preCandidate(g) {
				work = append(work, g)
			}
		}
		for len(work) > 0 {
			g := work[len(work)-1]
			work = work[:len(work)-1]
			if g == h {
				return true
			}
			if seen[g] {
				continue
			}
			seen[g] = true
			for _, k := range static[g] {
				if preCandidate(k) {
					work = append(work, k)
				}
			}
		}
		return false
	}
	ok := map[*ssa.Function]bool{}
	candidate := func(h *ssa.Function) bool {
		if v, done := ok[h]; done {
			return v
		}
		r := preCandidate(h) && !recursive(h)
		ok[h] = r
		return r
	}
	for _, f := range w.RepoFns {
		if f.Pkg == nil && f.Parent() == nil {
			continue
		}
		tf := top(f)
		if tf.Pkg == nil || strings.Contains(tf.Pkg.Pkg.Path(), "/mocks/") {
			continue
		}
		for _, b := range f.Blocks {
			for _, in := range b.Instrs {
				c, isCall := in.(*ssa.Call)
				if !isCall {
					continue
				}
				h := c.Call.StaticCallee()
				if dbg := os.Getenv("DSCHECK_DEBUG_INLINE_FN"); dbg != "" && h != nil && strings.Contains(h.Name(), dbg) {
					fmt.Printf("inline? %s from %s: blocks=%v parent=%v exported=%v mentioned=%v recursive=%v samepkg=%v\n", FuncKey(h), FuncKey(f), h.Blocks != nil, h.Parent() != nil, token.IsExported(h.Name()), mentioned(FuncKey(h), h.Name()), recursive(h), pkgOf(h) == tf.Pkg)
				}
				if h == nil || h == f || !candidate(h) || pkgOf(h) != tf.Pkg {
					continue
				}
				st.callee[c] = h
				st.sites[h] = append(st.sites[h], c)
			}
		}
	}
	inl = st
	returnFactCache = map[*ssa.Return][]resultFact{}
	return len(st.callee)
}

// thinForwarder: h is a method of an UNEXPORTED type whose body is one basic block with exactly one call that is
// handed h's parameters (an adapter between the code and a collaborator: func (a adapter) Modify(ctx, ...) error {
// return a.client.Modify(ctx, ...) }). Its exported name is an accident of the interface it mirrors; within the
// package it is as much a part of its callers as an unexported helper.
func thinForwarder(h *ssa.Function) bool {
	if h.Signature == nil || h.Signature.Recv() == nil || len(h.Blocks) != 1 {
		return false
	}
	t := h.Signature.Recv().Type()
	if p, ok := t.Underlying().(*types.Pointer); ok {
		t = p.Elem()
	}
	if p, ok := t.(*types.Pointer); ok {
		t = p.Elem()
	}
	n, ok := t.(*types.Named)
	if !ok || n.Obj().Exported() {
		return false
	}
	calls := 0
	for _, in := range h.Blocks[0].Instrs {
		switch x := in.(type) {
		case ssa.CallInstruction:
			calls++
			if _, isCall := x.(*ssa.Call); !isCall {
				return false
			}
		case *ssa.Store:
			// the spill of a value receiver into a local is no effect
			if al, isLocal := x.Addr.(*ssa.Alloc); !isLocal || al.Heap {
				return false
			}
		case *ssa.MapUpdate, *ssa.Send:
			return false
		}
	}
	return calls == 1
}

// InlinedCallee returns the callee when in is an inlined call site.
func InlinedCallee(in ssa.Instruction) *ssa.Function {
	if inl == nil {
		return nil
	}
	return inl.callee[in]
}

// IsInlined reports whether f is inlined at (some of) its call sites.
func IsInlined(f *ssa.Function) bool {
	return inl != nil && len(inl.sites[f]) > 0
}

// InlineSites lists the inlined call sites of f.
func InlineSites(f *ssa.Function) []*ssa.Call {
	if inl == nil {
		return nil
	}
	return inl.sites[f]
}

// Body lists f followed by the functions inlined into it, transitively (each once, depth <= 4).
func Body(f *ssa.Function) []*ssa.Function {
	if f == nil {
		return nil
	}
	if inl == nil {
		return []*ssa.Function{f}
	}
	if b, ok := inl.body[f]; ok {
		return b
	}
	seen := map[*ssa.Function]bool{f: true}
	out := []*ssa.Function{f}
	var rec func(g *ssa.Function, d int)
	rec = func(g *ssa.Function, d int) {
		if d > 4 {
			return
		}
		for _, b := range g.Blocks {
			for _, in := range b.Instrs {
				if h := inl.callee[in]; h != nil {
					if !seen[h] {
						seen[h] = true
						out = append(out, h)
						rec(h, d+1)
					}
					// callbacks handed to the inlined helper (closures / functions of the repository) run as part of it
					for _, a := range in.(*ssa.Call).Call.Args {
						var t *ssa.Function
						switch x := a.(type) {
						case *ssa.MakeClosure:
							t, _ = x.Fn.(*ssa.Function)
						case *ssa.Function:
							t = x
						}
						if t != nil && t.Blocks != nil && !seen[t] && pkgOf(t) != nil && strings.HasPrefix(pkgOf(t).Pkg.Path(), Module) {
							seen[t] = true
							out = append(out, t)
							rec(t, d+1)
						}
					}
				}
			}
		}
	}
	rec(f, 0)
	inl.body[f] = out
	inl.inBody[f] = seen
	return out
}

// InBody reports whether g is f or inlined into f.
func InBody(f, g *ssa.Function) bool {
	if f == g {
		return true
	}
	if inl == nil {
		return false
	}
	Body(f)
	return inl.inBody[f][g]
}

// Blocks lists the basic blocks of f and of everything inlined into it.
func Blocks(f *ssa.Function) []*ssa.BasicBlock {
	if f == nil {
		return nil
	}
	if inl == nil {
		return f.Blocks
	}
	var out []*ssa.BasicBlock
	for _, g := range Body(f) {
		out = append(out, g.Blocks...)
	}
	return out
}

// Roots lists the top-level hosts of f: f itself when it is not inlined anywhere, otherwise the functions at the top
// of its chains of inlined call sites.
func Roots(f *ssa.Function) []*ssa.Function {
	if f == nil {
		return nil
	}
	if !IsInlined(f) {
		return []*ssa.Function{f}
	}
	seen := map[*ssa.Function]bool{}
	var out []*ssa.Function
	var rec func(g *ssa.Function, d int)
	rec = func(g *ssa.Function, d int) {
		if seen[g] || d > 6 {
			return
		}
		seen[g] = true
		if !IsInlined(g) {
			out = append(out, g)
			return
		}
		for _, s := range inl.sites[g] {
			rec(s.Parent(), d+1)
		}
	}
	rec(f, 0)
	sort.Slice(out, func(i, j int) bool { return FuncKey(out[i]) < FuncKey(out[j]) })
	return out
}

// HostKeys lists the keys of the top-level hosts of f (closures count for their enclosing function).
func HostKeys(f *ssa.Function) []string {
	var out []string
	seen := map[string]bool{}
	for _, r := range Roots(f) {
		k := FuncKey(r)
		if !seen[k] {
			seen[k] = true
			out = append(out, k)
		}
	}
	return out
}

// HostKey is the key of the single top-level host of f, or f's own key when there are several.
func HostKey(f *ssa.Function) string {
	if ks := HostKeys(f); len(ks) == 1 {
		return ks[0]
	}
	return FuncKey(f)
}

// inlinedArgs returns, for parameter p of an inlined function, the arguments bound to it at the inlined sites.
func inlinedArgs(p *ssa.Parameter) []ssa.Value {
	f := p.Parent()
	if !IsInlined(f) {
		return nil
	}
	idx := -1
	for i, q := range f.Params {
		if q == p {
			idx = i
		}
	}
	if idx < 0 {
		return nil
	}
	var out []ssa.Value
	for _, s := range inl.sites[f] {
		if hostCtx != nil && !InBody(hostCtx, s.Parent()) {
			continue
		}
		if idx < len(s.Call.Args) {
			out = append(out, s.Call.Args[idx])
		}
	}
	return out
}

// hostCtx, when set, is the anchored function a rule is looking at: parameters of helpers that are inlined into
// several hosts are then bound to the arguments of the call sites inside this host only.
var hostCtx *ssa.Function

// WithHost runs fn with the given function as the host context of Origins / OriginCalls / HasOrigin.
func WithHost(host *ssa.Function, fn func()) {
	saved := hostCtx
	hostCtx = host
	defer func() { hostCtx = saved }()
	fn()
}

// inlinedResults returns the values an inlined call yields for result index idx (-1: single result / all).
func inlinedResults(c *ssa.Call, idx int) []ssa.Value {
	h := InlinedCallee(c)
	if h == nil {
		return nil
	}
	var out []ssa.Value
	for _, ret := range Returns(h) {
		rv := ReturnValues(ret)
		switch {
		case idx < 0:
			out = append(out, rv...)
		case idx < len(rv):
			out = append(out, rv[idx])
		}
	}
	return out
}

// HostsIn reports whether every top-level host of f is one of keys (who-may-call rules: code moved into an inlined
// helper still belongs to the function it was moved out of).
func HostsIn(f *ssa.Function, keys ...string) bool {
	for _, k := range HostKeys(f) {
		ok := false
		for _, x := range keys {
			if k == x {
				ok = true
			}
		}
		if !ok {
			return false
		}
	}
	return true
}

// WithoutInlining runs fn with virtual inlining switched off (rules that judge every function of a scope on its own).
func WithoutInlining(fn func()) {
	saved := inl
	inl = nil
	defer func() { inl = saved }()
	fn()
}

// queryRoots: the entries a dominance / guard question about an instruction of f starts from: the host a rule is
// looking at (WithHost) when f is part of it, otherwise all top-level hosts of f.
func queryRoots(f *ssa.Function) []*ssa.Function {
	if hostCtx != nil && InBody(hostCtx, f) {
		return []*ssa.Function{hostCtx}
	}
	return Roots(f)
}

// Spawned lists the functions that f (or a helper inlined into it) starts with a go statement: closures and
// named functions alike.
func Spawned(f *ssa.Function) []*ssa.Function {
	var out []*ssa.Function
	seen := map[*ssa.Function]bool{}
	for _, b := range Blocks(f) {
		for _, in := range b.Instrs {
			g, ok := in.(*ssa.Go)
			if !ok {
				continue
			}
			var t *ssa.Function
			switch v := g.Call.Value.(type) {
			case *ssa.Function:
				t = v
			case *ssa.MakeClosure:
				t, _ = v.Fn.(*ssa.Function)
			}
			if t == nil {
				t = g.Call.StaticCallee()
			}
			if t != nil && t.Blocks != nil && !seen[t] {
				seen[t] = true
				out = append(out, t)
			}
		}
	}
	return out
}

// pkgOf: the package a function belongs to; instantiations of generic functions belong to their origin's package.
func pkgOf(f *ssa.Function) *ssa.Package {
	if f == nil {
		return nil
	}
	if f.Pkg != nil {
		return f.Pkg
	}
	if o := f.Origin(); o != nil {
		return o.Pkg
	}
	return nil
}

// EffectiveReturns lists the return instructions through which f hands back its results: its own, except that a
// return which merely forwards the results of a virtually inlined call is replaced by that callee's returns.
func EffectiveReturns(f *ssa.Function) []*ssa.Return {
	var out []*ssa.Return
	var rec func(g *ssa.Function, d int)
	rec = func(g *ssa.Function, d int) {
		for _, ret := range Returns(g) {
			var site *ssa.Call
			if d < 3 && len(ret.Results) > 0 {
				all := true
				for i, rv := range ret.Results {
					var c *ssa.Call
					switch x := rv.(type) {
					case *ssa.Call:
						c = x
					case *ssa.Extract:
						c, _ = x.Tuple.(*ssa.Call)
						if x.Index != i {
							c = nil
						}
					}
					if c == nil || InlinedCallee(c) == nil || (site != nil && site != c) {
						all = false
						break
					}
					site = c
				}
				if !all {
					site = nil
				}
			}
			if site != nil {
				rec(InlinedCallee(site), d+1)
			} else {
				out = append(out, ret)
			}
		}
	}
	rec(f, 0)
	return out
}

// VCall is a call seen from an anchored function f: the call itself when it is written in f (or in a helper that is
// called once), or one instance per call of the helper that contains it, with the helper's parameters among the
// arguments replaced by what that call of the helper passes. At is the instruction that stands for the call in
// ordering / guard questions asked about f: the call, or the helper's call site.
type VCall struct {
	Call ssa.CallInstruction
	Site *ssa.Call
	At   ssa.Instruction
	Args []ssa.Value // as CallArgs (no receiver)
}

// BindAt resolves v, a value of the helper that contains vc.Call, at the helper's call site of this instance.
func (vc VCall) BindAt(v ssa.Value) ssa.Value {
	if vc.Site == nil || v == nil {
		return v
	}
	h := InlinedCallee(vc.Site)
	res := v
	WithoutInlining(func() {
		for _, o := range append(Origins(v), v) {
			if p, ok := o.(*ssa.Parameter); ok && p.Parent() == h {
				for i, q := range h.Params {
					if q == p && i < len(vc.Site.Call.Args) {
						res = vc.Site.Call.Args[i]
					}
				}
			}
		}
	})
	return res
}

// VirtualCalls lists the calls to keys in the (inlined) body of f, one instance per call of a shared helper.
func VirtualCalls(f *ssa.Function, callArgs func(ssa.CallInstruction) []ssa.Value, calls []ssa.CallInstruction) []VCall {
	var out []VCall
	for _, c := range calls {
		h := c.Parent()
		var sites []*ssa.Call
		if h != f && IsInlined(h) {
			for _, s := range InlineSites(h) {
				if InBody(f, s.Parent()) {
					sites = append(sites, s)
				}
			}
		}
		if len(sites) < 2 {
			out = append(out, VCall{Call: c, At: c, Args: callArgs(c)})
			continue
		}
		for _, s := range sites {
			vc := VCall{Call: c, Site: s, At: s}
			for _, a := range callArgs(c) {
				vc.Args = append(vc.Args, vc.BindAt(a))
			}
			out = append(out, vc)
		}
	}
	return out
}

// PkgPath is the import path of the package f belongs to ("" when unknown); instantiations of generic functions
// have no Pkg of their own and answer with the package of their origin.
func PkgPath(f *ssa.Function) string {
	for f != nil && f.Parent() != nil {
		f = f.Parent()
	}
	if p := pkgOf(f); p != nil && p.Pkg != nil {
		return p.Pkg.Path()
	}
	return ""
}

// CallbackInvocations: closure mc (made in a function of the repository) is handed, as an argument, to virtually
// inlined helpers that call that parameter; the calls of the parameter inside the helpers are returned (empty when mc
// is used in any other way: stored, deferred, started as a goroutine, handed to a function that is not inlined).
func CallbackInvocations(mc *ssa.MakeClosure) []*ssa.Call {
	var out []*ssa.Call
	if mc.Referrers() == nil {
		return nil
	}
	for _, ref := range *mc.Referrers() {
		s, ok := ref.(*ssa.Call)
		if !ok {
			if _, isDbg := ref.(*ssa.DebugRef); isDbg {
				continue
			}
			return nil
		}
		h := InlinedCallee(s)
		if h == nil {
			return nil
		}
		found := false
		for i, a := range s.Call.Args {
			if a != ssa.Value(mc) || i >= len(h.Params) {
				continue
			}
			p := h.Params[i]
			if p.Referrers() == nil {
				continue
			}
			for _, pr := range *p.Referrers() {
				switch pc := pr.(type) {
				case *ssa.Call:
					if pc.Call.Value == ssa.Value(p) {
						out = append(out, pc)
						found = true
					} else {
						return nil
					}
				case *ssa.DebugRef:
				default:
					return nil
				}
			}
		}
		if !found {
			return nil
		}
	}
	return out
}

// CallbackTarget: c calls a function-valued parameter of a virtually inlined helper; the closure / function bound to
// that parameter at the helper's call site in the current host (WithHost), when there is exactly one such site.
func CallbackTarget(c *ssa.Call) *ssa.Function {
	if inl == nil || c.Call.IsInvoke() || c.Call.StaticCallee() != nil {
		return nil
	}
	p, ok := c.Call.Value.(*ssa.Parameter)
	if !ok || !IsInlined(p.Parent()) {
		return nil
	}
	var site *ssa.Call
	for _, s := range InlineSites(p.Parent()) {
		if hostCtx != nil && !InBody(hostCtx, s.Parent()) && s.Parent() != hostCtx {
			continue
		}
		if site != nil {
			return nil
		}
		site = s
	}
	if site == nil {
		return nil
	}
	for i, q := range p.Parent().Params {
		if q != p || i >= len(site.Call.Args) {
			continue
		}
		switch x := site.Call.Args[i].(type) {
		case *ssa.MakeClosure:
			if t, ok := x.Fn.(*ssa.Function); ok && t.Blocks != nil {
				return t
			}
		case *ssa.Function:
			if x.Blocks != nil && strings.HasPrefix(PkgPath(x), Module) {
				return x
			}
		}
	}
	return nil
}
