package core

import (
	"go/token"
	"go/types"
	"strings"

	"golang.org/x/tools/go/ssa"
)

// Flow is a forward, field-based, context-insensitive value-flow closure over
// the repository's SSA: starting from source values it computes everything
// their value can reach by copy, phi, conversion, store/load through locals,
// struct fields (keyed by "<Type>.<field>", all objects of a type conflated),
// collections (append / element store / map update taint the container, loads
// and ranges of a tainted container are tainted), call binding (arguments to
// parameters through the call graph, closure bindings to free variables) and
// returns (to every call site of the function). No flow through arithmetic,
// comparison or control dependence. ABSENCE of a flow is definite for these
// edge kinds; presence does not prove correctness.
type Flow struct {
	w       *World
	// NoParams: do not bind arguments to the parameters of repository callees (the flow then follows what a function
	// makes itself or receives as a RESULT, through variables, containers and fields - not what its callers hand in).
	NoParams bool
	Values  map[ssa.Value]bool
	Fields  map[string]bool
	Globals map[*ssa.Global]bool
	// Through lists function keys whose calls propagate receiver/arguments to the result
	// although they have no body in the repository (e.g. protobuf getters, proto.Clone).
	work []ssa.Value
}

// NewFlow creates an empty flow closure.
func (w *World) NewFlow() *Flow {
	return &Flow{w: w, Values: map[ssa.Value]bool{}, Fields: map[string]bool{}, Globals: map[*ssa.Global]bool{}}
}

// AddSource marks v as carrying the tracked value.
func (f *Flow) AddSource(v ssa.Value) {
	if v != nil && !f.Values[v] {
		f.Values[v] = true
		f.work = append(f.work, v)
	}
}

// AddField marks a struct field (all instances) as carrying the tracked value.
func (f *Flow) AddField(key string) {
	if f.Fields[key] {
		return
	}
	f.Fields[key] = true
	// every load of that field anywhere in the repository
	for _, fn := range f.w.RepoFns {
		for _, l := range LoadsOfField(fn, key) {
			f.AddSource(l)
		}
		// addresses of the field passed around (rare): taint the FieldAddr too
	}
}

func isRepoFunc(fn *ssa.Function) bool {
	return fn != nil && fn.Blocks != nil && fn.Pkg != nil && strings.HasPrefix(fn.Pkg.Pkg.Path(), Module)
}

// Run propagates to a fix-point.
func (f *Flow) Run() *Flow {
	cg := f.w.CG()
	ix := f.w.fvIdx()
	for len(f.work) > 0 {
		v := f.work[len(f.work)-1]
		f.work = f.work[:len(f.work)-1]
		// parameters: nothing special (uses handled through referrers)
		refs := v.Referrers()
		if refs == nil {
			continue
		}
		for _, ref := range *refs {
			switch x := ref.(type) {
			case *ssa.Phi:
				f.AddSource(x)
			case *ssa.Extract:
				f.AddSource(x)
			case *ssa.ChangeType:
				f.AddSource(x)
			case *ssa.ChangeInterface:
				f.AddSource(x)
			case *ssa.Convert:
				f.AddSource(x)
			case *ssa.MakeInterface:
				f.AddSource(x)
			case *ssa.TypeAssert:
				f.AddSource(x)
			case *ssa.Slice:
				f.AddSource(x)
			case *ssa.SliceToArrayPointer:
				f.AddSource(x)
			case *ssa.UnOp:
				if x.Op == token.MUL || x.Op == token.ARROW {
					f.AddSource(x) // load through a tainted pointer / receive from tainted channel
				}
			case *ssa.Field:
				// value-mode struct copy: fields of a tainted struct value are tainted
				f.AddSource(x)
			case *ssa.Index:
				if x.X == v {
					f.AddSource(x)
				}
			case *ssa.IndexAddr:
				if x.X == v {
					f.AddSource(x)
				}
			case *ssa.Lookup:
				if x.X == v {
					f.AddSource(x)
				}
			case *ssa.Range:
				f.AddSource(x)
			case *ssa.Next:
				f.AddSource(x)
			case *ssa.Send:
				if x.X == v {
					f.AddSource(x.Chan)
				}
			case *ssa.MapUpdate:
				if x.Value == v || x.Key == v {
					f.AddSource(x.Map)
					// a map stored in a local/field: taint that too through its origins
					for _, o := range Origins(x.Map) {
						f.AddSource(o)
						f.taintContainerHome(o)
					}
				}
			case *ssa.Store:
				if x.Val != v {
					continue
				}
				switch a := x.Addr.(type) {
				case *ssa.FieldAddr:
					f.AddField(FieldKey(a))
				case *ssa.Alloc:
					f.AddSource(a) // loads are referrers of the alloc (UnOp MUL) -> handled above
				case *ssa.IndexAddr:
					// element store taints the container
					f.AddSource(a.X)
					for _, o := range Origins(a.X) {
						f.AddSource(o)
						f.taintContainerHome(o)
					}
				case *ssa.Global:
					if !f.Globals[a] {
						f.Globals[a] = true
						f.AddSource(a)
					}
				case *ssa.FreeVar:
					f.AddSource(a)
				default:
					f.AddSource(x.Addr)
				}
			case *ssa.MakeClosure:
				fn, ok := x.Fn.(*ssa.Function)
				if !ok {
					continue
				}
				for i, b := range x.Bindings {
					if b == v && i < len(fn.FreeVars) {
						f.AddSource(fn.FreeVars[i])
					}
				}
			case *ssa.Return:
				fn := x.Parent()
				idx := -1
				for i, r := range x.Results {
					if r == v {
						idx = i
					}
				}
				if idx < 0 {
					continue
				}
				for _, c := range ix.callers[fn] {
					f.taintCallResult(c, idx, len(x.Results))
				}
				for _, e := range cg.In[fn] {
					if c, ok := e.Site.(ssa.CallInstruction); ok && e.Kind != "ref" {
						f.taintCallResult(c, idx, len(x.Results))
					}
				}
			case ssa.CallInstruction:
				f.throughCall(x, v)
			}
		}
	}
	return f
}

// taintContainerHome: when a container value loaded from a field / local becomes tainted, its home is tainted too.
func (f *Flow) taintContainerHome(o ssa.Value) {
	if u, ok := o.(*ssa.UnOp); ok && u.Op == token.MUL {
		switch a := u.X.(type) {
		case *ssa.FieldAddr:
			f.AddField(FieldKey(a))
		case *ssa.Alloc:
			f.AddSource(a)
		}
	}
}

func (f *Flow) taintCallResult(c ssa.CallInstruction, idx, n int) {
	v := c.Value()
	if v == nil {
		return
	}
	if n == 1 {
		f.AddSource(v)
		return
	}
	if v.Referrers() == nil {
		return
	}
	for _, ref := range *v.Referrers() {
		if ex, ok := ref.(*ssa.Extract); ok && ex.Index == idx {
			f.AddSource(ex)
		}
	}
}

// throughCall handles a tainted value v used as receiver or argument of call c.
func (f *Flow) throughCall(c ssa.CallInstruction, v ssa.Value) {
	cc := c.Common()
	// builtins
	if bi, ok := cc.Value.(*ssa.Builtin); ok {
		switch bi.Name() {
		case "append", "copy", "min", "max":
			if val := c.Value(); val != nil {
				f.AddSource(val)
			}
			if bi.Name() == "copy" && len(cc.Args) == 2 && cc.Args[1] == v {
				f.AddSource(cc.Args[0])
			}
		}
		return
	}
	// resolve targets
	var targets []*ssa.Function
	for _, e := range f.w.CG().Out[c.Parent()] {
		if e.Site == ssa.Instruction(c) && e.Callee != nil && e.Kind != "ref" {
			targets = append(targets, e.Callee)
		}
	}
	bound := false
	for _, t := range targets {
		if !isRepoFunc(t) {
			continue
		}
		if f.NoParams {
			bound = true
			continue
		}
		// map argument positions to parameters
		args := cc.Args
		params := t.Params
		off := 0
		if cc.IsInvoke() {
			// receiver is cc.Value
			if cc.Value == v && len(params) > 0 {
				f.AddSource(params[0])
				bound = true
			}
			off = 1
		}
		for i, a := range args {
			if a == v && i+off < len(params) {
				f.AddSource(params[i+off])
				bound = true
			}
		}
		// closure call: bindings handled at MakeClosure
	}
	if bound {
		return
	}
	// no repository body: summaries. Value-preserving library calls propagate arguments to the result.
	key := CalleeKey(c)
	if flowThrough(key, c) {
		if val := c.Value(); val != nil {
			f.AddSource(val)
			if _, isTuple := val.Type().(*types.Tuple); isTuple && val.Referrers() != nil {
				for _, ref := range *val.Referrers() {
					if ex, ok := ref.(*ssa.Extract); ok && !isErrorLike(ex.Type()) {
						f.AddSource(ex)
					}
				}
			}
		}
	}
}

func isErrorLike(t types.Type) bool {
	n, ok := t.(*types.Named)
	return ok && n.Obj().Pkg() == nil && n.Obj().Name() == "error"
}

// flowThrough: calls without a repository body whose result carries (part of) an argument's value.
func flowThrough(key string, c ssa.CallInstruction) bool {
	switch {
	case strings.HasPrefix(key, "github.com/sdcio/sdc-protos/sdcpb.") && strings.Contains(key, ".Get"):
		return true // protobuf getters: result is part of the receiver
	case strings.HasPrefix(key, "github.com/openconfig/gnmi/proto/gnmi.") && strings.Contains(key, ".Get"):
		return true
	case key == "google.golang.org/protobuf/proto.Clone", key == "google.golang.org/protobuf/proto.Marshal":
		return true
	case strings.HasPrefix(key, "slices."), strings.HasPrefix(key, "maps."):
		return true
	case strings.HasPrefix(key, "strings.Join"), key == "strings.TrimSpace", key == "strings.Clone":
		return true
	case key == "fmt.Sprintf", key == "fmt.Sprint":
		return true
	}
	return false
}

// Reaches reports whether v carries the tracked value.
func (f *Flow) Reaches(v ssa.Value) bool {
	if v == nil {
		return false
	}
	if f.Values[v] {
		return true
	}
	for _, o := range Origins(v) {
		if f.Values[o] {
			return true
		}
	}
	return false
}
