package core

import (
	"fmt"
	"os"
	"sort"
	"strings"

	"golang.org/x/tools/go/ssa"
)

// Held is one lock known to be held: mode ("W" exclusive, "R" shared), the lock
// class (struct field of the mutex, "<Type>.<field>") and the SSA value of the
// struct that owns the mutex (Base). For locks held at function entry the base
// is the callee parameter it was mapped to (nil when it could not be mapped).
type Held struct {
	Mode  string
	Class string
	Base  ssa.Value
}

type lockState map[string]Held // key = mode|class|baseName

func hkey(h Held) string {
	b := "?"
	if h.Base != nil {
		b = h.Base.Name()
	}
	return h.Mode + "|" + h.Class + "|" + b
}

func (s lockState) clone() lockState {
	n := lockState{}
	for k, v := range s {
		n[k] = v
	}
	return n
}

func intersect(a, b lockState) lockState {
	n := lockState{}
	for k, v := range a {
		if _, ok := b[k]; ok {
			n[k] = v
		}
	}
	return n
}

func sameState(a, b lockState) bool {
	if len(a) != len(b) {
		return false
	}
	for k := range a {
		if _, ok := b[k]; !ok {
			return false
		}
	}
	return true
}

// LockOp classifies a call as a mutex operation.
// kind: "lock", "rlock", "unlock", "runlock", "trylock", "tryrlock" or "".
func LockOp(c ssa.CallInstruction) (kind, class string, base ssa.Value) {
	k := CalleeKey(c)
	switch k {
	case "sync.Mutex.Lock", "sync.RWMutex.Lock":
		kind = "lock"
	case "sync.RWMutex.RLock":
		kind = "rlock"
	case "sync.Mutex.Unlock", "sync.RWMutex.Unlock":
		kind = "unlock"
	case "sync.RWMutex.RUnlock":
		kind = "runlock"
	case "sync.Mutex.TryLock", "sync.RWMutex.TryLock":
		kind = "trylock"
	case "sync.RWMutex.TryRLock":
		kind = "tryrlock"
	default:
		return "", "", nil
	}
	recv := CallRecv(c)
	class = FieldOf(recv)
	if class == "" {
		// the mutex is handed to a helper by address (rLockIndex(ctx, &c.mu, &c.index)): a class that stands for
		// "parameter i"; the caller's analysis puts the class of its argument in (see AnalyzeLocks)
		if p, ok := recv.(*ssa.Parameter); ok {
			for i, q := range p.Parent().Params {
				if q == p {
					return kind, fmt.Sprintf("$param:%d", i), p
				}
			}
		}
	}
	return kind, class, stripLoads(FieldBase(recv))
}

func stripLoads(v ssa.Value) ssa.Value {
	return v
}

// FuncLocks is the result of the intra-procedural must-lockset analysis of one function.
type FuncLocks struct {
	Fn       *ssa.Function
	before   map[ssa.Instruction]lockState
	Acquires map[string]bool // classes acquired anywhere in the function (any mode)
}

// HeldBefore returns the locks that are held on every path reaching in (locks taken inside this function only).
func (fl *FuncLocks) HeldBefore(in ssa.Instruction) []Held {
	var out []Held
	for _, h := range fl.before[in] {
		out = append(out, h)
	}
	sort.Slice(out, func(i, j int) bool { return hkey(out[i]) < hkey(out[j]) })
	return out
}

// AnalyzeLocks runs the forward must-analysis over fn's CFG.
// defer Unlock keeps the lock until the function returns; TryLock adds the
// lock on the success edge of the branch that tests its result.
func AnalyzeLocks(fn *ssa.Function) *FuncLocks {
	fl := &FuncLocks{Fn: fn, before: map[ssa.Instruction]lockState{}, Acquires: map[string]bool{}}
	if fn == nil || len(fn.Blocks) == 0 {
		return fl
	}
	in := map[*ssa.BasicBlock]lockState{}
	visited := map[*ssa.BasicBlock]bool{}
	work := []*ssa.BasicBlock{fn.Blocks[0]}
	in[fn.Blocks[0]] = lockState{}
	visited[fn.Blocks[0]] = true
	apply := func(st lockState, instr ssa.Instruction) lockState {
		c, ok := instr.(ssa.CallInstruction)
		if !ok {
			return st
		}
		if _, isGo := c.(*ssa.Go); isGo {
			return st
		}
		kind, class, base := LockOp(c)
		if kind == "" || class == "" {
			// a helper that returns with a lock held (lock wrapper): all its returns hold it and it defers no unlock
			if _, isDefer := c.(*ssa.Defer); !isDefer {
				if g := c.Common().StaticCallee(); g != nil && g != fn {
					for _, h := range returnHeld(g) {
						nb := h.Base
						if nb != nil {
							if pr, ok := rootOf(nb).(*ssa.Parameter); ok && pr.Parent() == g {
								nb = nil
								for i, q := range g.Params {
									if q == pr && i < len(c.Common().Args) {
										nb = c.Common().Args[i]
									}
								}
							}
						}
						cls := h.Class
						if strings.HasPrefix(cls, "$param:") {
							// the helper locked the mutex it was handed: class and owner of the argument
							var idx int
							fmt.Sscanf(cls, "$param:%d", &idx)
							if idx >= len(c.Common().Args) {
								continue
							}
							arg := c.Common().Args[idx]
							cls = FieldOf(arg)
							if cls == "" {
								if fa, ok := arg.(*ssa.FieldAddr); ok {
									cls = FieldKey(fa)
								}
							}
							if cls == "" {
								continue
							}
							nb = FieldBase(arg)
							if fa, ok := arg.(*ssa.FieldAddr); ok {
								nb = fa.X
							}
						}
						st = st.clone()
						nh := Held{h.Mode, cls, nb}
						st[hkey(nh)] = nh
						fl.Acquires[cls] = true
					}
				}
			}
			return st
		}
		_, isDefer := c.(*ssa.Defer)
		switch kind {
		case "lock":
			if !isDefer {
				st = st.clone()
				h := Held{"W", class, base}
				st[hkey(h)] = h
				fl.Acquires[class] = true
			}
		case "rlock":
			if !isDefer {
				st = st.clone()
				h := Held{"R", class, base}
				st[hkey(h)] = h
				fl.Acquires[class] = true
			}
		case "unlock":
			if !isDefer {
				st = st.clone()
				delete(st, hkey(Held{"W", class, base}))
			}
		case "runlock":
			if !isDefer {
				st = st.clone()
				delete(st, hkey(Held{"R", class, base}))
			}
		case "trylock", "tryrlock":
			fl.Acquires[class] = true
		}
		return st
	}
	for len(work) > 0 {
		b := work[0]
		work = work[1:]
		st := in[b]
		for _, instr := range b.Instrs {
			fl.before[instr] = st
			st = apply(st, instr)
		}
		for si, s := range b.Succs {
			out := st
			// TryLock success edge
			if iff, ok := b.Instrs[len(b.Instrs)-1].(*ssa.If); ok {
				v, neg := StripNot(iff.Cond)
				for _, oc := range OriginCalls(v) {
					kind, class, base := LockOp(oc)
					if (kind == "trylock" || kind == "tryrlock") && class != "" {
						succTrue := si == 0
						if neg {
							succTrue = !succTrue
						}
						if succTrue {
							out = out.clone()
							mode := "W"
							if kind == "tryrlock" {
								mode = "R"
							}
							h := Held{mode, class, base}
							out[hkey(h)] = h
						}
					}
				}
			}
			if !visited[s] {
				visited[s] = true
				in[s] = out
				work = append(work, s)
				continue
			}
			n := intersect(in[s], out)
			if !sameState(n, in[s]) {
				in[s] = n
				work = append(work, s)
			}
		}
	}
	return fl
}

// LockWorld holds the per-function lock analyses and the interprocedural summaries.
type LockWorld struct {
	W         *World
	Funcs     map[*ssa.Function]*FuncLocks
	AcqTrans  map[*ssa.Function]map[string]bool // classes acquired by f or anything it calls synchronously
	EntryHeld map[*ssa.Function][]EntryHeld     // locks held by every caller at every call site
	SkipEdge  func(Edge) bool                   // edges ignored for EntryHeld (frozen exceptions)
}

// EntryHeld is a lock held by all callers of a function: mode, class and, when
// the lock's owner is the callee's receiver / a parameter, its parameter index (-1 otherwise).
type EntryHeld struct {
	Mode, Class string
	Param       int
}

// Locks builds (once per skip function) the lock world.
func (w *World) Locks(skip func(Edge) bool) *LockWorld {
	lw := &LockWorld{W: w, Funcs: map[*ssa.Function]*FuncLocks{}, AcqTrans: map[*ssa.Function]map[string]bool{}, EntryHeld: map[*ssa.Function][]EntryHeld{}, SkipEdge: skip}
	for _, f := range w.RepoFns {
		lw.Funcs[f] = AnalyzeLocks(f)
	}
	cg := w.CG()
	// transitive acquires (synchronous edges only: no go statements, no function-value creation)
	for _, f := range w.RepoFns {
		lw.AcqTrans[f] = map[string]bool{}
		for c := range lw.Funcs[f].Acquires {
			lw.AcqTrans[f][c] = true
		}
	}
	changed := true
	for changed {
		changed = false
		for _, f := range w.RepoFns {
			for _, e := range cg.Out[f] {
				if e.Kind == "ref" || e.Kind == "dynamic-sig" || e.Callee == nil {
					continue
				}
				if _, isGo := e.Site.(*ssa.Go); isGo {
					continue
				}
				for c := range lw.AcqTrans[e.Callee] {
					if !lw.AcqTrans[f][c] {
						lw.AcqTrans[f][c] = true
						changed = true
					}
				}
			}
		}
	}
	// entry-held: intersection over callers; start with "unknown" (nil) = top
	top := map[*ssa.Function]bool{}
	for _, f := range w.RepoFns {
		top[f] = true
	}
	held := map[*ssa.Function]map[string]EntryHeld{}
	ekey := func(e EntryHeld) string { return e.Mode + "|" + e.Class + "|" + string(rune('0'+e.Param+1)) }
	for iter := 0; iter < 20; iter++ {
		changed = false
		for _, f := range w.RepoFns {
			ins := cg.In[f]
			var acc map[string]EntryHeld
			first := true
			n := 0
			for _, e := range ins {
				if e.Kind == "ref" || e.Kind == "dynamic-sig" {
					continue
				}
				if skip != nil && skip(e) {
					continue
				}
				n++
				cur := map[string]EntryHeld{}
				if _, isGo := e.Site.(*ssa.Go); !isGo {
					site, _ := e.Site.(ssa.CallInstruction)
					if site != nil {
						_, isDefer := site.(*ssa.Defer)
						// locks taken in the caller before the call
						if !isDefer {
							for _, h := range lw.Funcs[e.Caller].HeldBefore(site) {
								eh := EntryHeld{h.Mode, h.Class, paramIndexOf(site, h.Base)}
								cur[ekey(eh)] = eh
							}
						}
						// locks the caller itself holds at its entry, mapped through its parameters
						if !top[e.Caller] {
							for _, ch := range held[e.Caller] {
								p := -1
								if ch.Param >= 0 && ch.Param < len(e.Caller.Params) {
									p = paramIndexOf(site, e.Caller.Params[ch.Param])
								}
								eh := EntryHeld{ch.Mode, ch.Class, p}
								cur[ekey(eh)] = eh
							}
						} else if len(cg.In[e.Caller]) > 0 {
							// caller still top: contributes nothing restrictive yet -> skip this round
							continue
						}
					}
				}
				if first {
					acc = cur
					first = false
				} else {
					nacc := map[string]EntryHeld{}
					for k, v := range acc {
						if _, ok := cur[k]; ok {
							nacc[k] = v
						}
					}
					acc = nacc
				}
			}
			if first {
				acc = map[string]EntryHeld{} // no (counted) callers: nothing held
			}
			if top[f] || !sameKeys(acc, held[f]) {
				if top[f] {
					top[f] = false
					changed = true
				} else if !sameKeys(acc, held[f]) {
					changed = true
				}
				held[f] = acc
			}
		}
		if !changed {
			break
		}
	}
	if dbg := os.Getenv("DSCHECK_DEBUG_LOCKS"); dbg != "" {
		for _, f := range w.RepoFns {
			if FuncKey(f) != dbg {
				continue
			}
			fmt.Printf("entry-held of %s: %v\n", dbg, held[f])
			for _, e := range cg.In[f] {
				fmt.Printf("  in-edge %s from %s held-before=%v caller-entry=%v\n", e.Kind, FuncKey(e.Caller), func() []Held {
					if s, ok := e.Site.(ssa.CallInstruction); ok && s != nil {
						return lw.Funcs[e.Caller].HeldBefore(s)
					}
					return nil
				}(), held[e.Caller])
			}
		}
	}
	for f, m := range held {
		for _, v := range m {
			lw.EntryHeld[f] = append(lw.EntryHeld[f], v)
		}
		sort.Slice(lw.EntryHeld[f], func(i, j int) bool { return ekey(lw.EntryHeld[f][i]) < ekey(lw.EntryHeld[f][j]) })
	}
	return lw
}

func sameKeys(a, b map[string]EntryHeld) bool {
	if len(a) != len(b) {
		return false
	}
	for k := range a {
		if _, ok := b[k]; !ok {
			return false
		}
	}
	return true
}

// paramIndexOf: which argument position of the call is value v (receiver is position 0 for static method calls); -1 if none.
func paramIndexOf(site ssa.CallInstruction, v ssa.Value) int {
	if v == nil || site == nil {
		return -1
	}
	cc := site.Common()
	if cc.IsInvoke() {
		if SameObject(cc.Value, v) {
			return 0
		}
		for i, a := range cc.Args {
			if SameObject(a, v) {
				return i + 1
			}
		}
		return -1
	}
	for i, a := range cc.Args {
		if SameObject(a, v) {
			return i
		}
	}
	return -1
}

// SameObject: the two values denote the same object as far as SSA can tell:
// identical, or sharing a non-constant origin (e.g. two loads of the same
// captured variable, which go/ssa keeps in an Alloc).
func SameObject(a, b ssa.Value) bool {
	if a == nil || b == nil {
		return false
	}
	if a == b {
		return true
	}
	oa := Origins(a)
	ob := Origins(b)
	for _, x := range oa {
		if _, isConst := x.(*ssa.Const); isConst {
			continue
		}
		for _, y := range ob {
			if x == y {
				return true
			}
		}
	}
	return sameRoot(a, b)
}

// HoldsAt reports whether lock class (in a mode satisfying need: "R" = shared or
// exclusive, "W" = exclusive) is held at instruction in, owned by base (when
// base is nil any owner is accepted), counting locks held by all callers.
func (lw *LockWorld) HoldsAt(in ssa.Instruction, class, need string, base ssa.Value) bool {
	fn := in.Parent()
	fl := lw.Funcs[fn]
	if fl == nil {
		fl = AnalyzeLocks(fn)
		lw.Funcs[fn] = fl
	}
	okMode := func(m string) bool { return need == "R" || m == "W" }
	for _, h := range fl.HeldBefore(in) {
		if h.Class == class && okMode(h.Mode) && (base == nil || h.Base == nil || SameObject(h.Base, base)) {
			return true
		}
	}
	// closures inherit what their parent holds at the point of creation only if called synchronously: not assumed.
	for _, eh := range lw.EntryHeld[fn] {
		if eh.Class != class || !okMode(eh.Mode) {
			continue
		}
		if base == nil || eh.Param < 0 {
			return true
		}
		if eh.Param < len(fn.Params) && SameObject(fn.Params[eh.Param], base) {
			return true
		}
	}
	return false
}

// sameRoot: both values are the same SSA value after stripping loads/field selections of embedded structs.
func sameRoot(a, b ssa.Value) bool {
	ra, rb := rootOf(a), rootOf(b)
	return ra != nil && ra == rb
}

func rootOf(v ssa.Value) ssa.Value {
	for i := 0; i < 6 && v != nil; i++ {
		switch x := v.(type) {
		case *ssa.UnOp:
			v = x.X
		case *ssa.FieldAddr:
			// embedded struct pointer: s.sharedEntryAttributes
			v = x.X
		case *ssa.Field:
			v = x.X
		default:
			return v
		}
	}
	return v
}

// LockOrderEdges returns the class-level lock-order edges "L -> M": M is
// acquired (directly or by a synchronously called function) while L is held.
func (lw *LockWorld) LockOrderEdges() map[string][]string {
	cg := lw.W.CG()
	edges := map[string]map[string]string{}
	add := func(l, m, where string) {
		if edges[l] == nil {
			edges[l] = map[string]string{}
		}
		if _, ok := edges[l][m]; !ok {
			edges[l][m] = where
		}
	}
	for _, f := range lw.W.RepoFns {
		fl := lw.Funcs[f]
		for _, c := range OwnCalls(f) {
			if _, isGo := c.(*ssa.Go); isGo {
				continue
			}
			var heldNow []string
			for _, h := range fl.HeldBefore(c) {
				heldNow = append(heldNow, h.Class)
			}
			for _, eh := range lw.EntryHeld[f] {
				heldNow = append(heldNow, eh.Class)
			}
			if len(heldNow) == 0 {
				continue
			}
			kind, class, _ := LockOp(c)
			if _, isDefer := c.(*ssa.Defer); isDefer {
				continue
			}
			if (kind == "lock" || kind == "rlock") && class != "" {
				for _, l := range heldNow {
					add(l, class, lw.W.InstrPos(c))
				}
				continue
			}
			for _, e := range cg.Out[f] {
				if e.Site != ssa.Instruction(c) || e.Callee == nil || e.Kind == "ref" || e.Kind == "dynamic-sig" {
					continue
				}
				for m := range lw.AcqTrans[e.Callee] {
					for _, l := range heldNow {
						add(l, m, lw.W.InstrPos(c)+" via "+FuncKey(e.Callee))
					}
				}
			}
		}
	}
	out := map[string][]string{}
	for l, ms := range edges {
		for m, where := range ms {
			out[l] = append(out[l], m+" @ "+where)
		}
		sort.Strings(out[l])
	}
	return out
}

// FindLockCycle looks for a cycle among distinct classes in the order graph restricted to the given classes (nil = all).
func FindLockCycle(edges map[string][]string, only map[string]bool) []string {
	adj := map[string][]string{}
	for l, ms := range edges {
		if only != nil && !only[l] {
			continue
		}
		for _, m := range ms {
			cls := strings.SplitN(m, " @ ", 2)[0]
			if cls == l || (only != nil && !only[cls]) {
				continue
			}
			adj[l] = append(adj[l], cls)
		}
	}
	color := map[string]int{}
	var stack []string
	var found []string
	var dfs func(n string) bool
	dfs = func(n string) bool {
		color[n] = 1
		stack = append(stack, n)
		for _, m := range adj[n] {
			if color[m] == 1 {
				for i, s := range stack {
					if s == m {
						found = append(append([]string{}, stack[i:]...), m)
						return true
					}
				}
			}
			if color[m] == 0 && dfs(m) {
				return true
			}
		}
		stack = stack[:len(stack)-1]
		color[n] = 2
		return false
	}
	var nodes []string
	for n := range adj {
		nodes = append(nodes, n)
	}
	sort.Strings(nodes)
	for _, n := range nodes {
		if color[n] == 0 && dfs(n) {
			return found
		}
	}
	return nil
}

// LockLeak is a Lock/RLock after which some path reaches a function exit without the matching unlock.
type LockLeak struct {
	Lock  ssa.CallInstruction
	Class string
	Trace []int
}

// LockLeaks finds, in fn, lock acquisitions (Lock / RLock, not TryLock) that are not released on every path
// to a function exit: neither by a deferred unlock of the same class registered in the function, nor by an
// unlock call on the path.
func LockLeaks(fn *ssa.Function) []LockLeak {
	var out []LockLeak
	deferred := map[string]bool{}
	for _, c := range Calls(fn) {
		if _, isDefer := c.(*ssa.Defer); !isDefer {
			continue
		}
		kind, class, _ := LockOp(c)
		if kind == "unlock" {
			deferred["W|"+class] = true
		}
		if kind == "runlock" {
			deferred["R|"+class] = true
		}
	}
	for _, c := range Calls(fn) {
		if _, isCall := c.(*ssa.Call); !isCall {
			continue
		}
		kind, class, base := LockOp(c)
		mode := ""
		switch kind {
		case "lock":
			mode = "W"
		case "rlock":
			mode = "R"
		default:
			continue
		}
		if class == "" {
			// local mutex variable: class by the variable
			class = "local " + c.Common().Args[0].Name()
		}
		if deferred[mode+"|"+class] {
			continue
		}
		want := "unlock"
		if mode == "R" {
			want = "runlock"
		}
		leak, tr := PathQuery{Avoid: func(in ssa.Instruction) bool {
			u, ok := in.(ssa.CallInstruction)
			if !ok {
				return false
			}
			k2, c2, b2 := LockOp(u)
			if c2 == "" && k2 != "" {
				c2 = "local " + u.Common().Args[0].Name()
			}
			return k2 == want && c2 == class && (base == nil || b2 == nil || SameObject(base, b2))
		}}.Reaches(c.Block(), InstrIndex(c)+1, IsExit)
		if leak {
			out = append(out, LockLeak{c, class, tr})
		}
	}
	return out
}

var returnHeldCache = map[*ssa.Function][]Held{}
var returnHeldBusy = map[*ssa.Function]bool{}

// returnHeld lists the locks that g holds at every one of its returns and does not release by a deferred unlock:
// a caller of g continues with these locks held (lock-wrapper helpers such as "lock, refresh if needed, return").
func returnHeld(g *ssa.Function) []Held {
	if g == nil || g.Blocks == nil || g.Pkg == nil || !strings.HasPrefix(g.Pkg.Pkg.Path(), Module) {
		return nil
	}
	if r, ok := returnHeldCache[g]; ok {
		return r
	}
	if returnHeldBusy[g] {
		return nil
	}
	returnHeldBusy[g] = true
	defer delete(returnHeldBusy, g)
	fl := AnalyzeLocks(g)
	deferred := map[string]bool{}
	for _, b := range g.Blocks {
		for _, in := range b.Instrs {
			if d, ok := in.(*ssa.Defer); ok {
				if kind, class, _ := LockOp(d); (kind == "unlock" || kind == "runlock") && class != "" {
					deferred[class] = true
				}
			}
		}
	}
	var acc lockState
	for _, b := range g.Blocks {
		if len(b.Instrs) == 0 || b == g.Recover {
			continue
		}
		ret, ok := b.Instrs[len(b.Instrs)-1].(*ssa.Return)
		if !ok {
			continue
		}
		st := fl.before[ret]
		if acc == nil {
			acc = st.clone()
		} else {
			acc = intersect(acc, st)
		}
	}
	var out []Held
	for _, h := range acc {
		if !deferred[h.Class] {
			out = append(out, h)
		}
	}
	sort.Slice(out, func(i, j int) bool { return hkey(out[i]) < hkey(out[j]) })
	returnHeldCache[g] = out
	return out
}
