package core

import (
	"go/token"
	"strings"

	"golang.org/x/tools/go/ssa"
)

// Slice is an intra-procedural backward slice (data + control dependence) of a
// set of values/instructions of one function. Control dependence is
// approximated soundly from above: an instruction in block B depends on the
// condition of every If in block A such that B is reachable from A and B does
// not post-dominate A (some path from A to an exit avoids B).
type Slice struct {
	Fn     *ssa.Function
	Values map[ssa.Value]bool
	Blocks map[*ssa.BasicBlock]bool
}

// BackwardSlice computes the slice of the given seeds (values) and seed instructions.
func BackwardSlice(fn *ssa.Function, seeds []ssa.Value, seedInstrs []ssa.Instruction) *Slice {
	return backwardSlice(fn, seeds, seedInstrs, true)
}

// DataSlice is BackwardSlice without control dependence (pure data dependence, including the contents
// written through a pointer that is in the slice).
func DataSlice(fn *ssa.Function, seeds []ssa.Value) *Slice {
	return backwardSlice(fn, seeds, nil, false)
}

func backwardSlice(fn *ssa.Function, seeds []ssa.Value, seedInstrs []ssa.Instruction, control bool) *Slice {
	s := &Slice{Fn: fn, Values: map[ssa.Value]bool{}, Blocks: map[*ssa.BasicBlock]bool{}}
	// the universe of the slice: fn, what is inlined into it, and - when fn itself is inlined - its hosts' bodies
	// closures / functions that are called through a function value inside the universe (a generic helper applying
	// a callback): their bodies belong to the slice, their parameters stand for the arguments of those calls
	dynFns := map[*ssa.Function][]*ssa.Call{}
	inU := func(g *ssa.Function) bool {
		if g == fn || InBody(fn, g) {
			return true
		}
		if _, ok := dynFns[g]; ok {
			return true
		}
		for d := range dynFns {
			if InBody(d, g) {
				return true // a helper of a callback that belongs to the slice
			}
		}
		if IsInlined(fn) {
			for _, r := range Roots(fn) {
				if InBody(r, g) {
					return true
				}
			}
		}
		return false
	}
	var work []ssa.Value
	// contents[v]: what is written through pointer v counts as part of the slice. A pointer that is in the slice only
	// as the base of a field address (p in "p.f") contributes its identity, not the other fields written through it.
	contents := map[ssa.Value]bool{}
	addV := func(v ssa.Value) {
		if v == nil {
			return
		}
		if !s.Values[v] {
			s.Values[v] = true
			contents[v] = true
			work = append(work, v)
		} else if !contents[v] {
			contents[v] = true
			work = append(work, v)
		}
	}
	addBase := func(v ssa.Value) {
		if v != nil && !s.Values[v] {
			s.Values[v] = true
			work = append(work, v)
		}
	}
	var addBlock func(b *ssa.BasicBlock)
	cdCache := map[*ssa.BasicBlock][]*ssa.If{}
	controlDeps := func(b *ssa.BasicBlock) []*ssa.If {
		if r, ok := cdCache[b]; ok {
			return r
		}
		var out []*ssa.If
		g := b.Parent()
		localExit := func(in ssa.Instruction) bool {
			r, ok := in.(*ssa.Return)
			return ok && r.Parent() == g
		}
		for _, iff := range ownIfs(g) {
			a := iff.Block()
			if a == b {
				continue
			}
			// classic definition: b is control dependent on the branch at a iff b post-dominates one successor of a
			// (every path from that successor to an exit passes b) but not all of them.
			inB := func(in ssa.Instruction) bool { return in.Block() == b }
			pd := make([]bool, len(a.Succs))
			for i, sb := range a.Succs {
				if sb == b {
					pd[i] = true
					continue
				}
				// can an exit be reached from the successor without passing b? (a block that cannot reach an exit at all does not count)
				toExit, _ := PathQuery{Avoid: inB, Root: g}.Reaches(sb, 0, localExit)
				reachB, _ := PathQuery{Root: g}.Reaches(sb, 0, inB)
				pd[i] = !toExit && reachB
			}
			some, all := false, true
			for _, x := range pd {
				if x {
					some = true
				} else {
					all = false
				}
			}
			if some && !all {
				out = append(out, iff)
			}
		}
		cdCache[b] = out
		return out
	}
	addBlock = func(b *ssa.BasicBlock) {
		if b == nil || s.Blocks[b] || !control {
			return
		}
		s.Blocks[b] = true
		for _, iff := range controlDeps(b) {
			addV(iff.Cond)
			addBlock(iff.Block())
		}
		// a block of an inlined callee executes under the control of its call sites
		for _, site := range InlineSites(b.Parent()) {
			if inU(site.Parent()) {
				addBlock(site.Block())
			}
		}
	}
	for _, v := range seeds {
		addV(v)
	}
	for _, in := range seedInstrs {
		addBlock(in.Block())
		for _, op := range in.Operands(nil) {
			if op != nil && *op != nil {
				addV(*op)
			}
		}
	}
	for len(work) > 0 {
		v := work[len(work)-1]
		work = work[:len(work)-1]
		// contents written through a pointer that is in the slice (p.f = x) belong to what p denotes
		if refs := v.Referrers(); refs != nil && contents[v] {
			for _, ref := range *refs {
				if fa, ok := ref.(*ssa.FieldAddr); ok && fa.X == v && inU(fa.Parent()) {
					for _, r2 := range *fa.Referrers() {
						if st, ok := r2.(*ssa.Store); ok && st.Addr == fa {
							addV(st.Val)
						}
					}
				}
			}
		}
		if fv, isFree := v.(*ssa.FreeVar); isFree {
			// captured variable of a closure that is in the slice: what the closure was created with
			cf := fv.Parent()
			if _, ok := dynFns[cf]; ok && cf.Parent() != nil {
				for i, x := range cf.FreeVars {
					if x != fv {
						continue
					}
					for _, b := range cf.Parent().Blocks {
						for _, in := range b.Instrs {
							if mc, ok := in.(*ssa.MakeClosure); ok && mc.Fn == cf && i < len(mc.Bindings) {
								addV(mc.Bindings[i])
							}
						}
					}
				}
			}
			continue
		}
		if p, isParam := v.(*ssa.Parameter); isParam {
			if sites, ok := dynFns[p.Parent()]; ok {
				for _, site := range sites {
					for i, q := range p.Parent().Params {
						if q == p && i < len(site.Call.Args) {
							addV(site.Call.Args[i])
						}
					}
				}
			}
			// parameter of an inlined callee: the arguments at its inlined sites
			for _, site := range InlineSites(p.Parent()) {
				if !inU(site.Parent()) {
					continue
				}
				for i, q := range p.Parent().Params {
					if q == p && i < len(site.Call.Args) {
						if contents[v] {
							addV(site.Call.Args[i])
						} else {
							addBase(site.Call.Args[i]) // only the identity of the object matters
						}
						addBlock(site.Block())
					}
				}
			}
			continue
		}
		in, isInstr := v.(ssa.Instruction)
		if !isInstr {
			continue // const, global, free var
		}
		if !inU(in.Parent()) {
			continue
		}
		addBlock(in.Block())
		if c, isCall := v.(*ssa.Call); isCall && c.Call.StaticCallee() == nil && !c.Call.IsInvoke() {
			// call of a function value: when it denotes closures / functions of the repository, their results
			for _, o := range Origins(c.Call.Value) {
				var t *ssa.Function
				switch x := o.(type) {
				case *ssa.MakeClosure:
					t, _ = x.Fn.(*ssa.Function)
				case *ssa.Function:
					t = x
				}
				if t == nil || t.Blocks == nil || pkgOf(t) == nil || !strings.HasPrefix(pkgOf(t).Pkg.Path(), Module) {
					continue
				}
				known := false
				for _, sc := range dynFns[t] {
					if sc == c {
						known = true
					}
				}
				if !known {
					dynFns[t] = append(dynFns[t], c)
				}
				for _, ret := range Returns(t) {
					for _, rv := range ReturnValues(ret) {
						addV(rv)
					}
					addBlock(ret.Block())
				}
			}
		}
		if c, isCall := v.(*ssa.Call); isCall && InlinedCallee(c) != nil {
			// result of an inlined call: what the callee returns (and, below, the arguments as before)
			for _, ret := range Returns(InlinedCallee(c)) {
				for _, rv := range ReturnValues(ret) {
					if contents[v] {
						addV(rv)
					} else {
						addBase(rv)
					}
				}
				addBlock(ret.Block())
			}
			if !contents[v] {
				continue // identity only: the arguments of the call do not matter either
			}
		}
		if c, isCall := v.(*ssa.Call); isCall && !c.Call.IsInvoke() {
			// a function literal without captured variables handed to a library callback (slices.ContainsFunc(xs, func...))
			// is a plain function value among the arguments: what it computes is part of what the result depends on
			if sc := c.Call.StaticCallee(); sc != nil && (pkgOf(sc) == nil || !strings.HasPrefix(pkgOf(sc).Pkg.Path(), Module)) {
				for _, a := range c.Call.Args {
					t, isFn := a.(*ssa.Function)
					if !isFn || t.Blocks == nil || pkgOf(t) == nil || !strings.HasPrefix(pkgOf(t).Pkg.Path(), Module) {
						continue
					}
					if _, known := dynFns[t]; !known {
						dynFns[t] = nil
					}
					for _, ret := range Returns(t) {
						for _, rv := range ReturnValues(ret) {
							addV(rv)
						}
						addBlock(ret.Block())
					}
				}
			}
		}
		if mc, isMC := v.(*ssa.MakeClosure); isMC {
			// a closure that flows into the slice (handed to slices.ContainsFunc, sort.Slice, ... as callback): what it
			// computes is part of what the slice depends on
			if t, _ := mc.Fn.(*ssa.Function); t != nil && t.Blocks != nil && pkgOf(t) != nil && strings.HasPrefix(pkgOf(t).Pkg.Path(), Module) {
				if _, known := dynFns[t]; !known {
					dynFns[t] = nil
				}
				for _, ret := range Returns(t) {
					for _, rv := range ReturnValues(ret) {
						addV(rv)
					}
					addBlock(ret.Block())
				}
			}
		}
		switch x := v.(type) {
		case *ssa.Phi:
			for i, e := range x.Edges {
				addV(e)
				// the choice of the edge is decided by the predecessors' control
				if i < len(x.Block().Preds) {
					addBlock(x.Block().Preds[i])
				}
			}
			continue
		case *ssa.UnOp:
			if x.Op == token.MUL {
				// load: depends on every store to the same local / field of the same base in this function
				switch a := x.X.(type) {
				case *ssa.Alloc:
					for _, ref := range *a.Referrers() {
						if st, ok := ref.(*ssa.Store); ok && st.Addr == a {
							addV(st.Val)
							addBlock(st.Block())
						}
					}
				case *ssa.FieldAddr:
					if vals := localFieldStores(a.X, a.Field, 0); len(vals) > 0 {
						// field of a local struct: exactly the values stored into that field of that variable
						for _, sv := range vals {
							addV(sv)
						}
					} else {
						k := FieldKey(a)
						for _, st := range StoresToField(fn, k) {
							addV(st.Val)
							addBlock(st.Block())
						}
					}
				}
			}
		case *ssa.Alloc:
			for _, ref := range *x.Referrers() {
				if st, ok := ref.(*ssa.Store); ok && st.Addr == x {
					addV(st.Val)
					addBlock(st.Block())
				}
				if !contents[v] {
					continue // only the identity of the variable is of interest
				}
				// element stores into a local array/struct
				if fa, ok := ref.(*ssa.FieldAddr); ok {
					for _, r2 := range *fa.Referrers() {
						if st, ok := r2.(*ssa.Store); ok && st.Addr == fa {
							addV(st.Val)
						}
					}
				}
				if ia, ok := ref.(*ssa.IndexAddr); ok {
					for _, r2 := range *ia.Referrers() {
						if st, ok := r2.(*ssa.Store); ok && st.Addr == ia {
							addV(st.Val)
						}
					}
				}
			}
		}
		if fa, isFA := v.(*ssa.FieldAddr); isFA {
			addBase(fa.X)
			continue
		}
		if fv, isF := v.(*ssa.Field); isF {
			// field of a struct value: the stores into that field of the local it was loaded from, else the whole value
			if vals := localFieldStores(fv.X, fv.Field, 0); len(vals) > 0 {
				for _, sv := range vals {
					addV(sv)
				}
				addBase(fv.X)
				continue
			}
		}
		for _, op := range in.Operands(nil) {
			if op != nil && *op != nil {
				addV(*op)
			}
		}
	}
	return s
}

// ReturnSlice is the backward slice of the values returned by fn (result index idx, -1 = all).
func ReturnSlice(fn *ssa.Function, idx int) *Slice {
	var seeds []ssa.Value
	var instrs []ssa.Instruction
	for _, ret := range Returns(fn) {
		vals := ReturnValues(ret)
		for i, v := range vals {
			if idx < 0 || i == idx {
				seeds = append(seeds, v)
			}
		}
		instrs = append(instrs, ret)
	}
	return BackwardSlice(fn, seeds, instrs)
}

// HasCallTo reports whether the slice contains the result of a call to one of keys.
func (s *Slice) HasCallTo(keys ...string) bool {
	for v := range s.Values {
		if c, ok := v.(*ssa.Call); ok && CalleeIs(c, keys...) {
			return true
		}
	}
	return false
}

// HasFieldLoad reports whether the slice contains a load of the given field.
func (s *Slice) HasFieldLoad(key string) bool {
	for v := range s.Values {
		if FieldOf(v) == key {
			if _, isAddr := v.(*ssa.FieldAddr); !isAddr {
				return true
			}
		}
		if fa, ok := v.(*ssa.FieldAddr); ok && FieldKey(fa) == key {
			return true
		}
	}
	return false
}

// HasFieldLoadDeep is HasFieldLoad that also looks behind the getters: a call in the slice to a function with a body
// whose results are computed from the field (followed to the given depth).
func (s *Slice) HasFieldLoadDeep(key string, depth int) bool {
	if s.HasFieldLoad(key) {
		return true
	}
	if depth <= 0 {
		return false
	}
	for v := range s.Values {
		c, ok := v.(*ssa.Call)
		if !ok {
			continue
		}
		g := c.Call.StaticCallee()
		if g == nil || g.Blocks == nil || g == s.Fn {
			continue
		}
		if ReturnSlice(g, -1).HasFieldLoadDeep(key, depth-1) {
			return true
		}
	}
	return false
}

// HasValue reports whether v is in the slice.
func (s *Slice) HasValue(v ssa.Value) bool { return s.Values[v] }

// ControlConds returns the conditions of the branches on which the execution of
// instruction in is (transitively) control dependent — nothing about its operands.
func ControlConds(in ssa.Instruction) []ssa.Value {
	fn := in.Parent()
	sl := backwardSlice(fn, nil, nil, true)
	_ = sl
	seenB := map[*ssa.BasicBlock]bool{}
	var out []ssa.Value
	var rec func(b *ssa.BasicBlock)
	rec = func(b *ssa.BasicBlock) {
		if seenB[b] {
			return
		}
		seenB[b] = true
		for _, iff := range controlDepsOf(fn, b) {
			out = append(out, iff.Cond)
			rec(iff.Block())
		}
		for _, site := range InlineSites(b.Parent()) {
			rec(site.Block())
		}
	}
	rec(in.Block())
	return out
}

// ownIfs lists the If terminators of g itself (not of what is inlined into it).
func ownIfs(g *ssa.Function) []*ssa.If {
	var out []*ssa.If
	for _, b := range g.Blocks {
		if len(b.Instrs) == 0 {
			continue
		}
		if i, ok := b.Instrs[len(b.Instrs)-1].(*ssa.If); ok {
			out = append(out, i)
		}
	}
	return out
}

func controlDepsOf(fn *ssa.Function, b *ssa.BasicBlock) []*ssa.If {
	var out []*ssa.If
	g := b.Parent()
	localExit := func(in ssa.Instruction) bool {
		r, ok := in.(*ssa.Return)
		return ok && r.Parent() == g
	}
	for _, iff := range ownIfs(g) {
		a := iff.Block()
		if a == b {
			continue
		}
		inB := func(in ssa.Instruction) bool { return in.Block() == b }
		some, all := false, true
		for _, sb := range a.Succs {
			pd := false
			if sb == b {
				pd = true
			} else {
				toExit, _ := PathQuery{Avoid: inB, Root: g}.Reaches(sb, 0, localExit)
				reachB, _ := PathQuery{Root: g}.Reaches(sb, 0, inB)
				pd = !toExit && reachB
			}
			if pd {
				some = true
			} else {
				all = false
			}
		}
		if some && !all {
			out = append(out, iff)
		}
	}
	return out
}
