package core

import (
	"bufio"
	"encoding/json"
	"fmt"
	"os"
	"path/filepath"
	"sort"
	"strings"
	"time"
)

// Ob is one obligation: a rule applied to one construct of the analysed program.
type Ob struct {
	Rule   string `json:"rule"`
	Site   string `json:"site"`
	Pos    string `json:"pos,omitempty"`
	Status string `json:"status"` // discharged | violated | known | undecided | info
	Detail string `json:"detail,omitempty"`
}

// Report collects the obligations of one property check.
type Report struct {
	Property    string
	Tier        string
	Obs         []Ob
	MinExpected map[string]int // per rule: minimum number of obligations confirmed by hand
	Explain     []string       // rule descriptions (what is decided / not decided)
	Assumptions []string
	Trusted     []string
	Extra       map[string]any
	// CheckerBroken lists self-validation failures (a stored variant the rules no longer report).
	CheckerBroken []string
	start         time.Time
}

func NewReport(prop, tier string) *Report {
	return &Report{Property: prop, Tier: tier, MinExpected: map[string]int{}, Extra: map[string]any{}, start: time.Now()}
}

// Rule registers a rule: its description and the minimum number of obligations it must produce.
func (r *Report) Rule(rule string, min int, desc string) {
	r.MinExpected[rule] = min
	r.Explain = append(r.Explain, rule+": "+desc)
}

func (r *Report) add(rule, site, pos, status, detail string) {
	r.Obs = append(r.Obs, Ob{Rule: rule, Site: site, Pos: pos, Status: status, Detail: detail})
}

// Check records an obligation that is discharged when ok, violated otherwise.
func (r *Report) Check(ok bool, rule, site, pos, detail string) bool {
	if ok {
		r.add(rule, site, pos, "discharged", detail)
	} else {
		r.add(rule, site, pos, "violated", detail)
	}
	return ok
}

func (r *Report) OK(rule, site, pos, detail string)   { r.add(rule, site, pos, "discharged", detail) }
func (r *Report) Viol(rule, site, pos, detail string) { r.add(rule, site, pos, "violated", detail) }
func (r *Report) Undecided(rule, site, pos, detail string) {
	r.add(rule, site, pos, "undecided", detail)
}
func (r *Report) Info(rule, site, pos, detail string) { r.add(rule, site, pos, "info", detail) }

// Known is one line of known_findings.txt.
type Known struct {
	Kind     string // known | fixed
	Property string
	Rule     string
	Site     string
	Text     string
}

// LoadKnown parses known_findings.txt ("known: property=C01 rule=X site=Y  text").
func LoadKnown(path string) ([]Known, error) {
	f, err := os.Open(path)
	if err != nil {
		if os.IsNotExist(err) {
			return nil, nil
		}
		return nil, err
	}
	defer f.Close()
	var out []Known
	sc := bufio.NewScanner(f)
	sc.Buffer(make([]byte, 1<<20), 1<<20)
	for sc.Scan() {
		line := strings.TrimSpace(sc.Text())
		if line == "" || strings.HasPrefix(line, "#") {
			continue
		}
		var k Known
		switch {
		case strings.HasPrefix(line, "known:"):
			k.Kind = "known"
			line = strings.TrimSpace(strings.TrimPrefix(line, "known:"))
		case strings.HasPrefix(line, "fixed:"):
			k.Kind = "fixed"
			line = strings.TrimSpace(strings.TrimPrefix(line, "fixed:"))
		default:
			return nil, fmt.Errorf("known_findings: bad line %q", line)
		}
		// site may be quoted: site="a b c"
		if i := strings.Index(line, `site="`); i >= 0 {
			if j := strings.Index(line[i+6:], `"`); j >= 0 {
				k.Site = line[i+6 : i+6+j]
				line = line[:i] + line[i+6+j+1:]
			}
		}
		fields := strings.Fields(line)
		rest := []string{}
		for _, fld := range fields {
			switch {
			case strings.HasPrefix(fld, "property=") && k.Property == "":
				k.Property = strings.TrimPrefix(fld, "property=")
			case strings.HasPrefix(fld, "rule=") && k.Rule == "":
				k.Rule = strings.TrimPrefix(fld, "rule=")
			case strings.HasPrefix(fld, "site=") && k.Site == "":
				k.Site = strings.TrimPrefix(fld, "site=")
			default:
				rest = append(rest, fld)
			}
		}
		k.Text = strings.Join(rest, " ")
		out = append(out, k)
	}
	return out, sc.Err()
}

// Finish applies known findings, enforces the vacuity minima, writes the
// evidence and report files, prints the protocol lines and returns the exit code.
func (r *Report) Finish(w *World, verifDir string, loadErr error) int {
	known, kerr := LoadKnown(filepath.Join(verifDir, "known_findings.txt"))
	if kerr != nil {
		r.Undecided("INTERNAL", "known_findings.txt", "", kerr.Error())
	}
	if loadErr != nil {
		r.Undecided("LOAD", "repository", "", loadErr.Error())
	}
	if BudgetHits > 0 {
		r.Undecided("INTERNAL", "path budget", "", fmt.Sprintf("%d path queries exceeded the state budget and were answered conservatively", BudgetHits))
		BudgetHits = 0
	}
	if w != nil {
		for _, u := range w.Unresolved() {
			r.Undecided("ANCHOR", u, "", "anchor named by a rule table does not resolve in the analysed tree; the rule cannot be decided")
		}
		w.ClearUnresolved()
	}
	// vacuity
	counts := map[string]int{}
	for _, o := range r.Obs {
		if o.Status != "info" {
			counts[o.Rule]++
		}
	}
	rules := []string{}
	for rule := range r.MinExpected {
		rules = append(rules, rule)
	}
	sort.Strings(rules)
	if loadErr == nil {
		for _, rule := range rules {
			// the count confirmed by hand on the pinned tree is halved: harmless refactorings merge or split the
			// constructs a rule looks at; a rule that lost its anchors drops to (nearly) nothing
			need := (r.MinExpected[rule] + 1) / 2
			if counts[rule] < need {
				r.Undecided(rule, "vacuity", "", fmt.Sprintf("rule matched %d constructs, fewer than %d (half of the %d confirmed by hand): the rule lost its anchors", counts[rule], need, r.MinExpected[rule]))
			}
		}
	}
	// known findings
	usedKnown := map[int]bool{}
	for i := range r.Obs {
		o := &r.Obs[i]
		if o.Status != "violated" {
			continue
		}
		for ki, k := range known {
			if k.Kind == "known" && k.Property == r.Property && k.Rule == o.Rule && k.Site == o.Site {
				o.Status = "known"
				usedKnown[ki] = true
			}
		}
	}
	sort.SliceStable(r.Obs, func(i, j int) bool {
		if r.Obs[i].Rule != r.Obs[j].Rule {
			return r.Obs[i].Rule < r.Obs[j].Rule
		}
		return r.Obs[i].Site < r.Obs[j].Site
	})
	var nViol, nKnown, nUndec, nDis, nObl int
	for _, o := range r.Obs {
		switch o.Status {
		case "violated":
			nViol++
			nObl++
		case "known":
			nKnown++
			nObl++
		case "undecided":
			nUndec++
			nObl++
		case "discharged":
			nDis++
			nObl++
		}
	}
	wall := time.Since(r.start).Seconds()

	// report file (replay target)
	repPath := filepath.Join(verifDir, "reports", fmt.Sprintf("%s-%s.txt", r.Property, r.Tier))
	os.MkdirAll(filepath.Dir(repPath), 0o755)
	var sb strings.Builder
	fmt.Fprintf(&sb, "dscheck report property=%s tier=%s\n", r.Property, r.Tier)
	fmt.Fprintf(&sb, "obligations=%d discharged=%d violated=%d known=%d undecided=%d\n\n", nObl, nDis, nViol, nKnown, nUndec)
	for _, st := range []string{"violated", "undecided", "known", "discharged", "info"} {
		for _, o := range r.Obs {
			if o.Status == st {
				fmt.Fprintf(&sb, "[%s] %s.%s site=%s at %s\n    %s\n", strings.ToUpper(o.Status), r.Property, o.Rule, o.Site, o.Pos, o.Detail)
			}
		}
	}
	os.WriteFile(repPath, []byte(sb.String()), 0o644)

	// evidence
	perRule := map[string]map[string]int{}
	for _, o := range r.Obs {
		if perRule[o.Rule] == nil {
			perRule[o.Rule] = map[string]int{}
		}
		perRule[o.Rule][o.Status]++
	}
	samples := []Ob{}
	// all non-discharged plus up to 3 discharged per rule
	perRuleShown := map[string]int{}
	for _, o := range r.Obs {
		if o.Status == "discharged" || o.Status == "info" {
			if perRuleShown[o.Rule] >= 3 {
				continue
			}
			perRuleShown[o.Rule]++
		}
		samples = append(samples, o)
	}
	analysed := map[string]any{}
	if w != nil {
		analysed["packages_loaded"] = len(w.All)
		analysed["repo_packages"] = len(w.Pkgs)
		analysed["repo_functions"] = len(w.RepoFns)
		analysed["load_wall_s"] = w.LoadWall.Seconds()
		analysed["variant"] = map[string]any{"tags": w.Opts.Tags, "goarch": w.Opts.GOARCH, "tests": w.Opts.Tests}
		if w.cg != nil {
			analysed["callgraph_nodes"] = len(w.cg.Out)
			analysed["callgraph_edges"] = w.cg.NEdges
		}
	}
	kf := []string{}
	for _, o := range r.Obs {
		if o.Status == "known" {
			kf = append(kf, o.Rule+" "+o.Site)
		}
	}
	cov := map[string]any{
		"explanation":    "Static analysis of /repo's current source (go/packages + go/ssa + repo call graph). Decides the structural NECESSARY conditions listed under 'rules' for every path of the analysed functions; it does not decide the behavioural property itself (see DESIGN.md, section of this property, 'Residual'). " + strings.Join(r.Explain, " | "),
		"obligations":    nObl,
		"discharged":     nDis + nKnown*0,
		"violated":       nViol,
		"known":          nKnown,
		"undecided":      nUndec,
		"rules":          r.Explain,
		"per_rule":       perRule,
		"min_expected":   r.MinExpected,
		"samples":        samples,
		"analysed":       analysed,
		"checker_cmd":    fmt.Sprintf("bin/dscheck -property %s -tier %s", r.Property, r.Tier),
		"trusted_base":   append([]string{"Go type checker (go/types)", "golang.org/x/tools v0.29.0 go/packages, go/ssa", "rule tables in /verif/internal/rules (confirmed by reading on the pinned tree)"}, r.Trusted...),
		"known_findings": kf,
		"exhaustive":     false,
	}
	if len(r.CheckerBroken) > 0 {
		cov["checker_broken"] = r.CheckerBroken
	}
	for k, v := range r.Extra {
		cov[k] = v
	}
	seed := 0
	fmt.Sscanf(os.Getenv("VERIF_SEED"), "%d", &seed)
	ev := map[string]any{
		"property_id": r.Property,
		"tier":        r.Tier,
		"seed":        seed,
		"level":       "other",
		"coverage":    cov,
		"assumptions": append([]string{"every CFG branch is feasible both ways (no path-feasibility reasoning)", "calls through the collaborator interfaces behave as their documented contracts"}, r.Assumptions...),
		"wall_s":      wall,
		"violations":  nViol + nUndec,
	}
	evPath := filepath.Join(verifDir, "evidence", r.Property+".json")
	os.MkdirAll(filepath.Dir(evPath), 0o755)
	b, _ := json.MarshalIndent(ev, "", " ")
	if err := os.WriteFile(evPath, append(b, '\n'), 0o644); err != nil {
		fmt.Printf("cannot write evidence: %v\n", err)
		return 2
	}

	// protocol lines
	fmt.Printf("dscheck property=%s tier=%s obligations=%d discharged=%d violated=%d known=%d undecided=%d wall=%.1fs\n",
		r.Property, r.Tier, nObl, nDis, nViol, nKnown, nUndec, wall)
	for _, rule := range rules {
		fmt.Printf("  rule %s.%s: %v\n", r.Property, rule, perRule[rule])
	}
	for _, o := range r.Obs {
		if o.Status == "known" {
			fmt.Printf("KNOWN-FINDING: property=%s rule=%s site=%s at %s: %s\n", r.Property, o.Rule, o.Site, o.Pos, o.Detail)
		}
	}
	for _, o := range r.Obs {
		if o.Status == "violated" || o.Status == "undecided" {
			fmt.Printf("%s: %s.%s site=%s at %s: %s\n", strings.ToUpper(o.Status), r.Property, o.Rule, o.Site, o.Pos, o.Detail)
		}
	}
	for ki, k := range known {
		if k.Kind == "known" && k.Property == r.Property && !usedKnown[ki] {
			fmt.Printf("note: known finding %s %s no longer reported (repaired or anchor moved); remove it from known_findings.txt\n", k.Rule, k.Site)
		}
	}
	if nViol+nUndec > 0 {
		fmt.Printf("VIOLATION property=%s replay=%s\n", r.Property, repPath)
		return 1
	}
	if len(r.CheckerBroken) > 0 {
		for _, c := range r.CheckerBroken {
			fmt.Printf("CHECKER-BROKEN: property=%s %s\n", r.Property, c)
		}
		return 2
	}
	return 0
}
