package core

import (
	"fmt"
	"go/types"
	"os"
	"sort"
	"strings"

	"golang.org/x/tools/go/ssa"
)

// Function keys ("<pkg>.<Recv>.<name>") are how rule tables name functions. funcAlias maps the key a function has in
// the analysed tree to the key the rule tables use, for unexported functions that were merely renamed (see
// ResolveRenamedFuncs): every key-based lookup (anchors, callee keys, exception tables) keeps working.
var funcAlias map[string]string

func aliasFuncKey(k string) string {
	if a, ok := funcAlias[k]; ok {
		return a
	}
	return k
}

// AnchorInfo is what is recorded about a function that rule tables name, on the tree the rules were written against.
type AnchorInfo struct {
	Sig     string   // signature without the receiver
	Callers []string // keys of the functions that call it statically
}

func sigString(f *ssa.Function) string {
	if f.Signature == nil {
		return ""
	}
	return types.TypeString(types.NewSignatureType(nil, nil, nil, f.Signature.Params(), f.Signature.Results(), f.Signature.Variadic()), nil)
}

func (w *World) staticCallers() map[*ssa.Function][]*ssa.Function {
	out := map[*ssa.Function][]*ssa.Function{}
	for _, f := range w.RepoFns {
		top := f
		for top.Parent() != nil {
			top = top.Parent()
		}
		for _, c := range OwnCalls(f) {
			if g := c.Common().StaticCallee(); g != nil && g != top {
				out[g] = append(out[g], top)
			}
		}
	}
	return out
}

// AnchorTable records signature and callers of every named (non-anonymous) repository function for which
// mentioned(key, name) holds.
func (w *World) AnchorTable(mentioned func(key, name string) bool) map[string]AnchorInfo {
	callers := w.staticCallers()
	out := map[string]AnchorInfo{}
	for _, f := range w.RepoFns {
		if f.Parent() != nil || f.Synthetic != "" {
			continue
		}
		k := FuncKey(f)
		if !mentioned(k, f.Name()) {
			continue
		}
		seen := map[string]bool{}
		var cs []string
		for _, c := range callers[f] {
			if ck := FuncKey(c); !seen[ck] {
				seen[ck] = true
				cs = append(cs, ck)
			}
		}
		sort.Strings(cs)
		out[k] = AnchorInfo{Sig: sigString(f), Callers: cs}
	}
	return out
}

// ResolveRenamedFuncs: an anchor of the frozen table that no longer exists under its name is matched with the one
// function of the same package and the same signature that is not an anchor itself; several candidates are narrowed
// to those with the same receiver and then to those called by one of the recorded callers. Exactly one candidate
// left: the function was renamed and keeps its old key. Returns the renames resolved ("old -> new").
// AllFuncKeys lists the keys of all named, non-synthetic functions of the repository.
func (w *World) AllFuncKeys() []string {
	var out []string
	seen := map[string]bool{}
	for _, f := range w.RepoFns {
		if f.Parent() != nil || f.Synthetic != "" {
			continue
		}
		if k := FuncKey(f); !seen[k] {
			seen[k] = true
			out = append(out, k)
		}
	}
	sort.Strings(out)
	return out
}

func (w *World) ResolveRenamedFuncs(table map[string]AnchorInfo, known map[string]bool) []string {
	funcAlias = map[string]string{}
	byKey := map[string]*ssa.Function{}
	for _, f := range w.RepoFns {
		if f.Parent() == nil && f.Synthetic == "" {
			byKey[FuncKey(f)] = f
		}
	}
	pkgOfKey := func(k string, f *ssa.Function) string {
		// key without the function name and, for methods, without the receiver
		k = k[:strings.LastIndex(k, ".")]
		if f != nil && f.Signature.Recv() != nil {
			k = k[:strings.LastIndex(k, ".")]
		}
		return k
	}
	callers := w.staticCallers()
	var out []string
	keys := make([]string, 0, len(table))
	for k := range table {
		keys = append(keys, k)
	}
	sort.Strings(keys)
	pending := map[string][]*ssa.Function{}
	rawFuncKeys := map[*ssa.Function]string{}
	for k, f := range byKey {
		rawFuncKeys[f] = k
	}
	for _, old := range keys {
		if byKey[old] != nil {
			continue
		}
		info := table[old]
		var cands []*ssa.Function
		for k, f := range byKey {
			if _, isAnchor := table[k]; isAnchor {
				continue
			}
			if known[k] {
				continue // existed under this name before: not the new name of anything
			}
			pk := pkgOfKey(k, f)
			if !(strings.HasPrefix(old, pk+".") && sigString(f) == info.Sig) {
				continue
			}
			// old is "<pk>.<name>" or "<pk>.<Recv>.<name>"
			if strings.Count(strings.TrimPrefix(old, pk+"."), ".") > 1 {
				continue
			}
			cands = append(cands, f)
		}
		if os.Getenv("DSCHECK_DEBUG_RENAMES") != "" {
			var ks []string
			for _, f := range cands {
				ks = append(ks, rawFuncKeys[f])
			}
			fmt.Println("rename candidates(all) for", old, ":", ks)
		}
		if len(cands) > 1 {
			// a method that kept its name and moved to another receiver (a sub-struct the state was moved into, an
			// embedded struct whose methods are promoted)
			oldName := old[strings.LastIndex(old, ".")+1:]
			var named []*ssa.Function
			for _, f := range cands {
				if f.Name() == oldName {
					named = append(named, f)
				}
			}
			if len(named) == 1 {
				cands = named
			}
		}
		if len(cands) > 1 {
			// same receiver (or both plain functions)
			var same []*ssa.Function
			for _, f := range cands {
				k := rawFuncKeys[f]
				if k[:strings.LastIndex(k, ".")] == old[:strings.LastIndex(old, ".")] {
					same = append(same, f)
				}
			}
			if len(same) > 0 {
				cands = same
			}
		}
		if len(cands) > 1 {
			var called []*ssa.Function
			for _, f := range cands {
				hit := false
				for _, c := range callers[f] {
					ck := FuncKey(c)
					for _, rc := range info.Callers {
						if ck == rc {
							hit = true
						}
					}
				}
				if hit {
					called = append(called, f)
				}
			}
			if len(called) > 0 {
				cands = called
			}
		}
		if len(cands) > 1 {
			// the candidate whose set of callers is exactly the recorded one
			var exact []*ssa.Function
			for _, f := range cands {
				got := map[string]bool{}
				for _, c := range callers[f] {
					got[FuncKey(c)] = true
				}
				same := len(got) == len(info.Callers)
				for _, rc := range info.Callers {
					if !got[rc] {
						same = false
					}
				}
				if same {
					exact = append(exact, f)
				}
			}
			if len(exact) > 0 {
				cands = exact
			}
		}
		if os.Getenv("DSCHECK_DEBUG_RENAMES") != "" {
			var ks []string
			for _, f := range cands {
				ks = append(ks, rawFuncKeys[f])
			}
			fmt.Println("rename candidates for", old, ":", ks)
		}
		if len(cands) == 1 {
			if _, taken := funcAlias[rawFuncKeys[cands[0]]]; !taken {
				funcAlias[rawFuncKeys[cands[0]]] = old
				out = append(out, old+" -> "+rawFuncKeys[cands[0]])
				continue
			}
		}
		pending[old] = cands
	}
	// candidates taken by an unambiguous rename are not available to the others
	for changed := true; changed; {
		changed = false
		for _, old := range keys {
			cands := pending[old]
			var free []*ssa.Function
			for _, f := range cands {
				if _, taken := funcAlias[rawFuncKeys[f]]; !taken {
					free = append(free, f)
				}
			}
			if len(free) == 1 {
				funcAlias[rawFuncKeys[free[0]]] = old
				out = append(out, old+" -> "+rawFuncKeys[free[0]])
				delete(pending, old)
				changed = true
			}
		}
	}
	// a second pass is not needed: callers are compared by their current keys, and renamed callers already carry
	// their old key through the alias when they were resolved earlier in key order
	w.renamed = map[string]*ssa.Function{}
	for nk, ok := range funcAlias {
		w.renamed[ok] = byKey[nk]
	}
	return out
}
