package core

import (
	"go/types"
	"sort"
	"strings"

	"golang.org/x/tools/go/ssa"
)

// Edge is one call-graph edge of the repo-restricted graph.
type Edge struct {
	Caller *ssa.Function
	Callee *ssa.Function
	Site   ssa.Instruction // the call / go / defer, or the instruction referencing the function value
	Kind   string          // static | invoke | dynamic | ref
}

// CallGraph: nodes are the repository's source functions; callees outside the
// repository are leaves (kept as edges so rules can match them by key).
type CallGraph struct {
	Out    map[*ssa.Function][]Edge
	In     map[*ssa.Function][]Edge
	NEdges int
}

// CG builds (once) the repo-restricted call graph: static callees, CHA over
// repository types for interface calls, signature-matched address-taken
// functions for dynamic calls, and "ref" edges from a function to every
// function value it creates (closures, method values).
func (w *World) CG() *CallGraph {
	if w.cg != nil {
		return w.cg
	}
	cg := &CallGraph{Out: map[*ssa.Function][]Edge{}, In: map[*ssa.Function][]Edge{}}
	// repo named types and their method sets
	var repoTypes []types.Type
	for path, sp := range w.SSAPkgs {
		if !strings.HasPrefix(path, Module) || strings.HasSuffix(path, ".test") {
			continue
		}
		for _, m := range sp.Members {
			if t, ok := m.(*ssa.Type); ok {
				if _, isIface := t.Type().Underlying().(*types.Interface); isIface {
					continue
				}
				repoTypes = append(repoTypes, t.Type(), types.NewPointer(t.Type()))
			}
		}
	}
	sort.Slice(repoTypes, func(i, j int) bool { return repoTypes[i].String() < repoTypes[j].String() })
	implCache := map[string][]*ssa.Function{}
	impls := func(recv types.Type, m *types.Func) []*ssa.Function {
		key := recv.String() + "." + m.Name()
		if r, ok := implCache[key]; ok {
			return r
		}
		var out []*ssa.Function
		iface, _ := recv.Underlying().(*types.Interface)
		seen := map[*ssa.Function]bool{}
		for _, T := range repoTypes {
			if iface != nil && !types.Implements(T, iface) {
				continue
			}
			sel := w.Prog.MethodSets.MethodSet(T).Lookup(m.Pkg(), m.Name())
			if sel == nil {
				continue
			}
			fn := w.Prog.MethodValue(sel)
			if fn == nil {
				continue
			}
			// unwrap synthetic wrappers (promoted methods) by following their single static call
			if fn.Synthetic != "" && fn.Object() != nil {
				if d := w.Prog.FuncValue(fn.Object().(*types.Func)); d != nil {
					fn = d
				}
			}
			if !seen[fn] {
				seen[fn] = true
				out = append(out, fn)
			}
		}
		implCache[key] = out
		return out
	}
	// address-taken repo functions by signature
	taken := map[string][]*ssa.Function{}
	sigKey := func(s *types.Signature) string {
		return types.NewSignatureType(nil, nil, nil, s.Params(), s.Results(), s.Variadic()).String()
	}
	type ref struct {
		from *ssa.Function
		fn   *ssa.Function
		site ssa.Instruction
	}
	var refs []ref
	for _, f := range w.RepoFns {
		for _, b := range f.Blocks {
			for _, in := range b.Instrs {
				var callVal ssa.Value
				if c, ok := in.(ssa.CallInstruction); ok && !c.Common().IsInvoke() {
					callVal = c.Common().Value
				}
				for _, op := range in.Operands(nil) {
					if op == nil || *op == nil {
						continue
					}
					var target *ssa.Function
					switch v := (*op).(type) {
					case *ssa.Function:
						if v == callVal {
							continue
						}
						target = v
					case *ssa.MakeClosure:
						continue
					}
					if mc, ok := in.(*ssa.MakeClosure); ok {
						if fn, ok := mc.Fn.(*ssa.Function); ok && *op == mc.Fn {
							target = fn
						}
					}
					if target != nil {
						refs = append(refs, ref{f, target, in})
					}
				}
			}
		}
	}
	for _, r := range refs {
		t := r.fn
		// bound-method and thunk wrappers: resolve to the underlying method
		if t.Synthetic != "" && t.Object() != nil {
			if d := w.Prog.FuncValue(t.Object().(*types.Func)); d != nil {
				t = d
			}
		}
		k := sigKey(r.fn.Signature)
		taken[k] = append(taken[k], t)
	}
	add := func(e Edge) {
		cg.Out[e.Caller] = append(cg.Out[e.Caller], e)
		if e.Callee != nil {
			cg.In[e.Callee] = append(cg.In[e.Callee], e)
		}
		cg.NEdges++
	}
	for _, r := range refs {
		t := r.fn
		if t.Synthetic != "" && t.Object() != nil {
			if d := w.Prog.FuncValue(t.Object().(*types.Func)); d != nil {
				t = d
			}
		}
		add(Edge{r.from, t, r.site, "ref"})
	}
	for _, f := range w.RepoFns {
		if _, ok := cg.Out[f]; !ok {
			cg.Out[f] = nil
		}
		for _, c := range OwnCalls(f) {
			cc := c.Common()
			if cc.IsInvoke() {
				for _, t := range impls(cc.Value.Type(), cc.Method) {
					add(Edge{f, t, c, "invoke"})
				}
				continue
			}
			if callee := cc.StaticCallee(); callee != nil {
				t := callee
				if t.Synthetic != "" && t.Object() != nil {
					if d := w.Prog.FuncValue(t.Object().(*types.Func)); d != nil {
						t = d
					}
				}
				add(Edge{f, t, c, "static"})
				continue
			}
			if _, ok := cc.Value.(*ssa.Builtin); ok {
				continue
			}
			if sig, ok := cc.Value.Type().Underlying().(*types.Signature); ok {
				seen := map[*ssa.Function]bool{}
				targets, complete := w.FuncTargets(cc.Value)
				kind := "dynamic"
				if !complete {
					targets = append(targets, taken[sigKey(sig)]...)
					kind = "dynamic-sig"
				}
				for _, t := range targets {
					if !seen[t] {
						seen[t] = true
						add(Edge{f, t, c, kind})
					}
				}
			}
		}
	}
	w.cg = cg
	return cg
}

// Reachable returns the set of functions reachable from the roots (roots included).
// Edges for which skip returns true are not followed.
func (cg *CallGraph) Reachable(skip func(Edge) bool, roots ...*ssa.Function) map[*ssa.Function]bool {
	seen := map[*ssa.Function]bool{}
	var work []*ssa.Function
	for _, r := range roots {
		if r != nil && !seen[r] {
			seen[r] = true
			work = append(work, r)
		}
	}
	for len(work) > 0 {
		f := work[0]
		work = work[1:]
		for _, e := range cg.Out[f] {
			if e.Callee == nil || seen[e.Callee] {
				continue
			}
			if skip != nil && skip(e) {
				continue
			}
			seen[e.Callee] = true
			work = append(work, e.Callee)
		}
	}
	return seen
}

// Reaches reports whether target is reachable from root, with a witness chain of function keys.
func (cg *CallGraph) Reaches(root, target *ssa.Function, skip func(Edge) bool) (bool, []string) {
	type item struct {
		f    *ssa.Function
		prev *item
	}
	seen := map[*ssa.Function]bool{root: true}
	work := []*item{{root, nil}}
	for len(work) > 0 {
		it := work[0]
		work = work[1:]
		if it.f == target {
			var chain []string
			for p := it; p != nil; p = p.prev {
				chain = append([]string{FuncKey(p.f)}, chain...)
			}
			return true, chain
		}
		for _, e := range cg.Out[it.f] {
			if e.Callee == nil || seen[e.Callee] {
				continue
			}
			if skip != nil && skip(e) {
				continue
			}
			seen[e.Callee] = true
			work = append(work, &item{e.Callee, it})
		}
	}
	return false, nil
}

// CallersOfKey lists, over all repository functions, the call sites whose callee key is one of keys.
func (w *World) CallersOfKey(keys ...string) []ssa.CallInstruction {
	var out []ssa.CallInstruction
	for _, f := range w.RepoFns {
		out = append(out, OwnCallsTo(f, keys...)...)
	}
	return out
}
