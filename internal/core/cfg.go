package core

import (
	"go/constant"
	"go/token"
	"go/types"
	"strings"

	"golang.org/x/tools/go/ssa"
)

// PathQuery is a reachability question over the instruction-level CFG of one
// function: is there a path from a start position to an instruction
// satisfying Target that executes no instruction satisfying Avoid and takes
// no edge satisfying SkipEdge? All dominance / post-dominance / guard
// questions of the rules are instances of it (exact on the CFG, every branch
// assumed feasible both ways).
type PathQuery struct {
	Avoid    func(ssa.Instruction) bool
	SkipEdge func(from *ssa.BasicBlock, succ int) bool
	// Root restricts the returns of inlined callees to call sites inside this host (nil: every inlined site).
	Root *ssa.Function
}

// Reaches runs the query starting at instruction index idx of block b.
// It returns a witness block trace when a path exists. With virtual inlining (inline.go) the walk enters an
// inlined callee at its call site and continues after the call from the callee's returns.
func (q PathQuery) Reaches(b *ssa.BasicBlock, idx int, target func(ssa.Instruction) bool) (bool, []int) {
	// call stack of inlined sites entered during the walk (context-sensitive returns); frames are interned so that
	// two equal stacks are the same pointer
	type frame struct {
		site   *ssa.Call
		callee *ssa.Function
		up     *frame
	}
	type fkey struct {
		site   *ssa.Call
		callee *ssa.Function
		up     *frame
	}
	frames := map[fkey]*frame{}
	pushFrame := func(site *ssa.Call, callee *ssa.Function, up *frame) *frame {
		k := fkey{site, callee, up}
		if f, ok := frames[k]; ok {
			return f
		}
		f := &frame{site, callee, up}
		frames[k] = f
		return f
	}
	// callbackOf: in is a call of a function-valued parameter of the helper the walk is in (stack top); the value
	// bound to that parameter at the helper's call site, when it is a closure / function of the repository
	callbackOf := func(in ssa.Instruction, st *frame) *ssa.Function {
		c, ok := in.(*ssa.Call)
		if !ok || c.Call.IsInvoke() || c.Call.StaticCallee() != nil {
			return nil
		}
		p, ok := c.Call.Value.(*ssa.Parameter)
		if !ok {
			return nil
		}
		var site *ssa.Call
		switch {
		case st != nil && st.callee == p.Parent():
			site = st.site
		case st == nil:
			// the walk started inside the helper: usable when the helper has one call site in the host in question
			host := q.Root
			if host == nil {
				host = hostCtx
			}
			for _, s := range InlineSites(p.Parent()) {
				if host != nil && !InBody(host, s.Parent()) {
					continue
				}
				if site != nil {
					return nil
				}
				site = s
			}
		}
		if site == nil {
			return nil
		}
		callee := p.Parent()
		for i, q := range callee.Params {
			if q != p || i >= len(site.Call.Args) {
				continue
			}
			var t *ssa.Function
			switch x := site.Call.Args[i].(type) {
			case *ssa.MakeClosure:
				t, _ = x.Fn.(*ssa.Function)
			case *ssa.Function:
				t = x
			}
			if t != nil && t.Blocks != nil && pkgOf(t) != nil && strings.HasPrefix(pkgOf(t).Pkg.Path(), Module) {
				return t
			}
		}
		return nil
	}
	depth := func(f *frame) int {
		n := 0
		for ; f != nil; f = f.up {
			n++
		}
		return n
	}
	// what is known about the results of the inlined calls that returned on this path (constant booleans, nil /
	// non-nil): the branch that tests such a result in the caller is followed on the matching edge only
	type fact struct {
		site *ssa.Call
		idx  int
		kind resultFact
		up   *fact
	}
	type factKey struct {
		site *ssa.Call
		idx  int
		kind resultFact
		up   *fact
	}
	factsTab := map[factKey]*fact{}
	var addFact func(site *ssa.Call, idx int, kind resultFact, up *fact) *fact
	addFact = func(site *ssa.Call, idx int, kind resultFact, up *fact) *fact {
		// bounded memory: a result is tested right after the call that produced it; only the facts of the last few
		// returns are kept (otherwise the number of distinct fact lists - and walk states - explodes)
		n := 0
		for f := up; f != nil; f = f.up {
			n++
		}
		if n >= 4 {
			// rebuild without the oldest entry
			var keep []*fact
			for f := up; f != nil && len(keep) < 3; f = f.up {
				keep = append(keep, f)
			}
			up = nil
			for i := len(keep) - 1; i >= 0; i-- {
				up = addFact(keep[i].site, keep[i].idx, keep[i].kind, up)
			}
		}
		k := factKey{site, idx, kind, up}
		if f, ok := factsTab[k]; ok {
			return f
		}
		f := &fact{site, idx, kind, up}
		factsTab[k] = f
		return f
	}
	var dropFacts func(f *fact, site *ssa.Call) *fact
	dropFacts = func(f *fact, site *ssa.Call) *fact {
		if f == nil {
			return nil
		}
		up := dropFacts(f.up, site)
		if f.site == site {
			return up
		}
		return addFact(f.site, f.idx, f.kind, up)
	}
	lookup := func(f *fact, v ssa.Value) (resultFact, bool) {
		var site *ssa.Call
		idx := 0
		switch x := v.(type) {
		case *ssa.Extract:
			c, ok := x.Tuple.(*ssa.Call)
			if !ok {
				return 0, false
			}
			site, idx = c, x.Index
		case *ssa.Call:
			site = x
		default:
			return 0, false
		}
		for ; f != nil; f = f.up {
			if f.site == site && f.idx == idx {
				return f.kind, true
			}
		}
		return 0, false
	}
	// feasible: may the edge (succ 0 = true) of an If with this condition be taken given the facts?
	feasible := func(f *fact, cond ssa.Value, succ int) bool {
		if f == nil {
			return true
		}
		v, neg := StripNot(cond)
		if k, ok := lookup(f, v); ok && (k == factTrue || k == factFalse) {
			val := k == factTrue
			if neg {
				val = !val
			}
			return (succ == 0) == val
		}
		if x, nilOnTrue, ok := NilTest(cond); ok {
			if k, ok := lookup(f, x); ok && (k == factNil || k == factNonNil) {
				isNil := k == factNil
				return (succ == 0) == (isNil == nilOnTrue)
			}
		}
		return true
	}
	type item struct {
		b     *ssa.BasicBlock
		idx   int
		stack *frame
		facts *fact
		prev  *item
	}
	type pos struct {
		b     *ssa.BasicBlock
		idx   int
		stack *frame
		facts *fact
	}
	seen := map[pos]bool{}
	work := []*item{{b, idx, nil, nil, nil}}
	push := func(nb *ssa.BasicBlock, ni int, st *frame, fc *fact, prev *item) {
		k := pos{nb, ni, st, fc}
		if seen[k] {
			return
		}
		seen[k] = true
		work = append(work, &item{nb, ni, st, fc, prev})
	}
	for len(work) > 0 {
		if len(seen) > pathBudget {
			// never hang: give up on this query, answer "a path may exist" and let the report say so
			BudgetHits++
			return true, nil
		}
		it := work[0]
		work = work[1:]
		stopped := false
		for i := it.idx; i < len(it.b.Instrs); i++ {
			in := it.b.Instrs[i]
			if target(in) {
				var tr []int
				for p := it; p != nil; p = p.prev {
					tr = append([]int{p.b.Index}, tr...)
				}
				return true, tr
			}
			if q.Avoid != nil && q.Avoid(in) {
				stopped = true
				break
			}
			if h := InlinedCallee(in); h != nil && depth(it.stack) < 6 {
				// the instructions after the call are reached from the callee's returns
				site := in.(*ssa.Call)
				push(h.Blocks[0], 0, pushFrame(site, h, it.stack), dropFacts(it.facts, site), it)
				stopped = true
				break
			}
			if cb := callbackOf(in, it.stack); cb != nil && depth(it.stack) < 6 {
				// the callback a generic helper applies: walk through its body, then go on after the call
				push(cb.Blocks[0], 0, pushFrame(in.(*ssa.Call), cb, it.stack), it.facts, it)
				stopped = true
				break
			}
			if ret, ok := in.(*ssa.Return); ok && (IsInlined(ret.Parent()) || (it.stack != nil && it.stack.callee == ret.Parent())) {
				if it.stack != nil && it.stack.callee == ret.Parent() {
					s := it.stack.site
					fc := it.facts
					for ri, k := range returnFacts(ret) {
						if k != factNone {
							fc = addFact(s, ri, k, fc)
						}
					}
					push(s.Block(), InstrIndex(s)+1, it.stack.up, fc, it)
				} else {
					// the walk started inside the callee: it may have been entered from any of its sites
					for _, s := range InlineSites(ret.Parent()) {
						if q.Root != nil && !InBody(q.Root, s.Parent()) {
							continue
						}
						fc := it.facts
						for ri, k := range returnFacts(ret) {
							if k != factNone {
								fc = addFact(s, ri, k, fc)
							}
						}
						push(s.Block(), InstrIndex(s)+1, nil, fc, it)
					}
				}
				stopped = true
				break
			}
		}
		if stopped {
			continue
		}
		var cond ssa.Value
		if it.facts != nil && len(it.b.Instrs) > 0 {
			if iff, ok := it.b.Instrs[len(it.b.Instrs)-1].(*ssa.If); ok {
				cond = iff.Cond
			}
		}
		for si, s := range it.b.Succs {
			if q.SkipEdge != nil && q.SkipEdge(it.b, si) {
				continue
			}
			if cond != nil && !feasible(it.facts, cond, si) {
				continue
			}
			push(s, 0, it.stack, it.facts, it)
		}
	}
	return false, nil
}

// pathBudget bounds the number of walk states of one PathQuery; BudgetHits counts the queries that were cut off.
const pathBudget = 300000

var BudgetHits int

// resultFact is what a return instruction of an inlined callee tells about one of its results.
type resultFact int

const (
	factNone resultFact = iota
	factTrue
	factFalse
	factNil
	factNonNil
)

var returnFactCache = map[*ssa.Return][]resultFact{}

// NonNilWhen lists functions whose (error) result is non-nil whenever the named predicate on the same object holds:
// frozen facts about the repository's own helper pairs, registered by the rules that rely on them.
var NonNilWhen = map[string]string{}

// returnFacts: per result of ret, a constant boolean, the nil constant, or "non-nil" when the returned value is one
// that the callee itself tested against nil on the way to this return (if err != nil { return ..., err }).
func returnFacts(ret *ssa.Return) []resultFact {
	if f, ok := returnFactCache[ret]; ok {
		return f
	}
	vals := ReturnValues(ret)
	out := make([]resultFact, len(vals))
	returnFactCache[ret] = out // also guards against re-entrance
	var guards []Guard
	haveGuards := false
	for i, v := range vals {
		if b, ok := ConstBool(v); ok {
			if b {
				out[i] = factTrue
			} else {
				out[i] = factFalse
			}
			continue
		}
		if IsNilConst(v) {
			out[i] = factNil
			continue
		}
		if _, isIface := v.Type().Underlying().(*types.Interface); !isIface {
			if _, isPtr := v.Type().Underlying().(*types.Pointer); !isPtr {
				continue
			}
		}
		// freshly made values: fmt.Errorf / errors.New results, allocations
		fresh := true
		os := Origins(v)
		for _, o := range os {
			switch x := o.(type) {
			case *ssa.Call:
				if k := CalleeKey(x); k != "fmt.Errorf" && k != "errors.New" {
					fresh = false
				}
			case *ssa.Alloc:
			default:
				if !IsErrorSentinel(o) {
					fresh = false
				}
			}
		}
		if fresh && len(os) > 0 {
			out[i] = factNonNil
			continue
		}
		if !haveGuards {
			WithoutInlining(func() { guards = GuardsOf(ret) })
			haveGuards = true
		}
		// results that are non-nil whenever a sibling predicate holds (NonNilWhen), returned under that predicate
		if len(os) > 0 {
			all := true
			for _, o := range os {
				c, isCall := o.(*ssa.Call)
				pred, listed := "", false
				if isCall {
					pred, listed = NonNilWhen[CalleeKey(c)]
				}
				if !listed {
					all = false
					break
				}
				held := false
				for _, g := range guards {
					cv, neg := StripNot(g.If.Cond)
					if g.CondTrue() == neg {
						continue
					}
					for _, oc := range OriginCalls(cv) {
						if CalleeIs(oc, pred) {
							held = true
						}
					}
				}
				if !held {
					all = false
					break
				}
			}
			if all {
				out[i] = factNonNil
				continue
			}
		}
		for _, g := range guards {
			x, nilOnTrue, ok := NilTest(g.If.Cond)
			if !ok || nilOnTrue == g.CondTrue() {
				continue // not a nil test, or the nil outcome
			}
			same := x == v
			if !same {
				for _, o := range Origins(x) {
					if HasOrigin(v, o) {
						if _, isConst := o.(*ssa.Const); !isConst {
							same = true
						}
					}
				}
			}
			if same {
				out[i] = factNonNil
			}
		}
	}
	return out
}

func isInstr(x ssa.Instruction) func(ssa.Instruction) bool {
	return func(i ssa.Instruction) bool { return i == x }
}

// IsExit matches normal function exits (return). Panics are not exits.
func IsExit(i ssa.Instruction) bool {
	r, ok := i.(*ssa.Return)
	return ok && !IsInlined(r.Parent())
}

// AlwaysBefore reports whether every path from the function entry to x
// executes an instruction of the set first (set-dominance).
func AlwaysBefore(set func(ssa.Instruction) bool, x ssa.Instruction) (bool, []int) {
	for _, root := range queryRoots(x.Parent()) {
		if r, tr := (PathQuery{Avoid: set, Root: root}).Reaches(root.Blocks[0], 0, isInstr(x)); r {
			return false, tr
		}
	}
	return true, nil
}

// InstrBefore: every path to b executes a first.
func InstrBefore(a, b ssa.Instruction) bool {
	if a == b {
		return false
	}
	ok, _ := AlwaysBefore(isInstr(a), b)
	return ok
}

// AlwaysAfter reports whether every path from just after x to a function exit
// executes an instruction of the set (set-post-dominance).
func AlwaysAfter(x ssa.Instruction, set func(ssa.Instruction) bool) (bool, []int) {
	r, tr := PathQuery{Avoid: set}.Reaches(x.Block(), InstrIndex(x)+1, IsExit)
	return !r, tr
}

// AlwaysAfterIn is AlwaysAfter for an instruction that may sit in a helper inlined into several hosts: only the
// continuation inside host root is followed.
func AlwaysAfterIn(root *ssa.Function, x ssa.Instruction, set func(ssa.Instruction) bool) (bool, []int) {
	r, tr := PathQuery{Avoid: set, Root: root}.Reaches(x.Block(), InstrIndex(x)+1, IsExit)
	return !r, tr
}

// CanFollow reports whether some path from just after a reaches b.
func CanFollow(a, b ssa.Instruction) bool {
	r, _ := PathQuery{}.Reaches(a.Block(), InstrIndex(a)+1, isInstr(b))
	return r
}

// ReachableFromEntry reports whether x is reachable at all.
func ReachableFromEntry(x ssa.Instruction) bool {
	for _, root := range queryRoots(x.Parent()) {
		if r, _ := (PathQuery{Root: root}).Reaches(root.Blocks[0], 0, isInstr(x)); r {
			return true
		}
	}
	return false
}

// OnlyViaEdge reports whether every path from entry to x takes edge from->Succs[succ].
func OnlyViaEdge(x ssa.Instruction, from *ssa.BasicBlock, succ int) bool {
	if !ReachableFromEntry(x) {
		return false
	}
	for _, root := range queryRoots(x.Parent()) {
		if r, _ := (PathQuery{SkipEdge: func(b *ssa.BasicBlock, s int) bool { return b == from && s == succ }, Root: root}).Reaches(root.Blocks[0], 0, isInstr(x)); r {
			return false
		}
	}
	return true
}

// OnCycle reports whether instruction x lies on a CFG cycle of its function.
func OnCycle(x ssa.Instruction) bool {
	r, _ := PathQuery{}.Reaches(x.Block(), InstrIndex(x)+1, isInstr(x))
	return r
}

// Ifs returns the If terminators of fn.
func Ifs(fn *ssa.Function) []*ssa.If {
	var out []*ssa.If
	for _, b := range Blocks(fn) {
		if len(b.Instrs) == 0 {
			continue
		}
		if i, ok := b.Instrs[len(b.Instrs)-1].(*ssa.If); ok {
			out = append(out, i)
		}
	}
	return out
}

// StripNot removes leading boolean negations; neg is true for an odd number.
func StripNot(v ssa.Value) (ssa.Value, bool) {
	neg := false
	for {
		u, ok := v.(*ssa.UnOp)
		if !ok || u.Op != token.NOT {
			return v, neg
		}
		neg = !neg
		v = u.X
	}
}

// IsNilConst reports whether v is the nil constant.
func IsNilConst(v ssa.Value) bool {
	c, ok := v.(*ssa.Const)
	return ok && c.Value == nil && !isBasicNonNil(c.Type())
}

func isBasicNonNil(t types.Type) bool {
	if b, ok := t.Underlying().(*types.Basic); ok {
		return b.Kind() != types.UntypedNil && b.Kind() != types.UnsafePointer
	}
	return false
}

// NilTest decomposes "x == nil" / "x != nil" (after stripping negations).
// eqOnTrue tells whether the TRUE outcome of cond means x == nil.
func NilTest(cond ssa.Value) (x ssa.Value, nilOnTrue bool, ok bool) {
	v, neg := StripNot(cond)
	b, isb := v.(*ssa.BinOp)
	if !isb || (b.Op != token.EQL && b.Op != token.NEQ) {
		return nil, false, false
	}
	var other ssa.Value
	switch {
	case IsNilConst(b.Y):
		other = b.X
	case IsNilConst(b.X):
		other = b.Y
	default:
		return nil, false, false
	}
	nilOnTrue = b.Op == token.EQL
	if neg {
		nilOnTrue = !nilOnTrue
	}
	return other, nilOnTrue, true
}

// Origins follows a value backwards through extract, phi, change-type,
// make-interface, type-assert and loads of single-store locals and collects
// the instructions that produce it (calls, params, consts, ...).
func Origins(v ssa.Value) []ssa.Value {
	seen := map[ssa.Value]bool{}
	var out []ssa.Value
	var rec func(v ssa.Value)
	rec = func(v ssa.Value) {
		if v == nil || seen[v] {
			return
		}
		seen[v] = true
		switch x := v.(type) {
		case *ssa.Extract:
			if c, ok := x.Tuple.(*ssa.Call); ok && InlinedCallee(c) != nil {
				rs := inlinedResults(c, x.Index)
				for _, r := range rs {
					rec(r)
				}
				if len(rs) > 0 {
					return
				}
			}
			rec(x.Tuple)
		case *ssa.Parameter:
			if args := inlinedArgs(x); len(args) > 0 {
				for _, a := range args {
					rec(a)
				}
				return
			}
			out = append(out, v)
		case *ssa.Call:
			if InlinedCallee(x) != nil && x.Call.Signature().Results().Len() == 1 {
				rs := inlinedResults(x, 0)
				for _, r := range rs {
					rec(r)
				}
				if len(rs) > 0 {
					return
				}
			}
			// the call of a callback parameter of an inlined helper: what the closure bound to it returns
			if cb := CallbackTarget(x); cb != nil && x.Call.Signature().Results().Len() == 1 {
				n := 0
				for _, ret := range Returns(cb) {
					if len(ret.Results) == 1 {
						n++
						rec(ret.Results[0])
					}
				}
				if n > 0 {
					return
				}
			}
			out = append(out, v)
		case *ssa.Phi:
			for _, e := range x.Edges {
				rec(e)
			}
		case *ssa.ChangeType:
			rec(x.X)
		case *ssa.ChangeInterface:
			rec(x.X)
		case *ssa.MakeInterface:
			rec(x.X)
		case *ssa.Convert:
			rec(x.X)
		case *ssa.TypeAssert:
			rec(x.X)
		case *ssa.Field:
			// field of a struct VALUE (e.g. the state struct a phase function returns): the stores into that field
			// of the local variable(s) the value was loaded from
			if vals := localFieldStores(x.X, x.Field, 0); len(vals) > 0 {
				for _, sv := range vals {
					rec(sv)
				}
				return
			}
			out = append(out, v)
		case *ssa.UnOp:
			if x.Op == token.MUL {
				// load of a field of a LOCAL struct (p := &state{...}; p.f): the stores into that field
				if fa, ok := x.X.(*ssa.FieldAddr); ok {
					if vals := localFieldStores(fa.X, fa.Field, 0); len(vals) > 0 {
						for _, sv := range vals {
							rec(sv)
						}
						return
					}
				}
				// load: follow stores into a local alloc
				if a, ok := x.X.(*ssa.Alloc); ok {
					n := 0
					for _, r := range *a.Referrers() {
						if st, ok := r.(*ssa.Store); ok && st.Addr == a {
							n++
							rec(st.Val)
						}
					}
					if n > 0 {
						return
					}
				}
			}
			out = append(out, v)
		default:
			out = append(out, v)
		}
	}
	rec(v)
	return out
}

// OriginCalls returns the call instructions among the origins of v.
func OriginCalls(v ssa.Value) []*ssa.Call {
	var out []*ssa.Call
	for _, o := range Origins(v) {
		if c, ok := o.(*ssa.Call); ok {
			out = append(out, c)
		}
	}
	return out
}

// Guard describes one outcome edge of an If.
type Guard struct {
	If   *ssa.If
	Succ int // 0 = condition true, 1 = condition false
}

// CondTrue is the truth value of the If's condition on this edge.
func (g Guard) CondTrue() bool { return g.Succ == 0 }

// GuardsOf lists every If outcome edge that all paths to x must take.
func GuardsOf(x ssa.Instruction) []Guard {
	var out []Guard
	seen := map[*ssa.If]bool{}
	for _, root := range queryRoots(x.Parent()) {
		for _, i := range Ifs(root) {
			if seen[i] {
				continue
			}
			seen[i] = true
			for s := 0; s < 2; s++ {
				if OnlyViaEdge(x, i.Block(), s) {
					out = append(out, Guard{i, s})
				}
			}
		}
	}
	return out
}

// Atom is an elementary condition known to hold (True) or not on every path to an instruction.
type Atom struct {
	Cond ssa.Value
	True bool
	If   *ssa.If
	Site *ssa.Call // the call of the virtually inlined helper whose result the condition was resolved through (or nil)
}

// Bind resolves v, a value of the helper the atom was resolved through, at that call of the helper: a parameter of
// the helper stands for the argument of this very call, not for the arguments of all its calls.
func (a Atom) Bind(v ssa.Value) ssa.Value {
	if a.Site == nil || v == nil {
		return v
	}
	h := InlinedCallee(a.Site)
	res := v
	WithoutInlining(func() {
		for _, o := range append(Origins(v), v) {
			if p, ok := o.(*ssa.Parameter); ok && p.Parent() == h {
				for i, q := range h.Params {
					if q == p && i < len(a.Site.Call.Args) {
						res = a.Site.Call.Args[i]
					}
				}
			}
		}
	})
	return res
}

// atomsOf decomposes the outcome `val` of condition cond: "a && b" being true makes a and b true, "a || b" being
// false makes both false (go/ssa compiles these to a phi over constant and right-hand-side edges).
func atomsOf(cond ssa.Value, val bool, iff *ssa.If, depth int, known map[siteResult]resultFact, via ...*ssa.Call) []Atom {
	var viaSite *ssa.Call
	if len(via) > 0 {
		viaSite = via[0]
	}
	v, neg := StripNot(cond)
	if neg {
		val = !val
	}
	// boolean result of a virtually inlined helper ("valid, err := d.validate(...)"): when only one of the helper's
	// returns can yield this outcome, the condition is that return's expression
	if depth <= 4 {
		var site *ssa.Call
		ridx := 0
		switch x := v.(type) {
		case *ssa.Extract:
			site, _ = x.Tuple.(*ssa.Call)
			ridx = x.Index
		case *ssa.Call:
			site = x
		}
		if site != nil && InlinedCallee(site) != nil {
			var cand []ssa.Value
			for _, ret := range Returns(InlinedCallee(site)) {
				rvs := ReturnValues(ret)
				if ridx >= len(rvs) {
					continue
				}
				rv := rvs[ridx]
				if b, isC := ConstBool(rv); isC && b != val {
					continue // this return yields the other outcome
				}
				// a return whose other results contradict what the path is known to have seen of them (err == nil
				// tested before) is not the one that was taken
				contradicts := false
				for j, k := range returnFacts(ret) {
					if kn, ok := known[siteResult{site, j}]; ok && k != factNone && kn != k {
						contradicts = true
					}
				}
				if contradicts {
					continue
				}
				cand = append(cand, rv)
			}
			if len(cand) == 1 {
				if _, isC := cand[0].(*ssa.Const); !isC {
					return atomsOf(cand[0], val, iff, depth+1, known, site)
				}
			}
		}
	}
	ph, ok := v.(*ssa.Phi)
	if !ok || depth > 4 || (ph.Comment != "&&" && ph.Comment != "||") {
		return []Atom{{v, val, iff, viaSite}}
	}
	and := ph.Comment == "&&"
	if and != val {
		// "a && b" false / "a || b" true: nothing is known about the operands individually
		return []Atom{{v, val, iff, viaSite}}
	}
	var out []Atom
	for i, e := range ph.Edges {
		if b, isC := ConstBool(e); isC && b != and {
			// short-circuit edge: the predecessor's own condition decided; on this outcome it did not short-circuit
			if i < len(ph.Block().Preds) {
				pred := ph.Block().Preds[i]
				if pi, ok := pred.Instrs[len(pred.Instrs)-1].(*ssa.If); ok {
					out = append(out, atomsOf(pi.Cond, and, pi, depth+1, known, via...)...)
				}
			}
			continue
		}
		out = append(out, atomsOf(e, val, iff, depth+1, known, via...)...)
	}
	return out
}

// GuardAtoms lists the elementary conditions that hold on every path to x (guards with && / || taken apart).
func GuardAtoms(x ssa.Instruction) []Atom {
	var out []Atom
	guards := GuardsOf(x)
	// what the guards say directly about results of inlined calls
	known := map[siteResult]resultFact{}
	for _, g := range guards {
		v, neg := StripNot(g.If.Cond)
		val := g.CondTrue()
		if neg {
			val = !val
		}
		if sr, ok := siteResultOf(v); ok {
			if val {
				known[sr] = factTrue
			} else {
				known[sr] = factFalse
			}
		}
		if y, nilOnTrue, ok := NilTest(g.If.Cond); ok {
			if sr, ok := siteResultOf(y); ok {
				if nilOnTrue == g.CondTrue() {
					known[sr] = factNil
				} else {
					known[sr] = factNonNil
				}
			}
		}
	}
	for _, g := range guards {
		out = append(out, atomsOf(g.If.Cond, g.CondTrue(), g.If, 0, known)...)
	}
	return out
}

type siteResult struct {
	site *ssa.Call
	idx  int
}

func siteResultOf(v ssa.Value) (siteResult, bool) {
	switch x := v.(type) {
	case *ssa.Extract:
		if c, ok := x.Tuple.(*ssa.Call); ok && InlinedCallee(c) != nil {
			return siteResult{c, x.Index}, true
		}
	case *ssa.Call:
		if InlinedCallee(x) != nil {
			return siteResult{x, 0}, true
		}
	}
	return siteResult{}, false
}

// GuardedByErrNil: x executes only when the error result of call c was tested and found nil.
func GuardedByErrNil(x ssa.Instruction, c *ssa.Call) bool {
	for _, a := range GuardAtoms(x) {
		v, nilOnTrue, ok := NilTest(a.Cond)
		if !ok {
			continue
		}
		if nilOnTrue != a.True {
			continue // this edge is the non-nil outcome
		}
		for _, oc := range OriginCalls(v) {
			if oc == c {
				return true
			}
		}
	}
	return false
}

// GuardedByBoolCall: x executes only on the outcome `want` of a boolean call
// whose callee key is one of keys (optionally negated in source).
func GuardedByBoolCall(x ssa.Instruction, want bool, keys ...string) bool {
	for _, a := range GuardAtoms(x) {
		if a.True != want {
			continue
		}
		for _, oc := range OriginCalls(a.Cond) {
			if CalleeIs(oc, keys...) {
				return true
			}
		}
	}
	return false
}

// GuardedByValue: x executes only when boolean value p (e.g. a parameter) has value want.
func GuardedByValue(x ssa.Instruction, p ssa.Value, want bool) bool {
	for _, a := range GuardAtoms(x) {
		if a.True != want {
			continue
		}
		if a.Cond == p {
			return true
		}
		for _, o := range Origins(a.Cond) {
			if o == p {
				return true
			}
		}
	}
	return false
}

// ConstInt returns the integer value of a constant operand.
func ConstInt(v ssa.Value) (int64, bool) {
	c, ok := v.(*ssa.Const)
	if !ok || c.Value == nil || c.Value.Kind() != constant.Int {
		return 0, false
	}
	return c.Int64(), true
}

// ConstBool returns the boolean value of a constant operand.
func ConstBool(v ssa.Value) (bool, bool) {
	c, ok := v.(*ssa.Const)
	if ok {
		if c.Value == nil || c.Value.Kind() != constant.Bool {
			return false, false
		}
		return constant.BoolVal(c.Value), true
	}
	if v == nil {
		return false, false
	}
	if bt, isB := v.Type().Underlying().(*types.Basic); !isB || bt.Info()&types.IsBoolean == 0 {
		return false, false
	}
	// the same constant on every way the value can come about (a parameter of a helper all of whose callers pass it)
	os := Origins(v)
	if len(os) == 0 {
		return false, false
	}
	val := false
	for i, o := range os {
		oc, isC := o.(*ssa.Const)
		if !isC || oc.Value == nil || oc.Value.Kind() != constant.Bool {
			return false, false
		}
		b := constant.BoolVal(oc.Value)
		if i > 0 && b != val {
			return false, false
		}
		val = b
	}
	return val, true
}

// ConstString returns the string value of a constant operand.
func ConstString(v ssa.Value) (string, bool) {
	c, ok := v.(*ssa.Const)
	if !ok || c.Value == nil || c.Value.Kind() != constant.String {
		return "", false
	}
	return constant.StringVal(c.Value), true
}

// Param returns the named parameter of fn.
func Param(fn *ssa.Function, name string) *ssa.Parameter {
	if fn == nil {
		return nil
	}
	for _, p := range fn.Params {
		if p.Name() == name {
			return p
		}
	}
	return nil
}

// FieldOf returns the "<Type>.<field>" key when v is the address of a struct
// field or a load from one (through any number of loads), else "".
func FieldOf(v ssa.Value) string {
	for i := 0; i < 4 && v != nil; i++ {
		switch x := v.(type) {
		case *ssa.FieldAddr:
			return FieldKey(x)
		case *ssa.Field:
			return FieldKeyVal(x)
		case *ssa.UnOp:
			if x.Op == token.MUL {
				v = x.X
				continue
			}
			return ""
		case *ssa.ChangeType:
			v = x.X
			continue
		case *ssa.MakeInterface:
			v = x.X
			continue
		case *ssa.Parameter:
			// a parameter of an inlined helper is the field all of its call sites pass
			key := ""
			for _, a := range inlinedArgs(x) {
				k := FieldOf(a)
				if k == "" || (key != "" && k != key) {
					return ""
				}
				key = k
			}
			return key
		default:
			return ""
		}
	}
	return ""
}

// FieldBase returns the struct value whose field v addresses or loads (nil if v is no field access).
func FieldBase(v ssa.Value) ssa.Value {
	for i := 0; i < 4 && v != nil; i++ {
		switch x := v.(type) {
		case *ssa.FieldAddr:
			return x.X
		case *ssa.Field:
			return x.X
		case *ssa.UnOp:
			if x.Op == token.MUL {
				v = x.X
				continue
			}
			return nil
		default:
			return nil
		}
	}
	return nil
}

// StoresToField lists the stores in fn whose address is the given field key.
func StoresToField(fn *ssa.Function, key string) []*ssa.Store {
	var out []*ssa.Store
	for _, b := range Blocks(fn) {
		for _, in := range b.Instrs {
			if st, ok := in.(*ssa.Store); ok {
				if fa, ok := st.Addr.(*ssa.FieldAddr); ok && FieldKey(fa) == key {
					out = append(out, st)
				}
			}
		}
	}
	return out
}

// LoadsOfField lists the loads (UnOp MUL of FieldAddr, or Field) of the given field key in fn.
func LoadsOfField(fn *ssa.Function, key string) []ssa.Value {
	var out []ssa.Value
	for _, b := range Blocks(fn) {
		for _, in := range b.Instrs {
			switch x := in.(type) {
			case *ssa.UnOp:
				if x.Op == token.MUL {
					if fa, ok := x.X.(*ssa.FieldAddr); ok && FieldKey(fa) == key {
						out = append(out, x)
					}
				}
			case *ssa.Field:
				if FieldKeyVal(x) == key {
					out = append(out, x)
				}
			}
		}
	}
	return out
}

// EqTest decomposes "a == b" / "a != b" (after stripping negations):
// eqOnTrue tells whether the TRUE outcome of cond means a == b.
func EqTest(cond ssa.Value) (a, b ssa.Value, eqOnTrue bool, ok bool) {
	v, neg := StripNot(cond)
	bo, isb := v.(*ssa.BinOp)
	if !isb || (bo.Op != token.EQL && bo.Op != token.NEQ) {
		return nil, nil, false, false
	}
	eqOnTrue = bo.Op == token.EQL
	if neg {
		eqOnTrue = !eqOnTrue
	}
	return bo.X, bo.Y, eqOnTrue, true
}

// GuardedByEq: x executes only on the outcome "equal == want" of a comparison
// whose operands satisfy pa and pb (in either order).
func GuardedByEq(x ssa.Instruction, want bool, pa, pb func(ssa.Value) bool) bool {
	for _, at := range GuardAtoms(x) {
		a, b, eqOnTrue, ok := EqTest(at.Cond)
		if !ok {
			continue
		}
		isEq := eqOnTrue == at.True
		if isEq != want {
			continue
		}
		if (pa(a) && pb(b)) || (pa(b) && pb(a)) {
			return true
		}
	}
	return false
}

// Returns lists the return instructions of fn.
func Returns(fn *ssa.Function) []*ssa.Return {
	var out []*ssa.Return
	for _, b := range fn.Blocks {
		if len(b.Instrs) == 0 || b == fn.Recover {
			continue // the recover block of functions with defer is not an exit of any normal path
		}
		if r, ok := b.Instrs[len(b.Instrs)-1].(*ssa.Return); ok {
			out = append(out, r)
		}
	}
	return out
}

// HasOrigin reports whether o is among the origins of v.
func HasOrigin(v ssa.Value, o ssa.Value) bool {
	if v == o {
		return true
	}
	for _, x := range Origins(v) {
		if x == o {
			return true
		}
	}
	return false
}

// ReturnValues gives the values a return instruction yields. In functions with
// defer, go/ssa spills results into locals ("*t0 = v; rundefers; t = *t0;
// return t"): the value returned on that exit is the last store to the result
// local in the exit block, which is what this returns for such operands.
func ReturnValues(ret *ssa.Return) []ssa.Value {
	out := make([]ssa.Value, len(ret.Results))
	for i, res := range ret.Results {
		out[i] = res
		u, ok := res.(*ssa.UnOp)
		if !ok || u.Op != token.MUL {
			continue
		}
		al, ok := u.X.(*ssa.Alloc)
		if !ok {
			continue
		}
		blk := ret.Block()
		for j := len(blk.Instrs) - 1; j >= 0; j-- {
			if st, ok := blk.Instrs[j].(*ssa.Store); ok && st.Addr == al {
				out[i] = st.Val
				break
			}
		}
	}
	return out
}

// MayBeZeroValue reports whether v is (through phi / extract / conversions) a load of a local variable that can be
// reached from the variable's allocation without passing any store to it, i.e. whether v may still hold the zero
// value of its type (nil slice, nil map, ...). Origins() does not see that alternative because it is not a store.
func MayBeZeroValue(v ssa.Value) bool {
	seen := map[ssa.Value]bool{}
	var rec func(v ssa.Value) bool
	rec = func(v ssa.Value) bool {
		if v == nil || seen[v] {
			return false
		}
		seen[v] = true
		switch x := v.(type) {
		case *ssa.Extract:
			return rec(x.Tuple)
		case *ssa.Phi:
			for _, e := range x.Edges {
				if rec(e) {
					return true
				}
			}
		case *ssa.ChangeType:
			return rec(x.X)
		case *ssa.Convert:
			return rec(x.X)
		case *ssa.UnOp:
			if x.Op != token.MUL {
				return false
			}
			a, ok := x.X.(*ssa.Alloc)
			if !ok {
				return false
			}
			isStore := func(in ssa.Instruction) bool {
				st, ok := in.(*ssa.Store)
				return ok && st.Addr == ssa.Value(a)
			}
			reach, _ := PathQuery{Avoid: isStore}.Reaches(a.Block(), InstrIndex(a)+1, func(in ssa.Instruction) bool { return in == ssa.Instruction(x) })
			if reach {
				return true
			}
			for _, r := range *a.Referrers() {
				if st, ok := r.(*ssa.Store); ok && st.Addr == ssa.Value(a) && rec(st.Val) {
					return true
				}
			}
		}
		return false
	}
	return rec(v)
}

// localFieldStores: base is a struct value or a pointer to a struct. When it denotes a local variable of a
// repository function (an Alloc, possibly seen through parameters of virtually inlined helpers, results of inlined
// calls, phis), the values stored into field number idx of that variable - directly or through the parameters
// of the helpers it is handed to - are returned. Fields of objects that are not local (receivers, parameters of
// anchored functions, globals) yield nothing: their loads stay origins.
// LocalFieldStores is localFieldStores for rules.
func LocalFieldStores(base ssa.Value, idx int) []ssa.Value { return localFieldStores(base, idx, 0) }

func localFieldStores(base ssa.Value, idx int, depth int) []ssa.Value {
	if depth > 3 {
		return nil
	}
	allocs := localAllocsOf(base)
	if len(allocs) == 0 {
		return nil
	}
	isMine := map[*ssa.Alloc]bool{}
	for _, a := range allocs {
		isMine[a] = true
	}
	var out []ssa.Value
	seenFA := map[*ssa.FieldAddr]bool{}
	collect := func(fa *ssa.FieldAddr) {
		if seenFA[fa] {
			return
		}
		seenFA[fa] = true
		for _, r2 := range *fa.Referrers() {
			if st, ok := r2.(*ssa.Store); ok && st.Addr == fa {
				out = append(out, st.Val)
			}
		}
	}
	funcs := map[*ssa.Function]bool{}
	for _, a := range allocs {
		for _, r := range *a.Referrers() {
			if fa, ok := r.(*ssa.FieldAddr); ok && fa.Field == idx {
				collect(fa)
			}
		}
		// the variable may be handed to helpers that are inlined into the same host(s): their field stores count
		for _, root := range Roots(a.Parent()) {
			for _, g := range Body(root) {
				funcs[g] = true
			}
		}
	}
	if inl != nil {
		for g := range funcs {
			for _, b := range g.Blocks {
				for _, in := range b.Instrs {
					fa, ok := in.(*ssa.FieldAddr)
					if !ok || fa.Field != idx || seenFA[fa] {
						continue
					}
					if _, isAlloc := fa.X.(*ssa.Alloc); isAlloc {
						continue // a different local, or already handled
					}
					for _, a2 := range localAllocsOf(fa.X) {
						if isMine[a2] {
							collect(fa)
							break
						}
					}
				}
			}
		}
	}
	return out
}

// localAllocsOf resolves a struct value / struct pointer to the local variables (Allocs) it may denote.
func localAllocsOf(base ssa.Value) []*ssa.Alloc {
	var allocs []*ssa.Alloc
	seen := map[ssa.Value]bool{}
	var find func(v ssa.Value, d int)
	find = func(v ssa.Value, d int) {
		if v == nil || seen[v] || d > 8 {
			return
		}
		seen[v] = true
		switch x := v.(type) {
		case *ssa.Alloc:
			allocs = append(allocs, x)
			// a local that is (a copy of) another struct: the spilled value receiver / struct parameter of a helper
			if _, isStruct := x.Type().Underlying().(*types.Pointer).Elem().Underlying().(*types.Struct); isStruct {
				for _, r := range *x.Referrers() {
					if st, ok := r.(*ssa.Store); ok && st.Addr == ssa.Value(x) {
						find(st.Val, d+1)
					}
				}
			}
		case *ssa.UnOp:
			if x.Op == token.MUL {
				if a, ok := x.X.(*ssa.Alloc); ok {
					allocs = append(allocs, a)
					for _, r := range *a.Referrers() {
						if st, ok := r.(*ssa.Store); ok && st.Addr == a {
							find(st.Val, d+1)
						}
					}
				}
			}
		case *ssa.Phi:
			for _, e := range x.Edges {
				find(e, d+1)
			}
		case *ssa.Extract:
			if c, ok := x.Tuple.(*ssa.Call); ok && InlinedCallee(c) != nil {
				for _, r := range inlinedResults(c, x.Index) {
					find(r, d+1)
				}
			}
		case *ssa.Call:
			if InlinedCallee(x) != nil {
				for _, r := range inlinedResults(x, 0) {
					find(r, d+1)
				}
			}
		case *ssa.Parameter:
			for _, a := range inlinedArgs(x) {
				find(a, d+1)
			}
		case *ssa.ChangeType:
			find(x.X, d+1)
		case *ssa.MakeInterface:
			find(x.X, d+1)
		}
	}
	find(base, 0)
	return allocs
}

// OriginsThroughCaptures is Origins that also looks through variables captured by a closure: a load of a free variable
// is replaced by the values stored into the captured variable in the enclosing function(s) (depth <= 3).
func OriginsThroughCaptures(v ssa.Value) []ssa.Value {
	var out []ssa.Value
	seen := map[ssa.Value]bool{}
	var rec func(v ssa.Value, d int)
	binding := func(fv *ssa.FreeVar) ssa.Value {
		fn := fv.Parent()
		par := fn.Parent()
		if par == nil {
			return nil
		}
		idx := -1
		for i, f := range fn.FreeVars {
			if f == fv {
				idx = i
			}
		}
		for _, b := range par.Blocks {
			for _, in := range b.Instrs {
				if mc, ok := in.(*ssa.MakeClosure); ok && mc.Fn == ssa.Value(fn) && idx >= 0 && idx < len(mc.Bindings) {
					return mc.Bindings[idx]
				}
			}
		}
		return nil
	}
	rec = func(v ssa.Value, d int) {
		for _, o := range Origins(v) {
			if seen[o] {
				continue
			}
			seen[o] = true
			var fv *ssa.FreeVar
			load := false
			switch x := o.(type) {
			case *ssa.FreeVar:
				fv = x
			case *ssa.UnOp:
				if x.Op == token.MUL {
					if f, ok := x.X.(*ssa.FreeVar); ok {
						fv, load = f, true
					}
				}
			}
			if fv == nil || d > 3 {
				out = append(out, o)
				continue
			}
			b := binding(fv)
			if b == nil {
				out = append(out, o)
				continue
			}
			if !load {
				rec(b, d+1)
				continue
			}
			// the captured cell: what is stored into it
			n := 0
			if al, ok := b.(*ssa.Alloc); ok {
				for _, ref := range *al.Referrers() {
					if st, ok := ref.(*ssa.Store); ok && st.Addr == ssa.Value(al) {
						n++
						rec(st.Val, d+1)
					}
				}
			} else if f2, ok := b.(*ssa.FreeVar); ok {
				// captured from a function further out: a load of that cell
				if b2 := binding(f2); b2 != nil {
					if al, ok := b2.(*ssa.Alloc); ok {
						for _, ref := range *al.Referrers() {
							if st, ok := ref.(*ssa.Store); ok && st.Addr == ssa.Value(al) {
								n++
								rec(st.Val, d+1)
							}
						}
					}
				}
			}
			if n == 0 {
				out = append(out, o)
			}
		}
	}
	rec(v, 0)
	return out
}

// AtomsOfCond decomposes the TRUE outcome of a branch condition into atoms (see atomsOf): conjunctions taken apart,
// the boolean result of a virtually inlined predicate replaced by the expression it returns.
func AtomsOfCond(cond ssa.Value) []Atom {
	return atomsOf(cond, true, nil, 0, nil)
}
