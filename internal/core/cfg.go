package core

import (
	"go/constant"
	"go/token"
	"go/types"

	"golang.org/x/tools/go/ssa"
)

// PathQuery is a reachability question over the instruction-level CFG of one
// function: is there a path from a start position to an instruction
// satisfying Target that executes no instruction satisfying Avoid and takes
// no edge satisfying SkipEdge? All dominance / post-dominance / guard
// questions of the rules are instances of it (exact on the CFG, every branch
// assumed feasible both ways).
type PathQuery struct {
	Avoid    func(ssa.Instruction) bool
	SkipEdge func(from *ssa.BasicBlock, succ int) bool
	// Root restricts the returns of inlined callees to call sites inside this host (nil: every inlined site).
	Root *ssa.Function
}

// Reaches runs the query starting at instruction index idx of block b.
// It returns a witness block trace when a path exists. With virtual inlining (inline.go) the walk enters an
// inlined callee at its call site and continues after the call from the callee's returns.
func (q PathQuery) Reaches(b *ssa.BasicBlock, idx int, target func(ssa.Instruction) bool) (bool, []int) {
	// call stack of inlined sites entered during the walk (context-sensitive returns); frames are interned so that
	// two equal stacks are the same pointer
	type frame struct {
		site *ssa.Call
		up   *frame
	}
	type fkey struct {
		site *ssa.Call
		up   *frame
	}
	frames := map[fkey]*frame{}
	pushFrame := func(site *ssa.Call, up *frame) *frame {
		k := fkey{site, up}
		if f, ok := frames[k]; ok {
			return f
		}
		f := &frame{site, up}
		frames[k] = f
		return f
	}
	depth := func(f *frame) int {
		n := 0
		for ; f != nil; f = f.up {
			n++
		}
		return n
	}
	type item struct {
		b     *ssa.BasicBlock
		idx   int
		stack *frame
		prev  *item
	}
	type pos struct {
		b     *ssa.BasicBlock
		idx   int
		stack *frame
	}
	seen := map[pos]bool{}
	work := []*item{{b, idx, nil, nil}}
	push := func(nb *ssa.BasicBlock, ni int, st *frame, prev *item) {
		k := pos{nb, ni, st}
		if seen[k] {
			return
		}
		seen[k] = true
		work = append(work, &item{nb, ni, st, prev})
	}
	for len(work) > 0 {
		it := work[0]
		work = work[1:]
		stopped := false
		for i := it.idx; i < len(it.b.Instrs); i++ {
			in := it.b.Instrs[i]
			if target(in) {
				var tr []int
				for p := it; p != nil; p = p.prev {
					tr = append([]int{p.b.Index}, tr...)
				}
				return true, tr
			}
			if q.Avoid != nil && q.Avoid(in) {
				stopped = true
				break
			}
			if h := InlinedCallee(in); h != nil && depth(it.stack) < 6 {
				// the instructions after the call are reached from the callee's returns
				push(h.Blocks[0], 0, pushFrame(in.(*ssa.Call), it.stack), it)
				stopped = true
				break
			}
			if ret, ok := in.(*ssa.Return); ok && IsInlined(ret.Parent()) {
				if it.stack != nil && InlinedCallee(it.stack.site) == ret.Parent() {
					s := it.stack.site
					push(s.Block(), InstrIndex(s)+1, it.stack.up, it)
				} else {
					// the walk started inside the callee: it may have been entered from any of its sites
					for _, s := range InlineSites(ret.Parent()) {
						if q.Root != nil && !InBody(q.Root, s.Parent()) {
							continue
						}
						push(s.Block(), InstrIndex(s)+1, nil, it)
					}
				}
				stopped = true
				break
			}
		}
		if stopped {
			continue
		}
		for si, s := range it.b.Succs {
			if q.SkipEdge != nil && q.SkipEdge(it.b, si) {
				continue
			}
			push(s, 0, it.stack, it)
		}
	}
	return false, nil
}

func isInstr(x ssa.Instruction) func(ssa.Instruction) bool {
	return func(i ssa.Instruction) bool { return i == x }
}

// IsExit matches normal function exits (return). Panics are not exits.
func IsExit(i ssa.Instruction) bool {
	r, ok := i.(*ssa.Return)
	return ok && !IsInlined(r.Parent())
}

// AlwaysBefore reports whether every path from the function entry to x
// executes an instruction of the set first (set-dominance).
func AlwaysBefore(set func(ssa.Instruction) bool, x ssa.Instruction) (bool, []int) {
	for _, root := range Roots(x.Parent()) {
		if r, tr := (PathQuery{Avoid: set, Root: root}).Reaches(root.Blocks[0], 0, isInstr(x)); r {
			return false, tr
		}
	}
	return true, nil
}

// InstrBefore: every path to b executes a first.
func InstrBefore(a, b ssa.Instruction) bool {
	if a == b {
		return false
	}
	ok, _ := AlwaysBefore(isInstr(a), b)
	return ok
}

// AlwaysAfter reports whether every path from just after x to a function exit
// executes an instruction of the set (set-post-dominance).
func AlwaysAfter(x ssa.Instruction, set func(ssa.Instruction) bool) (bool, []int) {
	r, tr := PathQuery{Avoid: set}.Reaches(x.Block(), InstrIndex(x)+1, IsExit)
	return !r, tr
}

// CanFollow reports whether some path from just after a reaches b.
func CanFollow(a, b ssa.Instruction) bool {
	r, _ := PathQuery{}.Reaches(a.Block(), InstrIndex(a)+1, isInstr(b))
	return r
}

// ReachableFromEntry reports whether x is reachable at all.
func ReachableFromEntry(x ssa.Instruction) bool {
	for _, root := range Roots(x.Parent()) {
		if r, _ := (PathQuery{Root: root}).Reaches(root.Blocks[0], 0, isInstr(x)); r {
			return true
		}
	}
	return false
}

// OnlyViaEdge reports whether every path from entry to x takes edge from->Succs[succ].
func OnlyViaEdge(x ssa.Instruction, from *ssa.BasicBlock, succ int) bool {
	if !ReachableFromEntry(x) {
		return false
	}
	for _, root := range Roots(x.Parent()) {
		if r, _ := (PathQuery{SkipEdge: func(b *ssa.BasicBlock, s int) bool { return b == from && s == succ }, Root: root}).Reaches(root.Blocks[0], 0, isInstr(x)); r {
			return false
		}
	}
	return true
}

// OnCycle reports whether instruction x lies on a CFG cycle of its function.
func OnCycle(x ssa.Instruction) bool {
	r, _ := PathQuery{}.Reaches(x.Block(), InstrIndex(x)+1, isInstr(x))
	return r
}

// Ifs returns the If terminators of fn.
func Ifs(fn *ssa.Function) []*ssa.If {
	var out []*ssa.If
	for _, b := range Blocks(fn) {
		if len(b.Instrs) == 0 {
			continue
		}
		if i, ok := b.Instrs[len(b.Instrs)-1].(*ssa.If); ok {
			out = append(out, i)
		}
	}
	return out
}

// StripNot removes leading boolean negations; neg is true for an odd number.
func StripNot(v ssa.Value) (ssa.Value, bool) {
	neg := false
	for {
		u, ok := v.(*ssa.UnOp)
		if !ok || u.Op != token.NOT {
			return v, neg
		}
		neg = !neg
		v = u.X
	}
}

// IsNilConst reports whether v is the nil constant.
func IsNilConst(v ssa.Value) bool {
	c, ok := v.(*ssa.Const)
	return ok && c.Value == nil && !isBasicNonNil(c.Type())
}

func isBasicNonNil(t types.Type) bool {
	if b, ok := t.Underlying().(*types.Basic); ok {
		return b.Kind() != types.UntypedNil && b.Kind() != types.UnsafePointer
	}
	return false
}

// NilTest decomposes "x == nil" / "x != nil" (after stripping negations).
// eqOnTrue tells whether the TRUE outcome of cond means x == nil.
func NilTest(cond ssa.Value) (x ssa.Value, nilOnTrue bool, ok bool) {
	v, neg := StripNot(cond)
	b, isb := v.(*ssa.BinOp)
	if !isb || (b.Op != token.EQL && b.Op != token.NEQ) {
		return nil, false, false
	}
	var other ssa.Value
	switch {
	case IsNilConst(b.Y):
		other = b.X
	case IsNilConst(b.X):
		other = b.Y
	default:
		return nil, false, false
	}
	nilOnTrue = b.Op == token.EQL
	if neg {
		nilOnTrue = !nilOnTrue
	}
	return other, nilOnTrue, true
}

// Origins follows a value backwards through extract, phi, change-type,
// make-interface, type-assert and loads of single-store locals and collects
// the instructions that produce it (calls, params, consts, ...).
func Origins(v ssa.Value) []ssa.Value {
	seen := map[ssa.Value]bool{}
	var out []ssa.Value
	var rec func(v ssa.Value)
	rec = func(v ssa.Value) {
		if v == nil || seen[v] {
			return
		}
		seen[v] = true
		switch x := v.(type) {
		case *ssa.Extract:
			if c, ok := x.Tuple.(*ssa.Call); ok && InlinedCallee(c) != nil {
				rs := inlinedResults(c, x.Index)
				for _, r := range rs {
					rec(r)
				}
				if len(rs) > 0 {
					return
				}
			}
			rec(x.Tuple)
		case *ssa.Parameter:
			if args := inlinedArgs(x); len(args) > 0 {
				for _, a := range args {
					rec(a)
				}
				return
			}
			out = append(out, v)
		case *ssa.Call:
			if InlinedCallee(x) != nil && x.Call.Signature().Results().Len() == 1 {
				rs := inlinedResults(x, 0)
				for _, r := range rs {
					rec(r)
				}
				if len(rs) > 0 {
					return
				}
			}
			out = append(out, v)
		case *ssa.Phi:
			for _, e := range x.Edges {
				rec(e)
			}
		case *ssa.ChangeType:
			rec(x.X)
		case *ssa.ChangeInterface:
			rec(x.X)
		case *ssa.MakeInterface:
			rec(x.X)
		case *ssa.Convert:
			rec(x.X)
		case *ssa.TypeAssert:
			rec(x.X)
		case *ssa.UnOp:
			if x.Op == token.MUL {
				// load: follow stores into a local alloc
				if a, ok := x.X.(*ssa.Alloc); ok {
					n := 0
					for _, r := range *a.Referrers() {
						if st, ok := r.(*ssa.Store); ok && st.Addr == a {
							n++
							rec(st.Val)
						}
					}
					if n > 0 {
						return
					}
				}
			}
			out = append(out, v)
		default:
			out = append(out, v)
		}
	}
	rec(v)
	return out
}

// OriginCalls returns the call instructions among the origins of v.
func OriginCalls(v ssa.Value) []*ssa.Call {
	var out []*ssa.Call
	for _, o := range Origins(v) {
		if c, ok := o.(*ssa.Call); ok {
			out = append(out, c)
		}
	}
	return out
}

// Guard describes one outcome edge of an If.
type Guard struct {
	If   *ssa.If
	Succ int // 0 = condition true, 1 = condition false
}

// CondTrue is the truth value of the If's condition on this edge.
func (g Guard) CondTrue() bool { return g.Succ == 0 }

// GuardsOf lists every If outcome edge that all paths to x must take.
func GuardsOf(x ssa.Instruction) []Guard {
	var out []Guard
	seen := map[*ssa.If]bool{}
	for _, root := range Roots(x.Parent()) {
		for _, i := range Ifs(root) {
			if seen[i] {
				continue
			}
			seen[i] = true
			for s := 0; s < 2; s++ {
				if OnlyViaEdge(x, i.Block(), s) {
					out = append(out, Guard{i, s})
				}
			}
		}
	}
	return out
}

// GuardedByErrNil: x executes only when the error result of call c was tested and found nil.
func GuardedByErrNil(x ssa.Instruction, c *ssa.Call) bool {
	for _, g := range GuardsOf(x) {
		v, nilOnTrue, ok := NilTest(g.If.Cond)
		if !ok {
			continue
		}
		if nilOnTrue != g.CondTrue() {
			continue // this edge is the non-nil outcome
		}
		for _, oc := range OriginCalls(v) {
			if oc == c {
				return true
			}
		}
	}
	return false
}

// GuardedByBoolCall: x executes only on the outcome `want` of a boolean call
// whose callee key is one of keys (optionally negated in source).
func GuardedByBoolCall(x ssa.Instruction, want bool, keys ...string) bool {
	for _, g := range GuardsOf(x) {
		v, neg := StripNot(g.If.Cond)
		val := g.CondTrue()
		if neg {
			val = !val
		}
		if val != want {
			continue
		}
		for _, oc := range OriginCalls(v) {
			if CalleeIs(oc, keys...) {
				return true
			}
		}
	}
	return false
}

// GuardedByValue: x executes only when boolean value p (e.g. a parameter) has value want.
func GuardedByValue(x ssa.Instruction, p ssa.Value, want bool) bool {
	for _, g := range GuardsOf(x) {
		v, neg := StripNot(g.If.Cond)
		val := g.CondTrue()
		if neg {
			val = !val
		}
		if val != want {
			continue
		}
		if v == p {
			return true
		}
		for _, o := range Origins(v) {
			if o == p {
				return true
			}
		}
	}
	return false
}

// ConstInt returns the integer value of a constant operand.
func ConstInt(v ssa.Value) (int64, bool) {
	c, ok := v.(*ssa.Const)
	if !ok || c.Value == nil || c.Value.Kind() != constant.Int {
		return 0, false
	}
	return c.Int64(), true
}

// ConstBool returns the boolean value of a constant operand.
func ConstBool(v ssa.Value) (bool, bool) {
	c, ok := v.(*ssa.Const)
	if !ok || c.Value == nil || c.Value.Kind() != constant.Bool {
		return false, false
	}
	return constant.BoolVal(c.Value), true
}

// ConstString returns the string value of a constant operand.
func ConstString(v ssa.Value) (string, bool) {
	c, ok := v.(*ssa.Const)
	if !ok || c.Value == nil || c.Value.Kind() != constant.String {
		return "", false
	}
	return constant.StringVal(c.Value), true
}

// Param returns the named parameter of fn.
func Param(fn *ssa.Function, name string) *ssa.Parameter {
	if fn == nil {
		return nil
	}
	for _, p := range fn.Params {
		if p.Name() == name {
			return p
		}
	}
	return nil
}

// FieldOf returns the "<Type>.<field>" key when v is the address of a struct
// field or a load from one (through any number of loads), else "".
func FieldOf(v ssa.Value) string {
	for i := 0; i < 4 && v != nil; i++ {
		switch x := v.(type) {
		case *ssa.FieldAddr:
			return FieldKey(x)
		case *ssa.Field:
			return FieldKeyVal(x)
		case *ssa.UnOp:
			if x.Op == token.MUL {
				v = x.X
				continue
			}
			return ""
		case *ssa.ChangeType:
			v = x.X
			continue
		case *ssa.MakeInterface:
			v = x.X
			continue
		default:
			return ""
		}
	}
	return ""
}

// FieldBase returns the struct value whose field v addresses or loads (nil if v is no field access).
func FieldBase(v ssa.Value) ssa.Value {
	for i := 0; i < 4 && v != nil; i++ {
		switch x := v.(type) {
		case *ssa.FieldAddr:
			return x.X
		case *ssa.Field:
			return x.X
		case *ssa.UnOp:
			if x.Op == token.MUL {
				v = x.X
				continue
			}
			return nil
		default:
			return nil
		}
	}
	return nil
}

// StoresToField lists the stores in fn whose address is the given field key.
func StoresToField(fn *ssa.Function, key string) []*ssa.Store {
	var out []*ssa.Store
	for _, b := range Blocks(fn) {
		for _, in := range b.Instrs {
			if st, ok := in.(*ssa.Store); ok {
				if fa, ok := st.Addr.(*ssa.FieldAddr); ok && FieldKey(fa) == key {
					out = append(out, st)
				}
			}
		}
	}
	return out
}

// LoadsOfField lists the loads (UnOp MUL of FieldAddr, or Field) of the given field key in fn.
func LoadsOfField(fn *ssa.Function, key string) []ssa.Value {
	var out []ssa.Value
	for _, b := range Blocks(fn) {
		for _, in := range b.Instrs {
			switch x := in.(type) {
			case *ssa.UnOp:
				if x.Op == token.MUL {
					if fa, ok := x.X.(*ssa.FieldAddr); ok && FieldKey(fa) == key {
						out = append(out, x)
					}
				}
			case *ssa.Field:
				if FieldKeyVal(x) == key {
					out = append(out, x)
				}
			}
		}
	}
	return out
}

// EqTest decomposes "a == b" / "a != b" (after stripping negations):
// eqOnTrue tells whether the TRUE outcome of cond means a == b.
func EqTest(cond ssa.Value) (a, b ssa.Value, eqOnTrue bool, ok bool) {
	v, neg := StripNot(cond)
	bo, isb := v.(*ssa.BinOp)
	if !isb || (bo.Op != token.EQL && bo.Op != token.NEQ) {
		return nil, nil, false, false
	}
	eqOnTrue = bo.Op == token.EQL
	if neg {
		eqOnTrue = !eqOnTrue
	}
	return bo.X, bo.Y, eqOnTrue, true
}

// GuardedByEq: x executes only on the outcome "equal == want" of a comparison
// whose operands satisfy pa and pb (in either order).
func GuardedByEq(x ssa.Instruction, want bool, pa, pb func(ssa.Value) bool) bool {
	for _, g := range GuardsOf(x) {
		a, b, eqOnTrue, ok := EqTest(g.If.Cond)
		if !ok {
			continue
		}
		isEq := eqOnTrue == g.CondTrue()
		if isEq != want {
			continue
		}
		if (pa(a) && pb(b)) || (pa(b) && pb(a)) {
			return true
		}
	}
	return false
}

// Returns lists the return instructions of fn.
func Returns(fn *ssa.Function) []*ssa.Return {
	var out []*ssa.Return
	for _, b := range fn.Blocks {
		if len(b.Instrs) == 0 || b == fn.Recover {
			continue // the recover block of functions with defer is not an exit of any normal path
		}
		if r, ok := b.Instrs[len(b.Instrs)-1].(*ssa.Return); ok {
			out = append(out, r)
		}
	}
	return out
}

// HasOrigin reports whether o is among the origins of v.
func HasOrigin(v ssa.Value, o ssa.Value) bool {
	if v == o {
		return true
	}
	for _, x := range Origins(v) {
		if x == o {
			return true
		}
	}
	return false
}

// ReturnValues gives the values a return instruction yields. In functions with
// defer, go/ssa spills results into locals ("*t0 = v; rundefers; t = *t0;
// return t"): the value returned on that exit is the last store to the result
// local in the exit block, which is what this returns for such operands.
func ReturnValues(ret *ssa.Return) []ssa.Value {
	out := make([]ssa.Value, len(ret.Results))
	for i, res := range ret.Results {
		out[i] = res
		u, ok := res.(*ssa.UnOp)
		if !ok || u.Op != token.MUL {
			continue
		}
		al, ok := u.X.(*ssa.Alloc)
		if !ok {
			continue
		}
		blk := ret.Block()
		for j := len(blk.Instrs) - 1; j >= 0; j-- {
			if st, ok := blk.Instrs[j].(*ssa.Store); ok && st.Addr == al {
				out[i] = st.Val
				break
			}
		}
	}
	return out
}

// MayBeZeroValue reports whether v is (through phi / extract / conversions) a load of a local variable that can be
// reached from the variable's allocation without passing any store to it, i.e. whether v may still hold the zero
// value of its type (nil slice, nil map, ...). Origins() does not see that alternative because it is not a store.
func MayBeZeroValue(v ssa.Value) bool {
	seen := map[ssa.Value]bool{}
	var rec func(v ssa.Value) bool
	rec = func(v ssa.Value) bool {
		if v == nil || seen[v] {
			return false
		}
		seen[v] = true
		switch x := v.(type) {
		case *ssa.Extract:
			return rec(x.Tuple)
		case *ssa.Phi:
			for _, e := range x.Edges {
				if rec(e) {
					return true
				}
			}
		case *ssa.ChangeType:
			return rec(x.X)
		case *ssa.Convert:
			return rec(x.X)
		case *ssa.UnOp:
			if x.Op != token.MUL {
				return false
			}
			a, ok := x.X.(*ssa.Alloc)
			if !ok {
				return false
			}
			isStore := func(in ssa.Instruction) bool {
				st, ok := in.(*ssa.Store)
				return ok && st.Addr == ssa.Value(a)
			}
			reach, _ := PathQuery{Avoid: isStore}.Reaches(a.Block(), InstrIndex(a)+1, func(in ssa.Instruction) bool { return in == ssa.Instruction(x) })
			if reach {
				return true
			}
			for _, r := range *a.Referrers() {
				if st, ok := r.(*ssa.Store); ok && st.Addr == ssa.Value(a) && rec(st.Val) {
					return true
				}
			}
		}
		return false
	}
	return rec(v)
}
