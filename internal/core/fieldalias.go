package core

import (
	"go/types"
	"sort"
	"strings"
)

// Field keys ("<pkg>.<Type>.<field>") are how rule tables name struct fields. fieldAlias maps the key of a field as it
// is called in the analysed tree to the key the rule tables use, for fields that were merely renamed (see
// ResolveFieldRenames).
var fieldAlias map[string]string

func aliasKey(k string) string {
	if a, ok := fieldAlias[k]; ok {
		return a
	}
	return k
}

// repoStructs lists the named struct types of the repository packages by type key.
func (w *World) repoStructs() map[string]*types.Struct {
	out := map[string]*types.Struct{}
	for _, p := range w.SSAPkgs {
		if p == nil || p.Pkg == nil || !strings.HasPrefix(p.Pkg.Path(), Module) {
			continue
		}
		sc := p.Pkg.Scope()
		for _, n := range sc.Names() {
			tn, ok := sc.Lookup(n).(*types.TypeName)
			if !ok {
				continue
			}
			if st, ok := tn.Type().Underlying().(*types.Struct); ok {
				out[TypeKey(tn.Type())] = st
			}
		}
	}
	return out
}

// FieldTable renders "<field key> -> <type>" for every key in keys that names a field of a repository struct.
func (w *World) FieldTable(keys []string) map[string]string {
	structs := w.repoStructs()
	out := map[string]string{}
	for _, k := range keys {
		i := strings.LastIndex(k, ".")
		if i < 0 {
			continue
		}
		st := structs[k[:i]]
		if st == nil {
			continue
		}
		for j := 0; j < st.NumFields(); j++ {
			if st.Field(j).Name() == k[i+1:] {
				out[k] = types.TypeString(st.Field(j).Type(), nil)
			}
		}
	}
	return out
}

// ResolveFieldRenames takes the frozen table "<field key> -> <type of the field>" of the fields rule tables name.
// A key whose struct still exists but has no field of that name any more is matched with the only field of the struct
// that has the recorded type and is not itself a named field of the table: the field was renamed, and every rule
// keeps seeing it under the old key. Returns the renames that were resolved ("old -> new").
func (w *World) ResolveFieldRenames(known map[string]string) []string {
	fieldAlias = map[string]string{}
	structs := w.repoStructs()
	var out []string
	keys := make([]string, 0, len(known))
	for k := range known {
		keys = append(keys, k)
	}
	sort.Strings(keys)
	for _, k := range keys {
		i := strings.LastIndex(k, ".")
		st := structs[k[:i]]
		if st == nil {
			continue
		}
		found := false
		var cands []string
		for j := 0; j < st.NumFields(); j++ {
			f := st.Field(j)
			if f.Name() == k[i+1:] {
				found = true
			}
			if _, isKnown := known[k[:i]+"."+f.Name()]; !isKnown && types.TypeString(f.Type(), nil) == known[k] {
				cands = append(cands, f.Name())
			}
		}
		if !found && len(cands) > 1 {
			var same []string
			for _, c := range cands {
				if c == k[i+1:] {
					same = append(same, c)
				}
			}
			if len(same) == 1 {
				cands = same
			}
		}
		if !found && len(cands) == 1 {
			fieldAlias[k[:i]+"."+cands[0]] = k
			out = append(out, k+" -> "+cands[0])
		}
		if !found && len(cands) == 0 {
			// wrapped: the field moved into a small struct of the same package that the old struct now holds
			// (transaction *Transaction -> slot transactionSlot{tx *Transaction})
			var nested []string
			for j := 0; j < st.NumFields(); j++ {
				ft := st.Field(j).Type()
				if p, isPtr := ft.(*types.Pointer); isPtr {
					ft = p.Elem()
				}
				named, isNamed := ft.(*types.Named)
				if !isNamed || named.Obj().Pkg() == nil || !strings.HasPrefix(named.Obj().Pkg().Path(), Module) {
					continue
				}
				inner, isStruct := named.Underlying().(*types.Struct)
				if !isStruct {
					continue
				}
				if _, isKnown := known[k[:i]+"."+st.Field(j).Name()]; isKnown {
					continue
				}
				for m := 0; m < inner.NumFields(); m++ {
					if types.TypeString(inner.Field(m).Type(), nil) == known[k] {
						nested = append(nested, TypeKey(named)+"."+inner.Field(m).Name())
					}
				}
			}
			if len(nested) > 1 {
				// several fields of that type in the sub-struct: the one that kept the name
				var same []string
				for _, nk := range nested {
					if nk[strings.LastIndex(nk, ".")+1:] == k[i+1:] {
						same = append(same, nk)
					}
				}
				if len(same) == 1 {
					nested = same
				}
			}
			if len(nested) == 1 {
				if _, taken := fieldAlias[nested[0]]; !taken {
					fieldAlias[nested[0]] = k
					out = append(out, k+" -> "+nested[0])
				}
			}
		}
	}
	return out
}
