package core

import (
	"fmt"
	"go/token"
	"go/types"

	"golang.org/x/tools/go/ssa"
)

// index of the facts needed to resolve function values without a pointer
// analysis: field-based for struct fields, caller-argument based for
// parameters, binding based for closure free variables.
type fvIndex struct {
	fieldStores map[string][]ssa.Value
	callers     map[*ssa.Function][]ssa.CallInstruction
	bindings    map[*ssa.Function][]*ssa.MakeClosure
}

// FieldKey identifies a struct field by owning named type and field name.
func FieldKey(fa *ssa.FieldAddr) string {
	pt, ok := fa.X.Type().Underlying().(*types.Pointer)
	if !ok {
		return "?"
	}
	st, ok := pt.Elem().Underlying().(*types.Struct)
	if !ok {
		return "?"
	}
	return aliasKey(TypeKey(pt.Elem()) + "." + st.Field(fa.Field).Name())
}

// FieldKeyVal is FieldKey for a value-mode field selection.
func FieldKeyVal(f *ssa.Field) string {
	st, ok := f.X.Type().Underlying().(*types.Struct)
	if !ok {
		return "?"
	}
	return aliasKey(TypeKey(f.X.Type()) + "." + st.Field(f.Field).Name())
}

func (w *World) fvIdx() *fvIndex {
	if w.fv != nil {
		return w.fv
	}
	ix := &fvIndex{fieldStores: map[string][]ssa.Value{}, callers: map[*ssa.Function][]ssa.CallInstruction{}, bindings: map[*ssa.Function][]*ssa.MakeClosure{}}
	for _, f := range w.RepoFns {
		for _, b := range f.Blocks {
			for _, in := range b.Instrs {
				switch x := in.(type) {
				case *ssa.Store:
					if fa, ok := x.Addr.(*ssa.FieldAddr); ok {
						k := FieldKey(fa)
						ix.fieldStores[k] = append(ix.fieldStores[k], x.Val)
					}
				case *ssa.MakeClosure:
					if fn, ok := x.Fn.(*ssa.Function); ok {
						ix.bindings[fn] = append(ix.bindings[fn], x)
					}
				}
				if c, ok := in.(ssa.CallInstruction); ok {
					if callee := c.Common().StaticCallee(); callee != nil {
						ix.callers[callee] = append(ix.callers[callee], c)
					}
				}
			}
		}
	}
	w.fv = ix
	return ix
}

// FuncTargets resolves the functions a function-typed value may denote.
// complete=false means some source could not be followed (the caller falls
// back to signature matching).
func (w *World) FuncTargets(v ssa.Value) (fns []*ssa.Function, complete bool) {
	ix := w.fvIdx()
	seen := map[ssa.Value]bool{}
	complete = true
	set := map[*ssa.Function]bool{}
	var rec func(v ssa.Value, depth int)
	rec = func(v ssa.Value, depth int) {
		if v == nil || seen[v] {
			return
		}
		seen[v] = true
		if depth > 8 {
			complete = false
			return
		}
		switch x := v.(type) {
		case *ssa.Function:
			set[w.unwrap(x)] = true
		case *ssa.MakeClosure:
			if fn, ok := x.Fn.(*ssa.Function); ok {
				set[w.unwrap(fn)] = true
			}
		case *ssa.Const:
			// nil func
		case *ssa.Phi:
			for _, e := range x.Edges {
				rec(e, depth)
			}
		case *ssa.ChangeType:
			rec(x.X, depth)
		case *ssa.Extract:
			if c, ok := x.Tuple.(*ssa.Call); ok {
				if callee := c.Common().StaticCallee(); callee != nil && callee.Blocks != nil {
					for _, b := range callee.Blocks {
						if ret, ok := b.Instrs[len(b.Instrs)-1].(*ssa.Return); ok && x.Index < len(ret.Results) {
							rec(ret.Results[x.Index], depth+1)
						}
					}
					return
				}
			}
			complete = false
		case *ssa.Call:
			if callee := x.Common().StaticCallee(); callee != nil && callee.Blocks != nil {
				for _, b := range callee.Blocks {
					if ret, ok := b.Instrs[len(b.Instrs)-1].(*ssa.Return); ok && len(ret.Results) == 1 {
						rec(ret.Results[0], depth+1)
					}
				}
				return
			}
			complete = false
		case *ssa.Parameter:
			fn := x.Parent()
			idx := -1
			for i, p := range fn.Params {
				if p == x {
					idx = i
				}
			}
			cs := ix.callers[fn]
			if len(cs) == 0 || idx < 0 {
				complete = false
				return
			}
			for _, c := range cs {
				if idx < len(c.Common().Args) {
					rec(c.Common().Args[idx], depth+1)
				}
			}
		case *ssa.FreeVar:
			fn := x.Parent()
			idx := -1
			for i, fv := range fn.FreeVars {
				if fv == x {
					idx = i
				}
			}
			for _, mc := range ix.bindings[fn] {
				if idx >= 0 && idx < len(mc.Bindings) {
					rec(mc.Bindings[idx], depth+1)
				}
			}
		case *ssa.Alloc:
			// pointer to a local holding the func: collect stores
			for _, ref := range *x.Referrers() {
				if st, ok := ref.(*ssa.Store); ok && st.Addr == x {
					rec(st.Val, depth)
				}
			}
		case *ssa.UnOp:
			if x.Op != token.MUL {
				complete = false
				return
			}
			switch a := x.X.(type) {
			case *ssa.FieldAddr:
				k := FieldKey(a)
				for _, sv := range ix.fieldStores[k] {
					rec(sv, depth+1)
				}
			case *ssa.Alloc:
				rec(a, depth)
			case *ssa.FreeVar:
				// captured variable: follow to the bound alloc
				rec(a, depth)
			default:
				complete = false
			}
		default:
			complete = false
		}
	}
	rec(v, 0)
	for f := range set {
		fns = append(fns, f)
	}
	return fns, complete
}

// unwrap maps bound-method / thunk wrappers to the declared method.
func (w *World) unwrap(f *ssa.Function) *ssa.Function {
	if f.Synthetic != "" && f.Object() != nil {
		if o, ok := f.Object().(*types.Func); ok {
			if d := w.Prog.FuncValue(o); d != nil {
				return d
			}
		}
	}
	return f
}

var _ = fmt.Sprintf
