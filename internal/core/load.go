// Package core holds the reusable static-analysis machinery of dscheck:
// loading /repo into typed syntax + SSA, symbol anchors, CFG/dominance
// queries, a repo-restricted call graph, value flow, locksets and reporting.
package core

import (
	"fmt"
	"go/token"
	"go/types"
	"os"
	"sort"
	"strings"
	"time"

	"golang.org/x/tools/go/packages"
	"golang.org/x/tools/go/ssa"
	"golang.org/x/tools/go/ssa/ssautil"
)

// Module is the import-path prefix of the analysed repository.
const Module = "github.com/sdcio/data-server"

// LoadOpts selects the build variant that is analysed.
type LoadOpts struct {
	Dir     string            // repository root (default $DSCHECK_REPO or /repo)
	Tags    string            // extra build tags ("verif")
	GOARCH  string            // "" = host
	Tests   bool              // include _test.go packages
	Overlay map[string][]byte // in-memory file replacements (self-validation variants)
}

// World is the loaded, type-checked, SSA-built program.
type World struct {
	Opts         LoadOpts
	Dir          string
	Fset         *token.FileSet
	Pkgs         []*packages.Package // initial packages (./...)
	All          map[string]*packages.Package
	Prog         *ssa.Program
	SSAPkgs      map[string]*ssa.Package  // by import path
	renamed      map[string]*ssa.Function // old key -> renamed function (ResolveRenamedFuncs)
	renamedTypes map[string]*types.Named  // old type key -> renamed struct type (ResolveRenamedTypes)
	RepoFns      []*ssa.Function          // all source functions (incl. anonymous) of repo packages, sorted
	LoadWall     time.Duration
	cg           *CallGraph
	fv           *fvIndex
	unres        []string
}

// RepoDir returns the repository root used by default.
func RepoDir() string {
	if d := os.Getenv("DSCHECK_REPO"); d != "" {
		return d
	}
	return "/repo"
}

// Load loads ./... of the repository with full syntax for all dependencies
// and builds SSA for the whole program.
func Load(o LoadOpts) (*World, error) {
	t0 := time.Now()
	if o.Dir == "" {
		o.Dir = RepoDir()
	}
	env := []string{}
	for _, e := range os.Environ() {
		if strings.HasPrefix(e, "GOWORK=") || strings.HasPrefix(e, "GOFLAGS=") || strings.HasPrefix(e, "GOPROXY=") ||
			strings.HasPrefix(e, "GOSUMDB=") || strings.HasPrefix(e, "GOTOOLCHAIN=") || strings.HasPrefix(e, "GOARCH=") {
			continue
		}
		env = append(env, e)
	}
	env = append(env, "GOWORK=off", "GOFLAGS=-mod=mod", "GOPROXY=off", "GOSUMDB=off", "GOTOOLCHAIN=local")
	if o.GOARCH != "" {
		env = append(env, "GOARCH="+o.GOARCH)
	}
	cfg := &packages.Config{
		Mode:    packages.LoadAllSyntax,
		Dir:     o.Dir,
		Env:     env,
		Tests:   o.Tests,
		Overlay: o.Overlay,
	}
	if o.Tags != "" {
		cfg.BuildFlags = []string{"-tags=" + o.Tags}
	}
	pkgs, err := packages.Load(cfg, "./...")
	if err != nil {
		return nil, fmt.Errorf("packages.Load: %w", err)
	}
	if len(pkgs) < 30 {
		return nil, fmt.Errorf("only %d packages loaded from %s (expected >= 30): the analysis would be vacuous", len(pkgs), o.Dir)
	}
	w := &World{Opts: o, Dir: o.Dir, Pkgs: pkgs, All: map[string]*packages.Package{}, SSAPkgs: map[string]*ssa.Package{}}
	var errs []string
	packages.Visit(pkgs, nil, func(p *packages.Package) {
		w.All[p.PkgPath] = p
		if strings.HasPrefix(p.PkgPath, Module) {
			for _, e := range p.Errors {
				errs = append(errs, e.Error())
			}
		}
	})
	if len(errs) > 0 {
		sort.Strings(errs)
		if len(errs) > 10 {
			errs = errs[:10]
		}
		return nil, fmt.Errorf("repository does not type-check: %s", strings.Join(errs, "; "))
	}
	w.Fset = pkgs[0].Fset
	prog, _ := ssautil.AllPackages(pkgs, ssa.InstantiateGenerics)
	prog.Build()
	w.Prog = prog
	for _, p := range prog.AllPackages() {
		w.SSAPkgs[p.Pkg.Path()] = p
	}
	// collect repo source functions
	seen := map[*ssa.Function]bool{}
	var add func(f *ssa.Function)
	add = func(f *ssa.Function) {
		if f == nil || seen[f] || f.Blocks == nil {
			return
		}
		seen[f] = true
		w.RepoFns = append(w.RepoFns, f)
		for _, a := range f.AnonFuncs {
			add(a)
		}
	}
	for path, sp := range w.SSAPkgs {
		if !strings.HasPrefix(path, Module) {
			continue
		}
		if strings.HasSuffix(path, ".test") || strings.Contains(path, " [") {
			continue
		}
		for _, m := range sp.Members {
			switch m := m.(type) {
			case *ssa.Function:
				add(m)
			case *ssa.Type:
				for _, T := range []types.Type{m.Type(), types.NewPointer(m.Type())} {
					ms := prog.MethodSets.MethodSet(T)
					for i := 0; i < ms.Len(); i++ {
						fn := prog.MethodValue(ms.At(i))
						if fn != nil && fn.Synthetic == "" {
							add(fn)
						}
					}
				}
			}
		}
	}
	sort.Slice(w.RepoFns, func(i, j int) bool { return FuncKey(w.RepoFns[i]) < FuncKey(w.RepoFns[j]) })
	w.LoadWall = time.Since(t0)
	return w, nil
}

// Pkg returns the SSA package with the given path relative to the module ("pkg/tree").
func (w *World) Pkg(rel string) *ssa.Package {
	p := w.SSAPkgs[Module+"/"+rel]
	if p == nil {
		p = w.SSAPkgs[rel]
	}
	if p == nil {
		w.unres = append(w.unres, "package "+rel)
	}
	return p
}

// Func resolves a package-level function or, when recv != "", a method of the
// named type recv (value or pointer receiver). Unresolved anchors are recorded
// and make the check fail as undecided.
func (w *World) Func(rel, recv, name string) *ssa.Function {
	p := w.Pkg(rel)
	if p == nil {
		return nil
	}
	if recv == "" {
		if f := p.Func(name); f != nil {
			return f
		}
		if f := w.renamed[shortPkg(p.Pkg.Path())+"."+name]; f != nil {
			return f // renamed, recognised by signature and callers
		}
		if f := w.uniqueByName(p, name); f != nil {
			return f // the function became a method
		}
		w.unres = append(w.unres, fmt.Sprintf("func %s.%s", rel, name))
		return nil
	}
	t := p.Type(recv)
	if t == nil {
		if n := w.renamedTypes[shortPkg(p.Pkg.Path())+"."+recv]; n != nil {
			t = p.Type(n.Obj().Name()) // the receiver type was renamed, recognised by its fields
		}
	}
	if t == nil {
		if f := w.uniqueByName(p, name); f != nil {
			return f // the receiver type was renamed
		}
		w.unres = append(w.unres, fmt.Sprintf("type %s.%s", rel, recv))
		return nil
	}
	for _, T := range []types.Type{t.Type(), types.NewPointer(t.Type())} {
		if sel := w.Prog.MethodSets.MethodSet(T).Lookup(p.Pkg, name); sel != nil {
			if fn := w.Prog.MethodValue(sel); fn != nil {
				// unwrap promoted-method / pointer-receiver wrappers to the declared method
				return w.unwrap(fn)
			}
		}
	}
	if f := w.renamed[shortPkg(p.Pkg.Path())+"."+recv+"."+name]; f != nil {
		return f // renamed, recognised by signature and callers
	}
	if f := w.uniqueByName(p, name); f != nil {
		return f // the method became a function or moved to another receiver
	}
	w.unres = append(w.unres, fmt.Sprintf("method %s.%s.%s", rel, recv, name))
	return nil
}

// uniqueByName returns the only function or method declared in package p under the simple name, nil when there is
// none or more than one: an anchor keeps resolving when a function is turned into a method (or the reverse) or its
// receiver type is renamed.
func (w *World) uniqueByName(p *ssa.Package, name string) *ssa.Function {
	var found []*ssa.Function
	for _, m := range p.Members {
		switch x := m.(type) {
		case *ssa.Function:
			if x.Name() == name {
				found = append(found, x)
			}
		case *ssa.Type:
			if _, isIface := x.Type().Underlying().(*types.Interface); isIface {
				continue
			}
			seen := map[*ssa.Function]bool{}
			for _, T := range []types.Type{x.Type(), types.NewPointer(x.Type())} {
				ms := w.Prog.MethodSets.MethodSet(T)
				for i := 0; i < ms.Len(); i++ {
					sel := ms.At(i)
					if sel.Obj().Name() != name || sel.Obj().Pkg() != p.Pkg || len(sel.Index()) != 1 {
						continue
					}
					if fn := w.Prog.MethodValue(sel); fn != nil {
						fn = w.unwrap(fn)
						if !seen[fn] {
							seen[fn] = true
							found = append(found, fn)
						}
					}
				}
			}
		}
	}
	if len(found) == 1 {
		return found[0]
	}
	return nil
}

// ClearUnresolved forgets the unresolved anchors recorded so far (between the properties of one run).
func (w *World) ClearUnresolved() { w.unres = nil }

// TryFunc is Func without recording an unresolved anchor.
func (w *World) TryFunc(rel, recv, name string) *ssa.Function {
	n := len(w.unres)
	f := w.Func(rel, recv, name)
	w.unres = w.unres[:n]
	return f
}

// NamedType resolves a named type of the repository.
func (w *World) NamedType(rel, name string) *types.Named {
	p := w.Pkg(rel)
	if p == nil {
		return nil
	}
	t := p.Type(name)
	if t == nil {
		if n := w.renamedTypes[shortPkg(p.Pkg.Path())+"."+name]; n != nil {
			t = p.Type(n.Obj().Name())
		}
	}
	if t == nil {
		w.unres = append(w.unres, fmt.Sprintf("type %s.%s", rel, name))
		return nil
	}
	n, _ := t.Type().(*types.Named)
	return n
}

// Unresolved lists anchors that could not be resolved.
func (w *World) Unresolved() []string { return w.unres }

// NoteUnresolved records an anchor that a rule could not find.
func (w *World) NoteUnresolved(s string) { w.unres = append(w.unres, s) }

// Pos renders a position relative to the repository root.
func (w *World) Pos(p token.Pos) string {
	if !p.IsValid() {
		return "-"
	}
	pp := w.Fset.Position(p)
	f := strings.TrimPrefix(pp.Filename, w.Dir+"/")
	return fmt.Sprintf("%s:%d:%d", f, pp.Line, pp.Column)
}

// InstrPos gives the best position for an instruction (falls back to the function).
func (w *World) InstrPos(i ssa.Instruction) string {
	if i.Pos().IsValid() {
		return w.Pos(i.Pos())
	}
	if c, ok := i.(ssa.CallInstruction); ok {
		if c.Common().Pos().IsValid() {
			return w.Pos(c.Common().Pos())
		}
	}
	if i.Parent() != nil {
		return w.Pos(i.Parent().Pos())
	}
	return "-"
}
