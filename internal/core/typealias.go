package core

import (
	"go/types"
	"sort"
	"strings"
)

// typeAlias maps the key of a named struct type as it is called in the analysed tree to the key the rule tables
// use, for types that were merely renamed (see ResolveRenamedTypes). TypeKey applies it, so every key derived from a
// type (methods, fields) is rendered with the old name.
var typeAlias map[string]string

func aliasTypeKey(k string) string {
	if a, ok := typeAlias[k]; ok {
		return a
	}
	return k
}

func rawTypeKey(n *types.Named) string {
	if n.Obj().Pkg() == nil {
		return n.Obj().Name()
	}
	return shortPkg(n.Obj().Pkg().Path()) + "." + n.Obj().Name()
}

// fieldTypeList renders the field types of a struct in order; named repository types appear under their (aliased)
// keys so that a struct whose field mentions another renamed struct still compares equal.
func fieldTypeList(st *types.Struct) []string {
	out := make([]string, st.NumFields())
	q := func(p *types.Package) string { return shortPkg(p.Path()) }
	for i := 0; i < st.NumFields(); i++ {
		s := types.TypeString(st.Field(i).Type(), q)
		for nk, ok := range typeAlias {
			// whole-word replacement of "<pkg>.<New>" by "<pkg>.<Old>"
			s = replaceWord(s, nk, ok)
		}
		out[i] = s
	}
	return out
}

func replaceWord(s, from, to string) string {
	idx := 0
	for {
		i := strings.Index(s[idx:], from)
		if i < 0 {
			return s
		}
		i += idx
		end := i + len(from)
		okEnd := end == len(s) || !isIdentChar(s[end])
		okStart := i == 0 || !isIdentChar(s[i-1]) && s[i-1] != '/'
		if okEnd && okStart {
			s = s[:i] + to + s[end:]
			idx = i + len(to)
		} else {
			idx = end
		}
	}
}

func isIdentChar(c byte) bool {
	return c == '_' || c >= '0' && c <= '9' || c >= 'a' && c <= 'z' || c >= 'A' && c <= 'Z'
}

func (w *World) repoNamedStructs() map[string]*types.Named {
	out := map[string]*types.Named{}
	for _, p := range w.SSAPkgs {
		if p == nil || p.Pkg == nil || !strings.HasPrefix(p.Pkg.Path(), Module) {
			continue
		}
		sc := p.Pkg.Scope()
		for _, n := range sc.Names() {
			tn, ok := sc.Lookup(n).(*types.TypeName)
			if !ok || tn.IsAlias() {
				continue
			}
			named, ok := tn.Type().(*types.Named)
			if !ok {
				continue
			}
			if _, ok := named.Underlying().(*types.Struct); ok {
				out[rawTypeKey(named)] = named
			}
		}
	}
	return out
}

// TypeTable records, for every named struct type of the repository, the ordered list of its field types.
func (w *World) TypeTable() map[string][]string {
	typeAlias = nil
	out := map[string][]string{}
	for k, n := range w.repoNamedStructs() {
		out[k] = fieldTypeList(n.Underlying().(*types.Struct))
	}
	return out
}

// ResolveRenamedTypes: a struct type of the frozen table that no longer exists under its name is matched with the
// one struct type of the same package that is not in the table and has the same ordered list of field types (field
// NAMES may have changed as well; types that refer to other renamed structs are compared after those were resolved).
// Returns the renames resolved ("old -> new").
func (w *World) ResolveRenamedTypes(table map[string][]string) []string {
	typeAlias = map[string]string{}
	var out []string
	for round := 0; round < 4; round++ {
		structs := w.repoNamedStructs()
		progress := false
		olds := make([]string, 0, len(table))
		for k := range table {
			olds = append(olds, k)
		}
		sort.Strings(olds)
		for _, old := range olds {
			if structs[old] != nil {
				continue
			}
			already := false
			for _, o := range typeAlias {
				if o == old {
					already = true
				}
			}
			if already {
				continue
			}
			pkg := old[:strings.LastIndex(old, ".")]
			var cands []string
			for nk, n := range structs {
				if _, inTable := table[nk]; inTable {
					continue
				}
				if _, aliased := typeAlias[nk]; aliased {
					continue
				}
				if nk[:strings.LastIndex(nk, ".")] != pkg {
					continue
				}
				got := fieldTypeList(n.Underlying().(*types.Struct))
				want := table[old]
				if len(got) != len(want) || len(got) == 0 {
					continue
				}
				same := true
				for i := range got {
					if got[i] != want[i] {
						same = false
					}
				}
				if same {
					cands = append(cands, nk)
				}
			}
			if len(cands) == 1 {
				typeAlias[cands[0]] = old
				out = append(out, old+" -> "+cands[0])
				progress = true
			}
		}
		if !progress {
			break
		}
	}
	// old bare type name -> current *types.Named, for anchors given as (package, receiver, name)
	w.renamedTypes = map[string]*types.Named{}
	structs := w.repoNamedStructs()
	for nk, old := range typeAlias {
		w.renamedTypes[old] = structs[nk]
	}
	return out
}
